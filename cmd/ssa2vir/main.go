// ssa2vir lowers the go/ssa form of /repo (plus in-package harness files injected as an
// overlay) to a JSON register IR ("VIR") that the Python symbolic executor runs.
//
//	ssa2vir -repo /repo -overlay a.go,b.go -entry verifHarness_X,... -stop fmt,sync -tags t -out x.json
package main

import (
	"encoding/json"
	"flag"
	"fmt"
	"go/ast"
	"go/constant"
	"go/parser"
	"go/printer"
	"go/token"
	"go/types"
	"math"
	"os"
	"path/filepath"
	"sort"
	"strings"

	"golang.org/x/tools/go/ast/astutil"
	"golang.org/x/tools/go/packages"
	"golang.org/x/tools/go/ssa"
	"golang.org/x/tools/go/ssa/ssautil"
)

type J = map[string]interface{}

var (
	sizes    = types.SizesFor("gc", "amd64")
	typeIDs  = map[string]string{}
	typeTab  = map[string]J{}
	typeList []types.Type
	prog     *ssa.Program
	stopPkgs = map[string]bool{}
	stopFns  = map[string]bool{}
	funcsOut = map[string]J{}
	globals  = map[string]J{}
	queue    []*ssa.Function
	seen     = map[*ssa.Function]bool{}
	mainPkg  *ssa.Package
	ifaceTys = map[string]types.Type{} // concrete types converted to interfaces
)

func typeID(t types.Type) string {
	if t == nil {
		return ""
	}
	key := types.TypeString(t, nil)
	if id, ok := typeIDs[key]; ok {
		return id
	}
	id := fmt.Sprintf("T%d", len(typeIDs))
	typeIDs[key] = id
	typeTab[id] = J{} // reserve (cycles)
	typeTab[id] = describe(t, key)
	return id
}

func describe(t types.Type, key string) J {
	d := J{"s": key}
	if n, ok := t.(*types.Named); ok {
		d["name"] = key
		u := describe(n.Underlying(), key)
		for k, v := range u {
			if k != "s" {
				d[k] = v
			}
		}
		return d
	}
	if a, ok := t.(*types.Alias); ok {
		return describe(types.Unalias(a), key)
	}
	switch u := t.(type) {
	case *types.Basic:
		info := u.Info()
		switch {
		case info&types.IsBoolean != 0:
			d["k"] = "bool"
		case info&types.IsInteger != 0:
			d["k"] = "int"
			kind := u.Kind()
			if kind == types.UntypedInt || kind == types.UntypedRune {
				d["bits"] = 64
				d["signed"] = true
			} else {
				d["bits"] = sizes.Sizeof(u) * 8
				d["signed"] = info&types.IsUnsigned == 0
			}
		case info&types.IsFloat != 0:
			d["k"] = "float"
			if u.Kind() == types.Float32 {
				d["bits"] = 32
			} else {
				d["bits"] = 64
			}
		case info&types.IsString != 0:
			d["k"] = "string"
		case u.Kind() == types.UnsafePointer:
			d["k"] = "unsafeptr"
		case u.Kind() == types.UntypedNil:
			d["k"] = "nil"
		case info&types.IsComplex != 0:
			d["k"] = "complex"
		default:
			d["k"] = "invalid"
		}
	case *types.Pointer:
		d["k"] = "ptr"
		d["elem"] = typeID(u.Elem())
	case *types.Slice:
		d["k"] = "slice"
		d["elem"] = typeID(u.Elem())
	case *types.Array:
		d["k"] = "array"
		d["elem"] = typeID(u.Elem())
		d["len"] = u.Len()
	case *types.Struct:
		d["k"] = "struct"
		fs := []J{}
		for i := 0; i < u.NumFields(); i++ {
			f := u.Field(i)
			fs = append(fs, J{"name": f.Name(), "t": typeID(f.Type()), "emb": f.Embedded()})
		}
		d["fields"] = fs
	case *types.Interface:
		d["k"] = "iface"
		ms := []string{}
		for i := 0; i < u.NumMethods(); i++ {
			ms = append(ms, u.Method(i).Name())
		}
		d["methods"] = ms
	case *types.Map:
		d["k"] = "map"
		d["key"] = typeID(u.Key())
		d["elem"] = typeID(u.Elem())
	case *types.Chan:
		d["k"] = "chan"
		d["elem"] = typeID(u.Elem())
	case *types.Signature:
		d["k"] = "func"
	case *types.Tuple:
		d["k"] = "tuple"
		es := []string{}
		for i := 0; i < u.Len(); i++ {
			es = append(es, typeID(u.At(i).Type()))
		}
		d["elems"] = es
	default:
		d["k"] = "other"
	}
	return d
}

func fname(f *ssa.Function) string {
	return f.String()
}

func wantBody(f *ssa.Function) bool {
	if f == nil || len(f.Blocks) == 0 {
		return false
	}
	if stopFns[fname(f)] {
		return false
	}
	if f.Pkg != nil {
		if stopPkgs[f.Pkg.Pkg.Path()] {
			return false
		}
	} else if f.Object() != nil && f.Object().Pkg() != nil {
		if stopPkgs[f.Object().Pkg().Path()] {
			return false
		}
	}
	return true
}

func enqueue(f *ssa.Function) {
	if f == nil || seen[f] {
		return
	}
	seen[f] = true
	if !wantBody(f) {
		return
	}
	queue = append(queue, f)
}

func constVal(c *ssa.Const) J {
	t := c.Type()
	out := J{"k": "c", "t": typeID(t)}
	if c.Value == nil {
		out["v"] = nil // zero value / nil
		return out
	}
	switch ut := t.Underlying().(type) {
	case *types.Basic:
		info := ut.Info()
		switch {
		case info&types.IsBoolean != 0:
			out["v"] = constant.BoolVal(c.Value)
		case info&types.IsInteger != 0:
			out["v"] = constant.ToInt(c.Value).ExactString()
		case info&types.IsFloat != 0:
			f, _ := constant.Float64Val(constant.ToFloat(c.Value))
			if ut.Kind() == types.Float32 {
				out["v"] = fmt.Sprint(math.Float32bits(float32(f)))
			} else {
				out["v"] = fmt.Sprint(math.Float64bits(f))
			}
		case info&types.IsString != 0:
			s := constant.StringVal(c.Value)
			bs := make([]int, len(s))
			for i := 0; i < len(s); i++ {
				bs[i] = int(s[i])
			}
			out["v"] = bs
		default:
			out["v"] = c.Value.ExactString()
		}
	default:
		out["v"] = c.Value.ExactString()
	}
	return out
}

func operand(v ssa.Value) interface{} {
	switch x := v.(type) {
	case nil:
		return nil
	case *ssa.Const:
		return constVal(x)
	case *ssa.Global:
		gname := x.String()
		if _, ok := globals[gname]; !ok {
			globals[gname] = J{"t": typeID(x.Type().(*types.Pointer).Elem()), "pkg": x.Pkg.Pkg.Path()}
			// make sure the defining package's init is available
			if in := x.Pkg.Func("init"); in != nil {
				enqueue(in)
			}
		}
		return J{"k": "g", "n": gname, "t": typeID(x.Type())}
	case *ssa.Function:
		enqueue(x)
		return J{"k": "fn", "n": fname(x), "t": typeID(x.Type())}
	case *ssa.Builtin:
		return J{"k": "bi", "n": x.Name()}
	case *ssa.Parameter:
		return J{"k": "r", "n": "p:" + x.Name()}
	case *ssa.FreeVar:
		return J{"k": "r", "n": "f:" + x.Name()}
	default:
		return J{"k": "r", "n": v.Name()}
	}
}

func operands(vs []ssa.Value) []interface{} {
	out := make([]interface{}, len(vs))
	for i, v := range vs {
		out[i] = operand(v)
	}
	return out
}

func callCommon(c *ssa.CallCommon) J {
	out := J{"args": operands(c.Args)}
	if c.IsInvoke() {
		out["mode"] = "invoke"
		out["recv"] = operand(c.Value)
		out["method"] = c.Method.Name()
		out["recvt"] = typeID(c.Value.Type())
		return out
	}
	switch f := c.Value.(type) {
	case *ssa.Function:
		enqueue(f)
		out["mode"] = "static"
		out["fn"] = fname(f)
		out["hasbody"] = wantBody(f)
	case *ssa.Builtin:
		out["mode"] = "builtin"
		out["fn"] = f.Name()
		ats := []string{}
		for _, a := range c.Args {
			ats = append(ats, typeID(a.Type()))
		}
		out["argt"] = ats
	default:
		out["mode"] = "closure"
		out["value"] = operand(c.Value)
	}
	sig := c.Signature()
	out["variadic"] = sig.Variadic()
	return out
}

func methodsOf(t types.Type) map[string]string {
	out := map[string]string{}
	ms := prog.MethodSets.MethodSet(t)
	for i := 0; i < ms.Len(); i++ {
		sel := ms.At(i)
		f := prog.MethodValue(sel)
		if f != nil {
			enqueue(f)
			out[sel.Obj().Name()] = fname(f)
		}
	}
	return out
}

func lowerInstr(ins ssa.Instruction) J {
	o := J{}
	if v, ok := ins.(ssa.Value); ok {
		o["r"] = v.Name()
		o["t"] = typeID(v.Type())
	}
	switch x := ins.(type) {
	case *ssa.Alloc:
		o["op"] = "alloc"
		o["heap"] = x.Heap
		o["et"] = typeID(x.Type().(*types.Pointer).Elem())
	case *ssa.BinOp:
		o["op"] = "binop"
		o["o"] = x.Op.String()
		o["x"] = operand(x.X)
		o["y"] = operand(x.Y)
		o["xt"] = typeID(x.X.Type())
		o["yt"] = typeID(x.Y.Type())
	case *ssa.UnOp:
		o["op"] = "unop"
		o["o"] = x.Op.String()
		o["x"] = operand(x.X)
		o["xt"] = typeID(x.X.Type())
		o["commaok"] = x.CommaOk
	case *ssa.Call:
		o["op"] = "call"
		o["call"] = callCommon(&x.Call)
	case *ssa.Defer:
		o["op"] = "defer"
		o["call"] = callCommon(&x.Call)
	case *ssa.Go:
		o["op"] = "go"
		o["call"] = callCommon(&x.Call)
	case *ssa.ChangeInterface:
		o["op"] = "changeiface"
		o["x"] = operand(x.X)
	case *ssa.ChangeType:
		o["op"] = "changetype"
		o["x"] = operand(x.X)
	case *ssa.Convert:
		o["op"] = "convert"
		o["x"] = operand(x.X)
		o["xt"] = typeID(x.X.Type())
	case *ssa.DebugRef:
		return nil
	case *ssa.Extract:
		o["op"] = "extract"
		o["x"] = operand(x.Tuple)
		o["i"] = x.Index
	case *ssa.Field:
		o["op"] = "field"
		o["x"] = operand(x.X)
		o["i"] = x.Field
	case *ssa.FieldAddr:
		o["op"] = "fieldaddr"
		o["x"] = operand(x.X)
		o["i"] = x.Field
	case *ssa.If:
		o["op"] = "if"
		o["cond"] = operand(x.Cond)
	case *ssa.Index:
		o["op"] = "index"
		o["x"] = operand(x.X)
		o["idx"] = operand(x.Index)
		o["xt"] = typeID(x.X.Type())
		o["it"] = typeID(x.Index.Type())
	case *ssa.IndexAddr:
		o["op"] = "indexaddr"
		o["x"] = operand(x.X)
		o["idx"] = operand(x.Index)
		o["xt"] = typeID(x.X.Type())
		o["it"] = typeID(x.Index.Type())
	case *ssa.Jump:
		o["op"] = "jump"
	case *ssa.Lookup:
		o["op"] = "lookup"
		o["x"] = operand(x.X)
		o["idx"] = operand(x.Index)
		o["xt"] = typeID(x.X.Type())
		o["it"] = typeID(x.Index.Type())
		o["commaok"] = x.CommaOk
	case *ssa.MakeChan:
		o["op"] = "makechan"
		o["size"] = operand(x.Size)
	case *ssa.MakeClosure:
		o["op"] = "makeclosure"
		fn := x.Fn.(*ssa.Function)
		enqueue(fn)
		o["fn"] = fname(fn)
		o["bindings"] = operands(x.Bindings)
	case *ssa.MakeInterface:
		o["op"] = "makeiface"
		o["x"] = operand(x.X)
		o["xt"] = typeID(x.X.Type())
		ifaceTys[typeID(x.X.Type())] = x.X.Type()
	case *ssa.MakeMap:
		o["op"] = "makemap"
	case *ssa.MakeSlice:
		o["op"] = "makeslice"
		o["len"] = operand(x.Len)
		o["cap"] = operand(x.Cap)
		o["lt"] = typeID(x.Len.Type())
	case *ssa.MapUpdate:
		o["op"] = "mapupdate"
		o["m"] = operand(x.Map)
		o["key"] = operand(x.Key)
		o["val"] = operand(x.Value)
	case *ssa.Next:
		o["op"] = "next"
		o["iter"] = operand(x.Iter)
		o["isstring"] = x.IsString
	case *ssa.Panic:
		o["op"] = "panic"
		o["x"] = operand(x.X)
	case *ssa.Phi:
		o["op"] = "phi"
		o["edges"] = operands(x.Edges)
	case *ssa.Range:
		o["op"] = "range"
		o["x"] = operand(x.X)
		o["xt"] = typeID(x.X.Type())
	case *ssa.Return:
		o["op"] = "return"
		o["results"] = operands(x.Results)
	case *ssa.RunDefers:
		o["op"] = "rundefers"
	case *ssa.Select:
		o["op"] = "select"
		sts := []J{}
		for _, s := range x.States {
			sts = append(sts, J{"dir": int(s.Dir), "chan": operand(s.Chan), "send": operand(s.Send)})
		}
		o["states"] = sts
		o["blocking"] = x.Blocking
	case *ssa.Send:
		o["op"] = "send"
		o["chan"] = operand(x.Chan)
		o["x"] = operand(x.X)
	case *ssa.Slice:
		o["op"] = "slice"
		o["x"] = operand(x.X)
		o["low"] = operand(x.Low)
		o["high"] = operand(x.High)
		o["max"] = operand(x.Max)
		o["xt"] = typeID(x.X.Type())
	case *ssa.SliceToArrayPointer:
		o["op"] = "slicetoarrayptr"
		o["x"] = operand(x.X)
	case *ssa.Store:
		o["op"] = "store"
		o["addr"] = operand(x.Addr)
		o["val"] = operand(x.Val)
		o["vt"] = typeID(x.Val.Type())
	case *ssa.TypeAssert:
		o["op"] = "typeassert"
		o["x"] = operand(x.X)
		o["at"] = typeID(x.AssertedType)
		o["commaok"] = x.CommaOk
	default:
		o["op"] = "unsupported"
		o["s"] = fmt.Sprintf("%T", ins)
	}
	if p := ins.Pos(); p.IsValid() {
		pos := prog.Fset.Position(p)
		o["pos"] = fmt.Sprintf("%s:%d", filepath.Base(pos.Filename), pos.Line)
	}
	return o
}

func lowerFunc(f *ssa.Function) J {
	out := J{"name": fname(f)}
	ps := []J{}
	for _, p := range f.Params {
		ps = append(ps, J{"n": "p:" + p.Name(), "t": typeID(p.Type())})
	}
	out["params"] = ps
	fvs := []J{}
	for _, p := range f.FreeVars {
		fvs = append(fvs, J{"n": "f:" + p.Name(), "t": typeID(p.Type())})
	}
	out["freevars"] = fvs
	rs := []string{}
	res := f.Signature.Results()
	for i := 0; i < res.Len(); i++ {
		rs = append(rs, typeID(res.At(i).Type()))
	}
	out["results"] = rs
	if f.Pkg != nil {
		out["pkg"] = f.Pkg.Pkg.Path()
	}
	if f.Recover != nil {
		out["recover"] = f.Recover.Index
	}
	if f.Synthetic != "" {
		out["synthetic"] = f.Synthetic
	}
	n := 0
	blocks := []J{}
	for _, b := range f.Blocks {
		ins := []J{}
		for _, i := range b.Instrs {
			if l := lowerInstr(i); l != nil {
				ins = append(ins, l)
				n++
			}
		}
		succs := []int{}
		for _, s := range b.Succs {
			succs = append(succs, s.Index)
		}
		preds := []int{}
		for _, s := range b.Preds {
			preds = append(preds, s.Index)
		}
		blocks = append(blocks, J{"i": b.Index, "ins": ins, "succs": succs, "preds": preds, "comment": b.Comment})
	}
	out["blocks"] = blocks
	out["ninstr"] = n
	if p := f.Pos(); p.IsValid() {
		pos := prog.Fset.Position(p)
		out["pos"] = fmt.Sprintf("%s:%d", filepath.Base(pos.Filename), pos.Line)
		out["file"] = filepath.Base(pos.Filename)
	}
	return out
}

// rewriteConsts returns the source of file with `const name = <expr>` (or a typed const) replaced.
func rewriteConsts(path string, repl map[string]string, used map[string]int) ([]byte, bool, error) {
	fset := token.NewFileSet()
	f, err := parser.ParseFile(fset, path, nil, parser.ParseComments)
	if err != nil {
		return nil, false, err
	}
	changed := false
	ast.Inspect(f, func(n ast.Node) bool {
		vs, ok := n.(*ast.ValueSpec)
		if !ok {
			return true
		}
		for i, nm := range vs.Names {
			if r, ok := repl[nm.Name]; ok && i < len(vs.Values) {
				e, err := parser.ParseExpr(r)
				if err != nil {
					panic(err)
				}
				vs.Values[i] = e
				used[nm.Name]++
				changed = true
			}
		}
		return true
	})
	// "lit:<expr>" keys: rewrite a literal expression inside a function body (e.g. the 8<<10 sync/async threshold), matched
	// by its printed form
	lits := map[string]string{}
	for k, v := range repl {
		if strings.HasPrefix(k, "lit:") {
			lits[k[4:]] = v
		}
	}
	if len(lits) > 0 {
		astutil.Apply(f, func(c *astutil.Cursor) bool {
			e, ok := c.Node().(ast.Expr)
			if !ok {
				return true
			}
			if _, isBin := e.(*ast.BinaryExpr); !isBin {
				return true
			}
			if r, ok := lits[types.ExprString(e)]; ok {
				ne, err := parser.ParseExpr(r)
				if err != nil {
					panic(err)
				}
				c.Replace(ne)
				used["lit:"+types.ExprString(e)]++
				changed = true
				return false
			}
			return true
		}, nil)
	}
	if !changed {
		return nil, false, nil
	}
	var sb strings.Builder
	if err := printer.Fprint(&sb, fset, f); err != nil {
		return nil, false, err
	}
	return []byte(sb.String()), true, nil
}

func main() {
	repo := flag.String("repo", "/repo", "")
	overlay := flag.String("overlay", "", "comma separated harness files (injected into the package dir)")
	entries := flag.String("entry", "", "comma separated function names in the main package (prefix match with trailing *)")
	stop := flag.String("stop", "", "comma separated package paths not to descend into")
	stopf := flag.String("stopfn", "", "comma separated full function names not to descend into")
	tags := flag.String("tags", "", "build tags")
	outp := flag.String("out", "", "output file")
	scale := flag.String("scale", "", "name=expr,... constant declarations to rewrite in the package (stated scaling)")
	allpkg := flag.Bool("allpkg", false, "lower every function of the main package")
	scaledOut := flag.String("scaledout", "", "directory to write the constant-rewritten source files to (for native replay)")
	flag.Parse()

	for _, s := range strings.Split(*stop, ",") {
		if s != "" {
			stopPkgs[s] = true
		}
	}
	for _, s := range strings.Split(*stopf, ",") {
		if s != "" {
			stopFns[s] = true
		}
	}
	ov := map[string][]byte{}
	for _, f := range strings.Split(*overlay, ",") {
		if f == "" {
			continue
		}
		b, err := os.ReadFile(f)
		if err != nil {
			fatal(err)
		}
		ov[filepath.Join(*repo, filepath.Base(f))] = b
	}
	if *scale != "" {
		repl := map[string]string{}
		for _, kv := range strings.Split(*scale, ",") {
			p := strings.SplitN(kv, "=", 2)
			repl[p[0]] = p[1]
		}
		used := map[string]int{}
		files, _ := filepath.Glob(filepath.Join(*repo, "*.go"))
		for _, f := range files {
			if strings.HasSuffix(f, "_test.go") {
				continue
			}
			src, ch, err := rewriteConsts(f, repl, used)
			if err != nil {
				fatal(err)
			}
			if ch {
				ov[f] = src
				if *scaledOut != "" {
					if err := os.WriteFile(filepath.Join(*scaledOut, filepath.Base(f)), src, 0o644); err != nil {
						fatal(err)
					}
				}
			}
		}
		for k := range repl {
			if used[k] != 1 {
				fatal(fmt.Errorf("scaled constant %s found %d times (want exactly 1)", k, used[k]))
			}
		}
	}
	cfg := &packages.Config{
		Mode:    packages.LoadAllSyntax,
		Dir:     *repo,
		Overlay: ov,
		Env:     os.Environ(),
	}
	if *tags != "" {
		cfg.BuildFlags = []string{"-tags", *tags}
	}
	pkgs, err := packages.Load(cfg, ".")
	if err != nil {
		fatal(err)
	}
	if packages.PrintErrors(pkgs) > 0 {
		os.Exit(3)
	}
	var ssapkgs []*ssa.Package
	prog, ssapkgs = ssautil.AllPackages(pkgs, ssa.InstantiateGenerics)
	prog.Build()
	mainPkg = ssapkgs[0]

	want := strings.Split(*entries, ",")
	names := []string{}
	for n := range mainPkg.Members {
		names = append(names, n)
	}
	sort.Strings(names)
	entryNames := []string{}
	for _, n := range names {
		f, ok := mainPkg.Members[n].(*ssa.Function)
		if !ok {
			continue
		}
		match := *allpkg
		for _, w := range want {
			if w == "" {
				continue
			}
			if strings.HasSuffix(w, "*") && strings.HasPrefix(n, strings.TrimSuffix(w, "*")) || w == n {
				match = true
				entryNames = append(entryNames, fname(f))
			}
		}
		if match {
			enqueue(f)
		}
	}
	if *allpkg {
		for _, m := range mainPkg.Members {
			if t, ok := m.(*ssa.Type); ok {
				methodsOf(t.Type())
				methodsOf(types.NewPointer(t.Type()))
			}
		}
	}
	enqueue(mainPkg.Func("init"))

	done := map[string]bool{}
	for {
		for len(queue) > 0 {
			f := queue[0]
			queue = queue[1:]
			funcsOut[fname(f)] = lowerFunc(f)
			for _, af := range f.AnonFuncs {
				enqueue(af)
			}
		}
		// method tables of every concrete type that is converted to an interface
		progress := false
		for id, t := range ifaceTys {
			if done[id] {
				continue
			}
			done[id] = true
			progress = true
			ms := methodsOf(t)
			d := typeTab[id]
			d["methods_impl"] = ms
		}
		if !progress && len(queue) == 0 {
			break
		}
	}
	// named types' method tables (value and pointer receivers) for types in main package
	out := J{
		"funcs":   funcsOut,
		"types":   typeTab,
		"globals": globals,
		"entries": entryNames,
		"main":    mainPkg.Pkg.Path(),
	}
	var w *os.File = os.Stdout
	if *outp != "" {
		w, err = os.Create(*outp)
		if err != nil {
			fatal(err)
		}
		defer w.Close()
	}
	enc := json.NewEncoder(w)
	if err := enc.Encode(out); err != nil {
		fatal(err)
	}
	n := 0
	for _, f := range funcsOut {
		n += f["ninstr"].(int)
	}
	fmt.Fprintf(os.Stderr, "ssa2vir: %d functions, %d instructions, %d types, %d globals\n", len(funcsOut), n, len(typeTab), len(globals))
}

func fatal(err error) {
	fmt.Fprintln(os.Stderr, "ssa2vir:", err)
	os.Exit(3)
}
