// e3instr rewrites one Go source file so that the statements at the given lines (the sites of the events and
// accesses of an E3 counterexample) call hand-off hooks before and after they execute:
//
//	verifE3Pre("<file>:<line>") ; <statement> ; verifE3Post("<file>:<line>")
//
// Special forms: `for x := range ch {…}` gets the hooks around every receive; `select {…}` gets the pre-hook before
// the statement and the post-hook at the head of every clause; `defer f()` becomes a deferred closure with the hooks
// around f(); every `go func(){…}()` in the file (target or not) announces the logical thread name of the child.
// The logic of the file is otherwise untouched. Used only for native replay (go test -overlay).
//
//	e3instr -file parse_json_amd64.go -lines 84,92 -out /var/tmp/x/parse_json_amd64.go
package main

import (
	"flag"
	"fmt"
	"go/ast"
	"go/parser"
	"go/printer"
	"go/token"
	"os"
	"path/filepath"
	"strconv"
	"strings"
)

var (
	fset  = token.NewFileSet()
	base  string
	lines = map[int]bool{}
	done  = map[int]bool{}
	nsp   int
	seenF = map[*ast.FuncLit]bool{}
)

func site(line int) ast.Expr {
	return &ast.BasicLit{Kind: token.STRING, Value: strconv.Quote(fmt.Sprintf("%s:%d", base, line))}
}

func call(name string, args ...ast.Expr) ast.Stmt {
	return &ast.ExprStmt{X: &ast.CallExpr{Fun: ast.NewIdent(name), Args: args}}
}

func lineOf(p token.Pos) int { return fset.Position(p).Line }

// goRewrite: go func(){ body }()  ->  { t := verifE3Spawn(site); go func(){ verifE3Enter(t); body }() }
func goRewrite(g *ast.GoStmt) ast.Stmt {
	fl, ok := g.Call.Fun.(*ast.FuncLit)
	if !ok || len(g.Call.Args) != 0 {
		return nil
	}
	nsp++
	v := ast.NewIdent(fmt.Sprintf("verifE3t%d", nsp))
	decl := &ast.AssignStmt{Lhs: []ast.Expr{v}, Tok: token.DEFINE,
		Rhs: []ast.Expr{&ast.CallExpr{Fun: ast.NewIdent("verifE3Spawn"), Args: []ast.Expr{site(lineOf(g.Pos()))}}}}
	fl.Body.List = append([]ast.Stmt{call("verifE3Enter", v)}, fl.Body.List...)
	return &ast.BlockStmt{List: []ast.Stmt{decl, g}}
}

func rewriteList(list []ast.Stmt) []ast.Stmt {
	var out []ast.Stmt
	for _, s := range list {
		out = append(out, rewriteStmt(s)...)
	}
	return out
}

// does statement s (not descending into nested blocks' statements) start at a target line?
func target(s ast.Stmt) (int, bool) {
	l := lineOf(s.Pos())
	if lines[l] {
		return l, true
	}
	return 0, false
}

func rewriteStmt(s ast.Stmt) []ast.Stmt {
	// first rewrite nested statement lists
	switch x := s.(type) {
	case *ast.BlockStmt:
		x.List = rewriteList(x.List)
	case *ast.IfStmt:
		x.Body.List = rewriteList(x.Body.List)
		if x.Else != nil {
			r := rewriteStmt(x.Else)
			if len(r) == 1 {
				x.Else = r[0]
			} else {
				x.Else = &ast.BlockStmt{List: r}
			}
		}
	case *ast.ForStmt:
		x.Body.List = rewriteList(x.Body.List)
	case *ast.RangeStmt:
		x.Body.List = rewriteList(x.Body.List)
	case *ast.SwitchStmt:
		for _, c := range x.Body.List {
			cc := c.(*ast.CaseClause)
			cc.Body = rewriteList(cc.Body)
		}
	case *ast.TypeSwitchStmt:
		for _, c := range x.Body.List {
			cc := c.(*ast.CaseClause)
			cc.Body = rewriteList(cc.Body)
		}
	case *ast.SelectStmt:
		for _, c := range x.Body.List {
			cc := c.(*ast.CommClause)
			cc.Body = rewriteList(cc.Body)
		}
	case *ast.LabeledStmt:
		r := rewriteStmt(x.Stmt)
		if len(r) == 1 {
			x.Stmt = r[0]
		} else {
			x.Stmt = &ast.BlockStmt{List: r}
		}
		return []ast.Stmt{x}
	}
	// function literals inside the statement (goroutine bodies, deferred closures)
	ast.Inspect(s, func(n ast.Node) bool {
		if fl, ok := n.(*ast.FuncLit); ok {
			if !seenF[fl] {
				seenF[fl] = true
				fl.Body.List = rewriteList(fl.Body.List)
			}
			return false
		}
		return true
	})
	l, hit := target(s)
	switch x := s.(type) {
	case *ast.GoStmt:
		g := goRewrite(x)
		var st ast.Stmt = x
		if g != nil {
			st = g
		}
		if hit {
			done[l] = true
			return []ast.Stmt{call("verifE3Pre", site(l)), st, call("verifE3Post", site(l))}
		}
		return []ast.Stmt{st}
	case *ast.DeferStmt:
		if hit {
			done[l] = true
			body := &ast.BlockStmt{List: []ast.Stmt{call("verifE3Pre", site(l)), &ast.ExprStmt{X: x.Call}, call("verifE3Post", site(l))}}
			return []ast.Stmt{&ast.DeferStmt{Call: &ast.CallExpr{Fun: &ast.FuncLit{Type: &ast.FuncType{Params: &ast.FieldList{}}, Body: body}}}}
		}
	case *ast.RangeStmt:
		if hit {
			done[l] = true
			// for k := range ch { body }  ->  for { pre; k, ok := <-ch; post; if !ok { break }; body }
			ok := ast.NewIdent("verifE3ok")
			var lhs []ast.Expr
			if x.Key != nil {
				lhs = []ast.Expr{x.Key, ok}
			} else {
				lhs = []ast.Expr{ast.NewIdent("_"), ok}
			}
			recv := &ast.AssignStmt{Lhs: lhs, Tok: token.DEFINE, Rhs: []ast.Expr{&ast.UnaryExpr{Op: token.ARROW, X: x.X}}}
			brk := &ast.IfStmt{Cond: &ast.UnaryExpr{Op: token.NOT, X: ok}, Body: &ast.BlockStmt{List: []ast.Stmt{&ast.BranchStmt{Tok: token.BREAK}}}}
			body := append([]ast.Stmt{call("verifE3Pre", site(l)), recv, call("verifE3Post", site(l)), brk}, x.Body.List...)
			return []ast.Stmt{&ast.ForStmt{Body: &ast.BlockStmt{List: body}}}
		}
	case *ast.SelectStmt:
		if hit {
			done[l] = true
			for _, c := range x.Body.List {
				cc := c.(*ast.CommClause)
				cc.Body = append([]ast.Stmt{call("verifE3Post", site(l))}, cc.Body...)
			}
			return []ast.Stmt{call("verifE3Pre", site(l)), x}
		}
	case *ast.IfStmt, *ast.ForStmt, *ast.SwitchStmt, *ast.TypeSwitchStmt, *ast.BlockStmt, *ast.LabeledStmt:
		// compound statement: a target line that is its header line can only be hooked before it
		if hit {
			done[l] = true
			return []ast.Stmt{call("verifE3Pre", site(l)), s, call("verifE3Post", site(l))}
		}
	case *ast.ReturnStmt, *ast.BranchStmt:
		if hit {
			done[l] = true
			return []ast.Stmt{call("verifE3Pre", site(l)), call("verifE3Post", site(l)), s}
		}
	default:
		if hit {
			done[l] = true
			return []ast.Stmt{call("verifE3Pre", site(l)), s, call("verifE3Post", site(l))}
		}
	}
	return []ast.Stmt{s}
}

func main() {
	file := flag.String("file", "", "")
	ls := flag.String("lines", "", "comma separated line numbers")
	out := flag.String("out", "", "")
	flag.Parse()
	base = filepath.Base(*file)
	for _, x := range strings.Split(*ls, ",") {
		if x == "" {
			continue
		}
		n, err := strconv.Atoi(x)
		if err != nil {
			fmt.Fprintln(os.Stderr, "e3instr: bad line", x)
			os.Exit(2)
		}
		lines[n] = true
	}
	f, err := parser.ParseFile(fset, *file, nil, parser.ParseComments)
	if err != nil {
		fmt.Fprintln(os.Stderr, "e3instr:", err)
		os.Exit(2)
	}
	for _, d := range f.Decls {
		if fd, ok := d.(*ast.FuncDecl); ok && fd.Body != nil {
			fd.Body.List = rewriteList(fd.Body.List)
		}
	}
	// comments are dropped on purpose (their positions would be wrong after the rewrite); build tags are kept
	var tags []string
	for _, cg := range f.Comments {
		if cg.End() < f.Package {
			for _, c := range cg.List {
				if strings.HasPrefix(c.Text, "//go:build") || strings.HasPrefix(c.Text, "// +build") {
					tags = append(tags, c.Text)
				}
			}
		}
	}
	f.Comments = nil
	f.Doc = nil
	for _, d := range f.Decls {
		switch x := d.(type) {
		case *ast.FuncDecl:
			x.Doc = nil
		case *ast.GenDecl:
			x.Doc = nil
		}
	}
	var sb strings.Builder
	for _, t := range tags {
		sb.WriteString(t + "\n")
	}
	if len(tags) > 0 {
		sb.WriteString("\n")
	}
	if err := printer.Fprint(&sb, token.NewFileSet(), f); err != nil {
		fmt.Fprintln(os.Stderr, "e3instr:", err)
		os.Exit(2)
	}
	if err := os.WriteFile(*out, []byte(sb.String()), 0o644); err != nil {
		fmt.Fprintln(os.Stderr, "e3instr:", err)
		os.Exit(2)
	}
	miss := []string{}
	for l := range lines {
		if !done[l] {
			miss = append(miss, strconv.Itoa(l))
		}
	}
	if len(miss) > 0 {
		fmt.Fprintln(os.Stderr, "e3instr: no statement starts at line(s)", strings.Join(miss, ","), "of", base)
		os.Exit(4)
	}
}
