#!/bin/sh
# run the thorough tier of the given properties one after the other (each under its own time limit) and log the outcome
for p in "$@"; do
  s=$(date +%s)
  VERIF_EVIDENCE_DIR=$PWD/_thorough_evidence timeout ${THOROUGH_LIMIT:-5400} ./check $p --tier thorough > thorough_$p.log 2>&1
  rc=$?
  echo "$p exit=$rc took $(( $(date +%s)-s ))s lemmas=$(grep -c ' lemma ' thorough_$p.log) viol=$(grep -c '^VIOLATION' thorough_$p.log) inconcl=$(grep -c '^INCONCLUSIVE' thorough_$p.log)"
done
