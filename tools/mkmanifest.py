#!/usr/bin/env python3
"""regenerate /verif/MANIFEST.json from the table below"""
import json, os
V = "/verif"
props = [json.loads(l)["id"] for l in open(V + "/properties.jsonl")]

E2 = "SMT-based bounded symbolic execution of the repository's Go code (go/ssa lowered on every run, z3), native replay of every counterexample"
E3 = "partial-order SMT encoding (one integer timestamp per event, Go channel/WaitGroup rules) over events extracted by symbolic execution of the real goroutine bodies (go/ssa, regenerated per run); schedule counterexamples forced natively"
E1 = "SMT-based symbolic execution of the compiled x86/AVX2/AVX-512 kernels lifted from the test binary on every run (z3), native replay"
TRUST = "trusted: z3, go/ssa (x/tools v0.29.0) and the executors (each sat is replayed natively; stubs/assumptions listed in the evidence)"

claimed = {
 "C07": ("E3", "§5.7, §10.6", "the asynchronous two-stage pipeline as a partial-order SMT problem over events extracted from the real SSA of findStructuralIndices (producer) and of the consumer closure with the real updateChar/peekSize: (a) no ring slot is refilled before the consumer's last read of its previous occupant, (b) k-th received = k-th sent, (c) every execution terminates for success, stage-1 failure at any buffer, stage-2 failure at any index (before/after the terminator), under every schedule; G2: for every message length up to the async threshold the synchronous path's buffers + terminator fit the channel",
          "<= 20 (quick) / 40 (thorough) index buffers; constants (16 slots, capacity, threshold, limit) read from the source on every run; stage-1 kernel and unifiedMachine enter as contracts (arbitrary lengths / may fail after any updateChar call; side conditions on the SSA checked per run); the producer loop uses a checked payload abstraction and loop-head widening (over-approximations); schedule counterexamples are forced natively through an instrumented overlay and one benign schedule is forced natively per run; trusted: z3, go/ssa, the encoders"),
 "C09": ("E3", "§5.9, §10.6", "ParseNDStream from its real closures (reader, forwarder, per-chunk worker) over an abstract reader (symbolic bytes, every fragmentation, fault at any offset): chunks partition the consumed prefix, every chunk ends after an LF or at EOF/fault, no blank-only chunk reaches the parser on a well-formed stream, results are forwarded in queue order for every completion order of the workers then the EOF/reader error then close, termination, no pooled buffer reused while referenced",
          "ASCII streams <= 8 (quick) / 9 (thorough) bytes with tmpSize scaled 10 MiB -> 4, <= 4 / 6 chunks for the ordering lemmas, GOMAXPROCS 1..16; bufio.Reader, bytes.TrimSpace (length only), sync.Pool (havoc mode in the data lemmas) and parseMessage enter as contracts (this is the weakest claim of the set: ~100 lines of real code inside four contracts); trusted: z3, go/ssa, the encoders"),
 "C01": ("E1+E2", "§5.1, §10.4", "stage 1 = REF-SCAN on a symbolic 64-byte block with arbitrary carry for both kernel families and the slice drivers (E1: A1-A7), parseNumber = RFC 8259 number DFA (P2), stage 2 = general reference parser on every layout of <= 3 structural tokens with symbolic bytes plus valid skeletons up to 11 tokens with each token free in turn (P3), the whole synchronous parseMessage incl. the Go stage-1 driver, multi-block messages and index-buffer hand-over (U1), the asynchronous branch under the sequential schedule (U1 async; other schedules by C07), the stage-1 driver alone on free layouts incl. the scanner-carry hand-over between kernel calls (U3), maximally nested documents (Deep), the string decoder verdict (E1: S1-S4)",
          "token/byte bounds as in evidence; escapes inside strings are decided by the E1 string lemmas (C04) and excluded from P3/U1; stage-1 kernel, number parser and string decoder enter P3/U1 as the contracts their own lemmas establish; composition over blocks by induction (argued); " + TRUST),
 "C05": ("E1+E2", "§5.5", "the memory-safety obligations of every assembly lemma (loads/stores inside caller-provided extents, index-buffer store bound), and the panic / bounds / unwinding / blocks-forever obligations of parseNumber, unifiedMachine and the whole synchronous parseMessage (channel empty on every exit) on all inputs within the bounds",
          "bounds as C01; the schedule lemmas of the asynchronous pipeline (Q1, G2 of C07) are run under this id too; traversal of deserialized tapes C19; resource exhaustion (recursion depth of Interface() on ~10^6 nested levels) is outside every bound; " + TRUST),
 "C08": ("E1+E2", "§5.8", "stage 1 with ndjson=1 (unquoted LF structural, quoted LF not: A5, A7), stage 2 and the whole parseMessage in ndjson mode against REF-ND (roots separated by newline runs, blank lines, bad line, two documents on a line) on all layouts within the bounds",
          "<= 3 tokens fully symbolic + ndjson skeletons up to 11 tokens; U1 incl. the async branch under the sequential schedule, U3 stage-1 driver in ndjson mode; " + TRUST),
 "C15": ("E2", "§5.15", "one parseMessage call from an arbitrary (havoc'd) prior state of every reusable field, one newInternalParsedJson adoption with arbitrary stale options, one Serialize/Deserialize with havoc'd Serializer and destination: outcome equals the reference that never sees the prior state; the representation invariant (index channel empty) is re-established on every exit, so the result holds for any history",
          "bounds of U1/Z1/Z4 (index limit scaled to 2 and 3: several index buffers pending at a stage-2 failure; destinations too small / full / with stale words beyond their length); asynchronous path: C07; allocator behaviour outside; " + TRUST),
 "C16": ("E2", "§5.16", "Clone (nil / zero / used destination) then interleaved Set* edits on both sides and wholesale overwrite of the original's buffers: each side keeps its own document (K1); every copy-mode tape lemma runs with an arbitrary Message (K2); this call's options decide string copying whatever the reused object held (U2); copy mode flags every string (P3)",
          "tapes <= 5/6 words for K1; ParseNDStream values: C09; " + TRUST),
 "C17": ("E2", "§5.17", "refWF (README tape format, strict NOP runs) asserted on every accepting path of unifiedMachine/parseMessage in both modes and on every Deserialize(Serialize(tape)) result",
          "bounds of P3/U1/Z1; the string mode that decides a string entry's buffer flag is the one this call's options select (U2); " + TRUST),
 "C18": ("E2", "§5.18, §10.7", "appendFloat = transcription of encoding/json's float encoder on every bit pattern (format switch, exponent clean-up, non-finite => error: FP theory); appendFloatF (bit decomposition, precision, fmtF) = strconv.AppendFloat 'f' executed from the toolchain's SSA for every digit count/decimal point, digit generator opaque on both sides; the glue of ryuFtoaShortest (shortcut, bounds, q, exactness, admissibility incl. mantissa parity, round-up hint, decimal exponent) = strconv's for every mantissa and exponent with the helpers uninterpreted (R1t)",
          "the Ryu helper functions (computeBounds, mulByLog*, divmod1e9, mult128bitPow10 for every table entry, divisibleByPower5) = strconv's on arbitrary arguments (R1f); R1t's counterexamples fix values of uninterpreted helpers and are reported from the encoding when the native run on the model's inputs does not differ; NOT decided: the digit loops ryuDigits/ryuDigits32 vs strconv's — a symbolic comparison ran out of reach (data-dependent loops x division), see DESIGN §10.7; shortest-round-trip itself is inherited from the Go standard library (trusted); " + TRUST),
 "C03": ("E2", "§5.3", "parseNumber (through addNumber) on fully symbolic buffers against the RFC 8259 number DFA and the int64/uint64/float+flag typing rule with exact 128-bit integer values; the read side (Int/Uint/Float/FloatFlags, As*) on every 64-bit payload",
          "buffers <= 10 (quick) / 24 (thorough) bytes fully symbolic, longer ones with a digit run in the middle; strconv.ParseInt/ParseUint/ParseFloat are contracts: correct rounding of ParseFloat is TRUSTED (Go standard library), the check covers which bytes are converted and how the result is typed and flagged; " + TRUST),
 "C04": ("E1", "§5.4", "the string decoder's machine code (_parse_string_validate_only, _parse_string) lifted from the freshly built test binary: one decoder iteration from an arbitrary cursor = REF-STR step (inductive over length/alignment), whole runs of 2 (quick) / 3 (thorough) iterations, copy = validate lengths, loads/stores inside the caller-provided extents; quote/backslash carry across 64-byte blocks (A1/A2, both kernel families)",
          "per-iteration windows of 44 symbolic bytes; runs <= 2/3 iterations; ill-formed surrogates are don't-cares; translator validation against native execution on every run; trusted: z3, llvm-objdump-14, the lifter"),
 "C06": ("E1", "§5.6", "pairwise equivalence of the AVX2 and AVX-512 stage-1 kernels on the same symbolic 64-byte block and carry-in state (inductive over blocks), and of the two slice drivers for 0-2 blocks and tails (quick: 6 tail lengths, thorough: all 64), incl. ndjson mode, error-mask hand-over and early exit",
          "one 64-byte block with arbitrary carry per subroutine; drivers <= 2 blocks + tail; rest of Parse is shared code; translator validation on every run; trusted: z3, llvm-objdump-14, the lifter"),
 "C11": ("E2", "§5.11", "Deserialize(Serialize(tape)) on every well-formed tape within the bound (NOP runs, strings in either buffer, equal/prefix-related/hash-colliding strings by the solver's choice): result well-formed (strict NOP runs) and read back identically by every traversal API incl. number tags and float flags; Serializer and destination fresh or with arbitrary havoc'd leftovers; noasm build: Deserialize SSA identical",
          "tapes <= 7/8 words general, <= 10 words string-heavy, two-root tapes <= 6+6 words; CompressNone arms only: S2/zstd are third-party code outside reach (contract dec(enc(x)) = x, TRUSTED); flush constants and string table scaled (stated in evidence); " + TRUST),
 "C19": ("E2", "§5.19", "Deserialize on framed blobs with symbolic tag bytes, value words, message bytes, version/size bytes and block types (consistent framing or one deviation: size off by one/word, odd value bytes, strings block, truncation at every byte), fresh or havoc'd Serializer/destination: no panic, no hang; every accepted result traversed and marshalled without panic and with progress",
          "<= 3/4 tags, <= 2/3 value words, message <= 2 bytes, declared tape <= 6 words; block types 1/2 (S2/zstd payloads) are third-party decoders outside reach (assumed: error or fill, never panic); " + TRUST),
 "C02": ("E2", "§5.2", "reader side: every traversal API (Advance, AdvanceIter, AdvanceInto/PeekNextTag, ForEach, NextElementBytes, Root, Array, Object, typed accessors) "
          "exposes exactly the abstract document of every well-formed tape within the size bound (all shapes, NOP runs, symbolic payloads/tags/string bytes)",
          "tapes <= 8 (quick) / 10 (thorough) words, nesting <= 3, strings 1 byte; unescaped string bytes = REF-STR by the E1 string lemmas S1-S4 (run under this id too); producer side (tape = refTape(document)) is covered by the stage-2 lemmas of C01/C17; " + TRUST),
 "C10": ("E2", "§5.10", "MarshalJSON (Iter from root and from inner element iterators, Array, Elements) = REF-RENDER(abstract document) byte for byte at chunk level on every well-formed tape within the bound; "
          "escapeBytes = per-byte JSON escaping and decodes back, for every source of <= 3/4 bytes; non-finite float => error",
          "tapes <= 8/10 words; number/string chunks opaque+injective in T6; float text = strconv's by C18's lemmas (R2, R1.formatF, R1f, R1t: run under this id too); nesting depth up to 140 (Deep); fixed point derived (see DESIGN §5.10); " + TRUST),
 "C12": ("E2", "§5.12", "numeric accessors on every 64-bit payload per number tag (FP theory); FindKey/FindPath/FindElement/filtered ForEach/Parse+Lookup/Interface/AsString(Cvt) against the abstract document on every well-formed tape within the bound",
          "tapes <= 8-11/9-13 words depending on harness; keys <= 1 byte, query keys <= 2 bytes, unique keys where the statement assumes them; " + TRUST),
 "C13": ("E2", "§5.13", "sequences of 1-2 (quick) / 1-3 (thorough) Set* calls with symbolic arguments on any value position of every well-formed tape within the bound: type gating, frame condition, refWF and all traversal APIs against the updated abstract document",
          "tapes <= 7/8 words for one call, <= 5/6 for two, <= 5 for three; marshal/serialize after edits by composition: T6/Z1 over every well-formed tape are run under this id too; " + TRUST),
 "C14": ("E2", "§5.14", "Array/Object.DeleteElems (every delete subset; callback/filter variants) and SetNull on containers, 1-2/1-3 successive edits, on every well-formed tape within the bound: callback order/once/own key, frame, refWF, all traversal APIs agree on the reduced document",
          "tapes <= 7/8 words for one edit, <= 5/6 for two, <= 5 for three (thorough); unique keys when a filter is used; lookup/marshal/serialize after deletion by composition: T3/T6/Z1 over every well-formed tape with arbitrary NOP-run patterns are run under this id too; " + TRUST),
}

na_default = "check not built yet (framework under construction; see DESIGN.md §9)"
na = {
 "C20": "quantifies over interleavings of whole API runs on N goroutines including klauspost/compress codecs behind sync.Pool and the Go runtime's race semantics: not encodable within reach of a bounded SMT query (DESIGN §5.20)",
}

checks = []
for p in props:
    if p in claimed and os.path.exists("%s/vsym/props/%s.py" % (V, p)):
        eng, ref, text, note = claimed[p]
        eng = eng.split("+")[0] if eng != "E1+E2" else "E1+E2"
        checks.append({
            "property_id": p, "quick_cmd": "./check %s --tier quick" % p, "thorough_cmd": "./check %s --tier thorough" % p,
            "evidence_file": "%s/evidence/%s.json" % (V, p), "replay_cmd_template": "python3-vt /verif/tools/replay.py {path}", "engine": eng,
            "level_claimed": {"category": "model_checking", "text": text, "design_ref": ref},
            "level_note": note, "technique": {"E1": E1, "E2": E2, "E3": E3}.get(eng, E1 + "; " + E2)})
m = {
 "version": 1,
 "setup_cmd": "cd /verif && GOFLAGS=-mod=mod GOPROXY=off GOSUMDB=off GOTOOLCHAIN=local go build -o bin/ssa2vir ./cmd/ssa2vir && GOFLAGS=-mod=mod GOPROXY=off GOSUMDB=off GOTOOLCHAIN=local go build -o bin/e3instr ./cmd/e3instr",
 "hooks": {"guard": "verif", "enable": "no source hooks in /repo: harness files under /verif/harness are injected with go/packages overlays (encoding) and `go test -overlay` (replay)",
           "baseline_off_cmd": "cd /repo && go test -mod=mod -json -vet=off -count=1 -timeout 25m ./...", "source_commits": [], "add_only": True},
 "engines": [
   {"name": "E2", "path": "/verif/vsym/e2", "serves_properties": sorted(p for p in claimed if "E2" in claimed[p][0]), "kind_free_text": "Go-SSA symbolic executor (python + z3) over a JSON IR lowered by cmd/ssa2vir from /repo's working tree"},
   {"name": "E3", "path": "/verif/vsym/e3", "serves_properties": sorted(p for p in claimed if claimed[p][0] == "E3"), "kind_free_text": "event extraction from the real SSA + partial-order SMT encoding of schedules (python + z3), cmd/e3instr for forced-schedule native replay"},
   {"name": "E1", "path": "/verif/vsym/e1", "serves_properties": sorted(p for p in claimed if "E1" in claimed[p][0]), "kind_free_text": "x86-64/AVX2/AVX-512 symbolic executor over the instructions objdump'ed from the freshly built test binary"}],
 "checks": checks,
 "not_applicable": [{"property_id": p, "reason": na.get(p, na_default)} for p in props if p not in [c["property_id"] for c in checks]],
 "notes": "see DESIGN.md; known findings and fixed defects: known_findings.jsonl; seeded mutations: seeded/",
}
json.dump(m, open(V + "/MANIFEST.json", "w"), indent=1)
print("claimed:", [c["property_id"] for c in checks])
