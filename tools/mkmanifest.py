#!/usr/bin/env python3
"""regenerate /verif/MANIFEST.json from the table below"""
import json, os
V = "/verif"
props = [json.loads(l)["id"] for l in open(V + "/properties.jsonl")]

E2 = "SMT-based bounded symbolic execution of the repository's Go code (go/ssa lowered on every run, z3), native replay of every counterexample"
E1 = "SMT-based symbolic execution of the compiled x86/AVX2/AVX-512 kernels lifted from the test binary on every run (z3), native replay"
TRUST = "trusted: z3, go/ssa (x/tools v0.29.0) and the executors (each sat is replayed natively; stubs/assumptions listed in the evidence)"

claimed = {
 "C02": ("E2", "§5.2", "reader side: every traversal API (Advance, AdvanceIter, AdvanceInto/PeekNextTag, ForEach, NextElementBytes, Root, Array, Object, typed accessors) "
          "exposes exactly the abstract document of every well-formed tape within the size bound (all shapes, NOP runs, symbolic payloads/tags/string bytes)",
          "tapes <= 8 (quick) / 10 (thorough) words, nesting <= 3, strings 1 byte; producer side (tape = refTape(document)) is covered by the stage-2 lemmas when built; " + TRUST),
 "C10": ("E2", "§5.10", "MarshalJSON (Iter from root and from inner element iterators, Array, Elements) = REF-RENDER(abstract document) byte for byte at chunk level on every well-formed tape within the bound; "
          "escapeBytes = per-byte JSON escaping and decodes back, for every source of <= 3/4 bytes; non-finite float => error",
          "tapes <= 8/10 words; number/string chunks opaque+injective in T6; fixed point derived (see DESIGN §5.10); " + TRUST),
 "C12": ("E2", "§5.12", "numeric accessors on every 64-bit payload per number tag (FP theory); FindKey/FindPath/FindElement/filtered ForEach/Parse+Lookup/Interface/AsString(Cvt) against the abstract document on every well-formed tape within the bound",
          "tapes <= 8-11/9-13 words depending on harness; keys <= 1 byte, query keys <= 2 bytes, unique keys where the statement assumes them; " + TRUST),
 "C13": ("E2", "§5.13", "sequences of 1-2 (quick) / 1-3 (thorough) Set* calls with symbolic arguments on any value position of every well-formed tape within the bound: type gating, frame condition, refWF and all traversal APIs against the updated abstract document",
          "tapes <= 7/8 words for one call, <= 5/6 for two, <= 5 for three; marshal/serialize after edits by composition with T6/Z1; " + TRUST),
 "C14": ("E2", "§5.14", "Array/Object.DeleteElems (every delete subset; callback/filter variants) and SetNull on containers, 1-2/1-3 successive edits, on every well-formed tape within the bound: callback order/once/own key, frame, refWF, all traversal APIs agree on the reduced document",
          "tapes <= 7/9 words for one edit, <= 5/7 for two; unique keys when a filter is used; " + TRUST),
}

na_default = "check not built yet (framework under construction; see DESIGN.md §9)"
na = {
 "C20": "quantifies over interleavings of whole API runs on N goroutines including klauspost/compress codecs behind sync.Pool and the Go runtime's race semantics: not encodable within reach of a bounded SMT query (DESIGN §5.20)",
}

checks = []
for p in props:
    if p in claimed and os.path.exists("%s/vsym/props/%s.py" % (V, p)):
        eng, ref, text, note = claimed[p]
        checks.append({
            "property_id": p, "quick_cmd": "./check %s --tier quick" % p, "thorough_cmd": "./check %s --tier thorough" % p,
            "evidence_file": "%s/evidence/%s.json" % (V, p), "replay_cmd_template": "cat {path}", "engine": eng,
            "level_claimed": {"category": "model_checking", "text": text, "design_ref": ref},
            "level_note": note, "technique": E1 if eng == "E1" else E2})
m = {
 "version": 1,
 "setup_cmd": "cd /verif && GOFLAGS=-mod=mod GOPROXY=off GOSUMDB=off GOTOOLCHAIN=local go build -o bin/ssa2vir ./cmd/ssa2vir",
 "hooks": {"guard": "verif", "enable": "no source hooks in /repo: harness files under /verif/harness are injected with go/packages overlays (encoding) and `go test -overlay` (replay)",
           "baseline_off_cmd": "cd /repo && go test -vet=off -count=1 -timeout 25m ./...", "source_commits": [], "add_only": True},
 "engines": [
   {"name": "E2", "path": "/verif/vsym/e2", "serves_properties": sorted(p for p in claimed if claimed[p][0] == "E2"), "kind_free_text": "Go-SSA symbolic executor (python + z3) over a JSON IR lowered by cmd/ssa2vir from /repo's working tree"},
   {"name": "E1", "path": "/verif/vsym/e1", "serves_properties": sorted(p for p in claimed if claimed[p][0] == "E1"), "kind_free_text": "x86-64/AVX2/AVX-512 symbolic executor over the instructions objdump'ed from the freshly built test binary"}],
 "checks": checks,
 "not_applicable": [{"property_id": p, "reason": na.get(p, na_default)} for p in props if p not in [c["property_id"] for c in checks]],
 "notes": "see DESIGN.md; known findings and fixed defects: known_findings.jsonl; seeded mutations: seeded/",
}
json.dump(m, open(V + "/MANIFEST.json", "w"), indent=1)
print("claimed:", [c["property_id"] for c in checks])
