#!/usr/bin/env python3
"""replay a counterexample file written by a check (replays/<prop>/*.json) natively against /repo's working tree"""
import json, sys
sys.path.insert(0, "/verif")
from vsym.e2 import run as e2run

w = json.load(open(sys.argv[1]))["witness"]
if "entry" not in w or "vec" not in w:
    print(json.dumps(w, indent=1)[:4000])
    print("(E1/E3 witness: see the lemma named above; the check re-derives and replays it on every run)")
    sys.exit(0)
if w.get("kind") == "ub" or w.get("abstract_witness"):
    print(json.dumps({k: w[k] for k in ("lemma", "kind", "msg", "abstract_witness") if k in w}, indent=1))
    print("(reported from the encoding: a contract precondition of an assembly routine broken by its Go caller, or a witness over uninterpreted "
          "helper functions; not observable in a native run — re-run the lemma with ./check <property> --only <lemma>)")
    sys.exit(0)
files = e2run.harness_files([f for f in w["files"] if f not in ("zz_verif_api.go", "zz_verif_f64.go")])
scaled = None
if w.get("scale"):
    prog, _ = e2run.lower(files, [w["entry"]], scale=w["scale"])      # same constant rewriting as in the encoding
    scaled = getattr(prog, "scaled_files", None)
v = {"entry": w["entry"], "replay": [(n, x) for n, x in zip(w.get("names", [None] * len(w["vec"])), w["vec"])], "kind": w["kind"], "msg": w.get("msg", "")}
patches = tuple(w.get("patches") or (("memhash",) if "zz_verif_ser.go" in w["files"] else ()))
ok, line = e2run.replay(files, v, patches=patches, scaled_files=scaled)
print(line)
print("reproduced" if ok else "NOT reproduced")
sys.exit(0 if ok else 1)
