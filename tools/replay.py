#!/usr/bin/env python3
"""replay a counterexample file written by a check (replays/<prop>/*.json) natively against /repo's working tree"""
import json, sys
sys.path.insert(0, "/verif")
from vsym.e2 import run as e2run

w = json.load(open(sys.argv[1]))["witness"]
if "entry" not in w or "vec" not in w:
    print(json.dumps(w, indent=1)[:4000])
    print("(E1/E3 witness: see the lemma named above; the check re-derives and replays it on every run)")
    sys.exit(0)
files = e2run.harness_files([f for f in w["files"] if f not in ("zz_verif_api.go", "zz_verif_f64.go")])
v = {"entry": w["entry"], "replay": [(n, x) for n, x in zip(w.get("names", [None] * len(w["vec"])), w["vec"])], "kind": w["kind"], "msg": w.get("msg", "")}
ok, line = e2run.replay(files, v, patches=("memhash",) if "zz_verif_ser.go" in w["files"] else ())
print(line)
print("reproduced" if ok else "NOT reproduced (constant scaling of the lemma is not applied by this tool)")
sys.exit(0 if ok else 1)
