#!/usr/bin/env python3
"""fill seeded/<id>/meta.json 'detected_by' from seeded/results.json and print the markdown table for DESIGN.md §10.8"""
import json, os, re
R = json.load(open("/verif/seeded/results.json"))
rows = []
for sd in sorted(os.listdir("/verif/seeded")):
    mp = "/verif/seeded/%s/meta.json" % sd
    if not os.path.exists(mp):
        continue
    m = json.load(open(mp))
    notes = open("/verif/seeded/%s/notes.md" % sd).read() if os.path.exists("/verif/seeded/%s/notes.md" % sd) else ""
    det = []
    for k, v in R.items():
        if not k.startswith(sd + ":"):
            continue
        prop = k.split(":")[1]
        first = k.endswith(":before-strengthening")
        mm = re.search(r"exit (\d+)", v["summary"])
        ex = int(mm.group(1)) if mm else -1
        lem = ""
        if v["detail"]:
            lem = v["detail"][0].split(":")[0].strip()
        det.append({"check": prop, "exit": ex, "lemma": lem, "wall_s": v["wall_s"], "first_run_before_strengthening": first})
    m["detected_by"] = det
    m["detected"] = any(d["exit"] == 1 and not d["first_run_before_strengthening"] for d in det)
    json.dump(m, open(mp, "w"), indent=1)
    rows.append((sd, m.get("breaks", []), det))
print("| seed | file(s) changed | check → outcome (lemma) |")
print("|---|---|---|")
for sd, br, det in rows:
    files = sorted(set(re.findall(r"^\+\+\+ b/(\S+)", open("/verif/seeded/%s/patch.diff" % sd).read(), re.M)))
    det.sort(key=lambda d: (d["check"], not d["first_run_before_strengthening"]))
    out = "; ".join("%s%s: %s%s" % (d["check"], " (first run, before the check was strengthened)" if d["first_run_before_strengthening"] else "",
                                    {1: "VIOLATION", 0: "missed" if d["first_run_before_strengthening"] else "**missed**", 2: "inconclusive (exit 2)"}.get(d["exit"], "?"),
                                    (" (" + d["lemma"] + ")") if d["lemma"] and d["exit"] == 1 else "") for d in det) or "not run yet"
    print("| %s | %s | %s |" % (sd, ", ".join(files), out))
