#!/usr/bin/env python3
"""seedbatch <out.json> <seed-id>[:PROP[,PROP]] ... : run stored seeds against checks sequentially, collect results"""
import json, os, subprocess, sys, time
out = sys.argv[1]
res = json.load(open(out)) if os.path.exists(out) else {}
for spec in sys.argv[2:]:
    seed, _, props = spec.partition(":")
    meta = json.load(open("/verif/seeded/%s/meta.json" % seed))
    for p in (props.split(",") if props else meta["breaks"]):
        key = "%s:%s" % (seed, p)
        if key in res:
            continue
        t0 = time.time()
        r = subprocess.run(["python3", "/verif/tools/seedtool.py", "run", seed, "quick", p], stdout=subprocess.PIPE, stderr=subprocess.STDOUT, text=True)
        lines = r.stdout.splitlines()
        ex = [l for l in lines if l.startswith(seed)]
        det = [l.strip() for l in lines if l.startswith("      ")][:3]
        res[key] = {"summary": ex[-1] if ex else "?", "detail": det, "wall_s": round(time.time() - t0)}
        json.dump(res, open(out, "w"), indent=1)
        print(key, res[key]["summary"], flush=True)
