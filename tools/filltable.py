#!/usr/bin/env python3
"""insert the output of seedreport.py between the SEEDTABLE markers of DESIGN.md"""
import re, subprocess
t = subprocess.run(["python3", "/verif/tools/seedreport.py"], stdout=subprocess.PIPE, text=True).stdout
p = "/verif/DESIGN.md"
s = open(p).read()
s = re.sub(r"<!-- SEEDTABLE-BEGIN -->.*?<!-- SEEDTABLE-END -->", "<!-- SEEDTABLE-BEGIN -->\n" + t + "<!-- SEEDTABLE-END -->", s, flags=re.S)
open(p, "w").write(s)
