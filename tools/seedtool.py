#!/usr/bin/env python3
"""seedtool confirm <prop>...   : confirm the seeded changes in /tmp/seed/<prop>/_seed against the current /repo HEAD in a
                                 scratch worktree, then store them as /verif/seeded/<prop>-<n>/
   seedtool run <seed-id> [tier]: apply a stored seed to /repo, run the checks of the properties it breaks, undo."""
import json, os, shutil, subprocess, sys, time
ENV = dict(os.environ, GOFLAGS="-mod=mod", GOPROXY="off", GOSUMDB="off", GOTOOLCHAIN="local")
BASE = "TestExcludeNewlineDelimitersWithinQuotes|TestFinalizeStructurals|TestFindNewlineDelimiters|TestFindOddBackslashSequences|TestFindQuoteMaskAndBits|TestFindStructuralBits|TestFindStructuralBitsLoop|TestFindStructuralBitsWhitespacePadding|TestFindWhitespaceAndStructurals|TestFlattenBitsIncremental|TestNdjsonCountWhere$"


def sh(cmd, cwd=None, timeout=900):
    r = subprocess.run(cmd, cwd=cwd, env=ENV, shell=isinstance(cmd, str), stdout=subprocess.PIPE, stderr=subprocess.STDOUT, text=True, timeout=timeout)
    return r.returncode, r.stdout


def confirm(prop, root="/tmp/seed", offset=0):
    src = "%s/%s/_seed" % (root, prop)
    for n in (1, 2):
        diff = os.path.join(src, "%d.diff" % n)
        demo = os.path.join(src, "zz_demo_%d_test.go" % n)
        if not (os.path.exists(diff) and os.path.exists(demo)):
            print(prop, n, "missing files"); continue
        wt = "/tmp/seedchk/%s-%d" % (prop, n)
        shutil.rmtree(wt, ignore_errors=True)
        sh("git -C /repo worktree prune")
        rc, out = sh("git -C /repo worktree add -q --detach %s HEAD" % wt)
        assert rc == 0, out
        try:
            shutil.copy(demo, wt)
            rc0, out0 = sh("go test -vet=off -count=1 -run 'TestDemo%d$' ." % n, cwd=wt)
            rc, out = sh("git apply --whitespace=nowarn %s" % diff, cwd=wt)
            if rc != 0:
                print(prop, n, "PATCH DOES NOT APPLY", out[-300:]); continue
            rcb, outb = sh("go build ./... ", cwd=wt)
            rc1, out1 = sh("go test -vet=off -count=1 -run '%s' ." % BASE, cwd=wt)
            rc2, out2 = sh("go test -vet=off -count=1 -run 'TestDemo%d$' ." % n, cwd=wt)
            ok = rc0 == 0 and rcb == 0 and rc1 == 0 and rc2 != 0
            print("%s-%d pristine-demo=%s build=%s baseline=%s mutated-demo=%s => %s" % (prop, n, rc0, rcb, rc1, rc2, "CONFIRMED" if ok else "REJECTED"))
            if not ok:
                print(out0[-300:], outb[-300:], out1[-300:], out2[-300:])
                continue
            dst = "/verif/seeded/%s-%d" % (prop, n + offset)
            os.makedirs(dst, exist_ok=True)
            shutil.copy(diff, os.path.join(dst, "patch.diff"))
            shutil.copy(demo, os.path.join(dst, "zz_demo_test.go"))
            notes = open(os.path.join(src, "notes.md")).read() if os.path.exists(os.path.join(src, "notes.md")) else ""
            meta = {"id": "%s-%d" % (prop, n + offset), "breaks": [prop], "round": (int(root.rstrip("/")[-1]) if root.rstrip("/")[-1].isdigit() else 2) if offset else 1, "source": "independent sub-agent given only the property text",
                    "needs": "see notes.md", "confirmed": {"against": sh("git -C /repo rev-parse --short HEAD")[1].strip(),
                    "pristine_demo_passes": True, "builds": True, "baseline_30_tests_pass": True, "mutated_demo_fails": True,
                    "demo_failure_tail": out2[-600:]},
                    "ran": ["git apply patch.diff", "go build ./...", "go test -run '<baseline regex>' .", "go test -run 'TestDemo%d$' ." % n],
                    "detected_by": None}
            json.dump(meta, open(os.path.join(dst, "meta.json"), "w"), indent=1)
            open(os.path.join(dst, "notes.md"), "w").write(notes)
        finally:
            sh("git -C /repo worktree remove --force %s" % wt)
    sh("git -C /repo worktree prune")


def run(seed, tier="quick", props=None, only=None):
    """apply the seed to a scratch COPY of /repo (VERIF_REPO points the checks at it), run the checks, remove the copy"""
    d = "/verif/seeded/" + seed
    meta = json.load(open(os.path.join(d, "meta.json")))
    wt = "/var/tmp/seedrun-%s-%d" % (seed, os.getpid())
    shutil.rmtree(wt, ignore_errors=True)
    rc, out = sh("rsync -a --exclude .git /repo/ %s/" % wt)
    assert rc == 0, out
    rc, out = sh("git apply --whitespace=nowarn %s/patch.diff" % d, cwd=wt)
    assert rc == 0, out
    res = {}
    env = dict(ENV, VERIF_REPO=wt, VERIF_EVIDENCE_DIR=wt + "/_evidence")
    try:
        for p in (props or meta["breaks"]):
            t0 = time.time()
            r = subprocess.run("./check %s --tier %s%s" % (p, tier, " --only " + only if only else ""), cwd="/verif", env=env, shell=True, stdout=subprocess.PIPE,
                               stderr=subprocess.STDOUT, text=True, timeout=14400)
            rc, out = r.returncode, r.stdout
            viol = [l for l in out.splitlines() if l.startswith("VIOLATION") or l.startswith("INCONCLUSIVE")]
            res[p] = {"exit": rc, "lines": viol[:6], "wall_s": round(time.time() - t0, 1)}
            print(seed, p, "exit", rc, "%.0fs" % (time.time() - t0)); [print("   ", l[:300]) for l in viol[:4]]
            det = [x for x in out.splitlines() if x.startswith("  ")][:3]
            [print("   ", l[:300]) for l in det]
    finally:
        shutil.rmtree(wt, ignore_errors=True)
    return res


if __name__ == "__main__":
    if sys.argv[1] == "confirm":
        for p in sys.argv[2:]:
            confirm(p)
    elif sys.argv[1] == "confirm2":
        for p in sys.argv[2:]:
            confirm(p, "/tmp/seed2", 2)
    elif sys.argv[1] == "confirmat":      # confirmat <root> <id offset> <prop>...
        for p in sys.argv[4:]:
            confirm(p, sys.argv[2], int(sys.argv[3]))
    elif sys.argv[1] == "run":
        run(sys.argv[2], sys.argv[3] if len(sys.argv) > 3 else "quick", sys.argv[4].split(",") if len(sys.argv) > 4 else None, sys.argv[5] if len(sys.argv) > 5 else None)
