#!/usr/bin/env python3
"""Self-test of the E2/E3 checks against single-edit mutations of DESIGN Appendix C (not a registered command).
Each mutation is applied to a scratch copy of /repo (VERIF_REPO), must still build, and the named check is run on it.
usage: selftest_e2.py [name ...]   -> writes /verif/seeded/selftest_results.json"""
import json, os, shutil, subprocess, sys, time

ENV = dict(os.environ, GOFLAGS="-mod=mod", GOPROXY="off", GOSUMDB="off", GOTOOLCHAIN="local")
M = [
    # name, file, old, new, check, --only prefix
    ("m19", "stage2_build_tape_amd64.go", "pj.annotate_previousloc(offset>>retAddressShift, pj.get_current_loc())\n\n\t/* goto saved_state*/",
     "pj.annotate_previousloc(offset>>retAddressShift, pj.get_current_loc()+1)\n\n\t/* goto saved_state*/", "C17", "P3.machine.K3"),
    ("m20", "stage2_build_tape_amd64.go", "switch offset & ((1 << retAddressShift) - 1) {", "switch offset & 1 {", "C01", "P3.skeleton"),
    ("m21", "stage2_build_tape_amd64.go", "if buf[idx] != '\\n' {\n\t\t\tgoto fail", "if buf[idx] == '\\n' {\n\t\t\tgoto fail", "C08", "P3.skeleton"),
    ("m22", "stage2_build_tape_amd64.go", "error := uint64(isNotStructuralOrWhitespace(buf[5]))", "error := uint64(isNotStructuralOrWhitespace(buf[4]))", "C01", "P3.machine.K3"),
    ("m25", "stage2_build_tape_amd64.go", "pj.write_tape(uint64(STRINGBUFBIT+start), '\"')", "pj.write_tape(uint64(start), '\"')", "C16", "P3.machine.K3"),
    ("m24", "stage2_build_tape_amd64.go", "requiredLen := uint64(len(strs)) + size + 32", "requiredLen := uint64(len(strs)) + size + 0", "C05", "S6"),
    ("m23", "stage2_build_tape_amd64.go", "if len(buf)-int(maxStringSize) < 64 {", "if len(buf)-int(maxStringSize) < 32 {", "C05", "S6"),
    ("m28", "parse_number.go", "const maxIntLen = 20", "const maxIntLen = 19", "C03", "P2.parseNumber.long"),
    ("m29", "parse_number.go", "\t\tif errors.Is(err, strconv.ErrRange) {\n\t\t\tfloatTag |= uint64(FloatOverflowedInteger)\n\t\t}\n\n\t\tif found&isMinusFlag == 0 {",
     "\t\tif found&isMinusFlag == 0 {", "C03", "P2.parseNumber.long.L21"),
    ("m30", "parse_number.go", "if len(buf) < i+2 || isNumberRune[buf[i+1]]&isDigitFlag == 0 {", "if len(buf) < i+1 || isNumberRune[buf[i+1]]&isDigitFlag == 0 {", "C03", "P2.parseNumber.L4"),
    ("m31", "parsed_json.go", "\t\t\tif i.cur <= 0 {\n\t\t\t\ti.moveToEnd()\n\t\t\t\treturn TagEnd\n\t\t\t}", "\t\t\tif i.cur < 0 {\n\t\t\t\ti.moveToEnd()\n\t\t\t\treturn TagEnd\n\t\t\t}", "C19", "Z2.tags1.vals1"),
    ("m32", "parsed_json.go", "i.addNext = int(i.cur) - i.off\n\t\t}\n\t}\n}", "i.addNext = int(i.cur) - i.off - 1\n\t\t}\n\t}\n}", "C02", "T1.Advance.T7"),
    ("m33", "parsed_json.go", "i.tape.Tape[j] = uint64(TagNop)<<JSONTAGOFFSET | (i.cur - uint64(j))", "i.tape.Tape[j] = uint64(TagNop)<<JSONTAGOFFSET | (i.cur - uint64(j) - 1)", "C13", "T4.Set.T5"),
    ("m34", "parsed_json.go", "i.cur = ((uint64(TagString) << JSONTAGOFFSET) | STRINGBUFBIT) | uint64(len(i.tape.Strings.B))", "i.cur = (uint64(TagString) << JSONTAGOFFSET) | uint64(len(i.tape.Strings.B))", "C13", "T4.Set.T6"),
    ("m35", "parsed_json.go", "for i := range shouldEscape[:0x20] {", "for i := range shouldEscape[:0x1f] {", "C10", "Eesc.len1"),
    ("m36", "parsed_json.go", "\t\t\tswitch i.t {\n\t\t\tcase TagObjectEnd:\n\t\t\tdefault:\n\t\t\t\tdst = append(dst, ',')\n\t\t\t}\n\t\t}\n\t}\n\tif len(stack) > 1 {",
     "\t\t\tdst = append(dst, ',')\n\t\t}\n\t}\n\tif len(stack) > 1 {", "C10", "T6.MarshalRoot.T7"),
    ("m39", "parsed_object.go", "skip := uint64(end - startO)", "skip := uint64(end - startO - 1)", "C14", "T5.Delete.T7"),
    ("m40", "parsed_object.go", "\t\tif int(length) != len(key) {\n\t\t\t// Skip the value.\n\t\t\tt := tmp.Advance()\n\t\t\tif t == TypeNone {\n\t\t\t\treturn nil\n\t\t\t}",
     "\t\tif int(length) < len(key) {\n\t\t\t// Skip the value.\n\t\t\tt := tmp.Advance()\n\t\t\tif t == TypeNone {\n\t\t\t\treturn nil\n\t\t\t}", "C12", "T3.FindKey"),
    ("m41", "parsed_serialize.go", "binary.LittleEndian.PutUint64(tmp[:], payload-uint64(off))", "binary.LittleEndian.PutUint64(tmp[:], payload-uint64(off)-1)", "C11", "Z1.RoundTrip.T5"),
    ("m42", "parsed_serialize.go", "\t\tif bytes.Equal(found, sb) {\n\t\t\treturn uint64(off)\n\t\t}", "\t\treturn uint64(off)", "C11", "Z1.RoundTrip.strings.T8"),
    ("m43", "parsed_serialize.go", "\tfor i := range s.stringsTable[:] {\n\t\ts.stringsTable[i] = 0\n\t}\n", "", "C11", "Z1.RoundTrip.strings.T8"),
    ("m44", "parsed_serialize.go", "if val > uint64(len(dst.Tape)) || val < uint64(off)+2 {\n\t\t\t\treturn dst, fmt.Errorf(\"%v extends beyond tape (%d). offset:%d\", tag, len(dst.Tape), val)\n\t\t\t}\n\n\t\t\tdst.Tape[off] = tagDst | val\n\t\t\t// Write closing",
     "if val > uint64(len(dst.Tape))+1 || val < uint64(off)+2 {\n\t\t\t\treturn dst, fmt.Errorf(\"%v extends beyond tape (%d). offset:%d\", tag, len(dst.Tape), val)\n\t\t\t}\n\n\t\t\tdst.Tape[off] = tagDst | val\n\t\t\t// Write closing", "C19", "Z2.tags1.vals1"),
    ("m45", "parsed_json.go", "\tcopy(dst.Tape, pj.Tape)\n", "", "C16", "K1.Clone.T4"),
    ("m17", "parse_json_amd64.go", "\tpj.indexesChan = indexChan{}\n", "", "C15", "U1.parseMessage.K2.json.havoc"),
    ("m18", "parse_json_amd64.go", "\tpj.containingScopeOffset = pj.containingScopeOffset[:0]\n", "", "C15", "U1.parseMessage.K2.json.havoc"),
    ("m10", "stage1_find_marks_amd64.go", "if uint64(len(buf))-processed <= 64 {", "if uint64(len(buf))-processed < 64 {", "C01", "U1.parseMessage.K3.json.fresh"),
    ("m12", "stage1_find_marks_amd64.go", "\t\t\tposition -= stripped_index\n", "", "C01", "U1.parseMessage.K3.json.fresh.limit2"),
    ("glue", "parse_string_amd64.go", "*needCopy = *needCopy || src_length != *dstLength", "*needCopy = *needCopy || src_length < *dstLength", "C04", "P3.escapes"),
]


def main():
    want = set(sys.argv[1:])
    outp = "/verif/seeded/selftest_results.json"
    res = json.load(open(outp)) if os.path.exists(outp) else {}
    for name, fn, old, new, check, only in M:
        if want and name not in want:
            continue
        wt = "/var/tmp/selftest-%s-%d" % (name, os.getpid())
        shutil.rmtree(wt, ignore_errors=True)
        subprocess.run(["rsync", "-a", "--exclude", ".git", "/repo/", wt + "/"], check=True)
        p = os.path.join(wt, fn)
        s = open(p).read()
        if s.count(old) != 1:
            res[name] = {"status": "pattern matched %d times" % s.count(old)}
            print(name, res[name]); shutil.rmtree(wt, ignore_errors=True); continue
        open(p, "w").write(s.replace(old, new))
        b = subprocess.run("go build ./... && go vet ./... >/dev/null 2>&1; go build ./...", cwd=wt, env=ENV, shell=True, stdout=subprocess.PIPE, stderr=subprocess.STDOUT, text=True)
        if b.returncode != 0:
            res[name] = {"status": "does not build", "out": b.stdout[-300:]}
            print(name, res[name]); shutil.rmtree(wt, ignore_errors=True); continue
        t0 = time.time()
        env = dict(ENV, VERIF_REPO=wt, VERIF_EVIDENCE_DIR=wt + "/_ev")
        r = subprocess.run("./check %s --tier quick --only %s" % (check, only), cwd="/verif", env=env, shell=True, stdout=subprocess.PIPE, stderr=subprocess.STDOUT, text=True)
        lines = r.stdout.splitlines()
        det = [l.strip() for l in lines if l.startswith("  ") and ":" in l][:2]
        res[name] = {"file": fn, "check": check, "only": only, "exit": r.returncode, "wall_s": round(time.time() - t0), "detail": [d[:220] for d in det],
                     "inconclusive": [l[:200] for l in lines if l.startswith("INCONCLUSIVE")][:2]}
        print(name, check, "exit", r.returncode, "%ds" % (time.time() - t0), det[:1])
        json.dump(res, open(outp, "w"), indent=1)
        shutil.rmtree(wt, ignore_errors=True)


if __name__ == "__main__":
    main()
