#!/usr/bin/env python3
"""seedprompt <root> <prop>... : create a scratch git worktree of /repo per property under <root>/<prop> and print the prompt for a
seeding sub-agent (the agent gets only the property text and its worktree; nothing from /verif)."""
import json, os, subprocess, sys
root = sys.argv[1]
props = {json.loads(l)["id"]: json.loads(l) for l in open("/verif/properties.jsonl")}
BASE = "TestExcludeNewlineDelimitersWithinQuotes|TestFinalizeStructurals|TestFindNewlineDelimiters|TestFindOddBackslashSequences|TestFindQuoteMaskAndBits|TestFindStructuralBits|TestFindStructuralBitsLoop|TestFindStructuralBitsWhitespacePadding|TestFindWhitespaceAndStructurals|TestFlattenBitsIncremental|TestNdjsonCountWhere$"
for pid in sys.argv[2:]:
    p = props[pid]
    wt = os.path.join(root, pid)
    if not os.path.exists(wt):
        subprocess.run(["git", "-C", "/repo", "worktree", "add", "-q", "--detach", wt, "HEAD"], check=True)
    os.makedirs(os.path.join(wt, "_seed"), exist_ok=True)
    avoid = ""
    if os.path.exists("/var/tmp/avoid.json"):
        av = json.load(open("/var/tmp/avoid.json")).get(pid, [])
        if av:
            avoid = "Earlier rounds already changed these places, so choose OTHER functions / mechanisms this time: " + " | ".join(av) + ".\n"
    prompt = f"""You are testing how robust a Go library is against subtle regressions. Work ONLY inside the git worktree {wt} (a checkout of the library minio/simdjson-go, package simdjson, at its current commit). Do not read or touch anything under /verif or /repo, and do not look at other directories under {root}. There is no network: always export GOFLAGS=-mod=mod GOPROXY=off GOSUMDB=off GOTOOLCHAIN=local before go commands. NEVER use `git stash` (the stash is shared between worktrees); to return to the pristine tree use `git diff > file` and `git checkout -- .`.

The library is supposed to satisfy this property:

TITLE: {p['title']}
STATEMENT: {p['statement']}
QUANTIFIED OVER: {p['quantifier']['text']}
CODE IT DEPENDS ON: {json.dumps(p['anchors'].get('files'))}; mechanisms: {json.dumps([m['name'] + ' @ ' + m['where'] for m in p['anchors'].get('mechanism', [])])}

Your task: produce TWO different, realistic, subtle source changes (the kind a maintainer could make by mistake during a refactor, an optimisation or a "simplification": an off-by-one, a dropped special case, a reordered check, a wrong constant, a stale variable, a condition that is almost equivalent), each of which
 (a) still compiles (`go build ./...`),
 (b) still passes the existing baseline tests: `go test -vet=off -count=1 -run '{BASE}' .` (the rest of the repository's test files do not run in this sandbox's baseline because one test needs the network; you may use them to learn the API),
 (c) BREAKS the property above for some input / history / schedule, ideally a rare one (a boundary size, a particular position, a particular sequence of calls) rather than every input, and
 (d) is different in kind from the obvious single-character mutation of the most central line; prefer changes in glue code, boundary handling, bookkeeping across buffers/blocks/calls, or rarely taken branches. The two changes must be independent of each other and touch different mechanisms.
{avoid}Do not change test files, do not add build tags, do not break compilation, and keep each change small (a few lines).

For each change n in (1, 2) write into {wt}/_seed/:
  n.diff              -- `git diff` of the change against the pristine tree (only library files, apply-able with `git apply` at the worktree root)
  zz_demo_n_test.go   -- a Go test file (package simdjson) with a function TestDemo<n> (exactly `TestDemo1` / `TestDemo2`) that PASSES on the pristine tree and FAILS with the change applied, demonstrating the property violation through the public or package-internal API (it is copied to the worktree root to run: `go test -vet=off -count=1 -run 'TestDemo<n>$' .`). The demo must not depend on the network or on files outside the repository and must finish within 2 minutes.
and one notes.md describing, per change: what was changed, what input/history/schedule is needed to see the violation, and the exact commands you ran with their results (pristine: demo passes; changed: build ok, baseline ok, demo fails).
Verify all of that yourself in both directions before finishing, then restore the worktree's tracked files to pristine (`git checkout -- .`), leaving only _seed/ untracked. If while doing this you find an input on which the PRISTINE tree already violates the property, describe it in notes.md too (with a test), but it does not count as one of the two changes. Report briefly what you produced."""
    open(os.path.join(root, pid + ".prompt.txt"), "w").write(prompt)
    print(pid, wt)
