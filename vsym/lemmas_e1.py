"""E1 lemmas (DESIGN §4): A1–A9 on the stage-1 kernels, S1–S4 on the string decoder.

Every function takes the CheckCtx, records itself with ctx.add_lemma and keeps the evidence counters up to date.
A `sat` is turned into concrete bytes, replayed against the real assembly through `go test -overlay`, and only then
reported (known finding / violation); a `sat` that does not replay is an engine error (Inconclusive)."""
import multiprocessing, os, re, time, traceback
import z3
from . import common
from .e1 import lift, x86, refs, harness as H, replay, tv
from .e1.x86 import BV, simp, fresh_state, set_args, get_result, bytes_of, join
from .e1.lift import Reg, Mem

Inconclusive = common.Inconclusive
M64 = 2 ** 64 - 1
FAMILIES = ("avx2", "avx512")

_PROG = None
_TV_DONE = set()


# ---------------------------------------------------------------------------------------------------------------
# session: lifted program, translator validation, parallel runner

def get_prog(ctx):
    global _PROG
    if _PROG is None:
        _PROG = lift.lift(log=ctx.log)
        ctx.extra["lifter"] = {"symbols": len(_PROG.funcs), "mnemonics": _PROG.mnemonics(),
                               "instructions": sum(1 for i in _PROG.instrs.values() if i.mnem != "int3"),
                               "build_s": round(_PROG.build_s, 2)}
    return _PROG


def ensure_tv(ctx, ops, pool=None):
    ops = [o for o in ops if o not in _TV_DONE]
    if not ops:
        return
    prog = get_prog(ctx)
    tv._PROG = prog
    if pool is None and not multiprocessing.current_process().daemon:
        with multiprocessing.get_context("fork").Pool(min(16, os.cpu_count() or 1)) as p2:
            tv.validate(ctx, prog, ops, pool=p2)
    else:
        tv.validate(ctx, prog, ops, pool=pool)
    _TV_DONE.update(ops)


class SubCtx(common.CheckCtx):
    """context used inside a worker process: reports are queued and re-issued by the parent"""

    def __init__(self, prop, tier, seed, only=None):
        super().__init__(prop, tier, seed)
        self.pending = []
        self.only = only

    def add_lemma(self, name, verdict, **kw):
        d = {"name": name, "verdict": verdict}
        d.update(kw)
        self.lemmas.append(d)          # printed by the parent when merged

    def report_violation(self, what, witness):
        self.pending.append(("violation", what, witness))

    def report_known(self, k):
        self.pending.append(("known", k, None))

    def report_inconclusive(self, what):
        self.pending.append(("inconclusive", what, None))


def _job(args):
    prop, tier, seed, fname, fargs = args
    sub = SubCtx(prop, tier, seed)
    t0 = time.time()
    try:
        globals()[fname](sub, *fargs)
    except Inconclusive as e:
        sub.report_inconclusive("%s%s: %s" % (fname, fargs, e))
    except Exception:
        sub.report_inconclusive("%s%s: engine error: %s" % (fname, fargs, traceback.format_exc()[-1500:]))
    return {"lemmas": sub.lemmas, "functions": sub.functions, "assumptions": sub.assumptions, "stubs": sorted(sub.stubs),
            "bounds": sub.bounds, "samples": sub.samples, "pending": sub.pending, "queries": sub.queries,
            "nontrivial": sub.nontrivial, "solver_s": sub.solver_s, "states": sub.states, "transitions": sub.transitions,
            "replays": sub.replays, "vacuity": sub.vacuity, "extra": sub.extra, "wall": time.time() - t0,
            "job": "%s%s" % (fname, fargs)}


def merge(ctx, d):
    ctx.lemmas.extend(d["lemmas"])
    for l in d["lemmas"]:
        ctx.log("lemma %-30s %s %s" % (l["name"], l["verdict"], " ".join("%s=%s" % (k, v) for k, v in l.items()
                                                                        if k in ("paths", "queries", "solver_s", "bound", "wall_s"))))
    ctx.functions.update(d["functions"])
    for a in d["assumptions"]:
        ctx.assume(a)
    ctx.stubs.update(d["stubs"])
    ctx.bounds.update(d["bounds"])
    for s in d["samples"]:
        ctx.sample(s)
    ctx.queries += d["queries"]
    ctx.nontrivial += d["nontrivial"]
    ctx.solver_s += d["solver_s"]
    ctx.states += d["states"]
    ctx.transitions += d["transitions"]
    ctx.replays += d["replays"]
    ctx.vacuity.update(d["vacuity"])
    for k, v in d["extra"].items():
        if k == "lemma_samples":
            ctx.extra.setdefault(k, []).extend(v)
        else:
            ctx.extra.setdefault(k, v)
    for kind, a, b in d["pending"]:
        if kind == "violation":
            ctx.report_violation(a, b)
        elif kind == "known":
            ctx.report_known(a)
        else:
            ctx.report_inconclusive(a)


def run_parallel(ctx, jobs, tv_ops, procs=None):
    """jobs: list of (function name in this module, args tuple).  Lifts once, validates the translator, then runs the
    lemmas in worker processes (fork: the lifted program is inherited) and merges their evidence into ctx."""
    tv._PROG = get_prog(ctx)          # before the fork: workers inherit the lifted program
    procs = procs or min(16, os.cpu_count() or 1)
    mp = multiprocessing.get_context("fork")
    if [o for o in tv_ops if o not in _TV_DONE]:
        with mp.Pool(procs) as pool:
            ensure_tv(ctx, tv_ops, pool=pool)
    # forked after the validation so that the workers inherit "translator validated" as well
    with mp.Pool(procs) as pool:
        args = [(ctx.prop, ctx.tier, ctx.seed, f, a) for f, a in jobs]
        for d in pool.imap_unordered(_job, args, chunksize=1):
            merge(ctx, d)


# ---------------------------------------------------------------------------------------------------------------
# lemma scaffolding

TV_OPS_FOR = {"A1": ["oe"], "A2": ["qm"], "A3": ["ws"], "A4": ["fin", "block"], "A5": ["nl"], "A6": ["flat"], "A9": ["block"]}


class LemmaRun:
    def __init__(self, ctx, name, bound=None):
        self.ctx, self.name, self.bound = ctx, name, bound
        self.prog = get_prog(ctx)
        if not os.environ.get("VERIF_SKIP_TV"):
            # no verdict without a validated translator (DESIGN §3.1); a no-op when run_parallel has done it already
            ensure_tv(ctx, TV_OPS_FOR.get(name[:2], tv.STRING_OPS if name.startswith("S") else tv.STAGE1_OPS))
        self.ex = x86.Executor(self.prog, timeout_ms=60000 if ctx.tier == "quick" else 600000)
        self.paths = 0
        self.t0 = time.time()
        self.verdict = "unsat"
        self.notes = []
        self.reached = 0
        self.obl = 0
        self.nbounds = 0
        self.bounds_verdict = "unsat"
        self.bounds_samples = []
        self.sampled = False

    def refute(self, st, claim, extra=()):
        """returns a model of path ∧ extra ∧ ¬claim, or None when the claim holds on this path"""
        self.obl += 1
        c = simp(claim)
        if not self.sampled:
            self.sampled = True
            smp = {"lemma": self.name, "bound": self.bound, "obligation": "path condition ∧ ¬claim must be unsat",
                   "path_conjuncts": len(st.path), "exit": st.exit, "instructions_on_path": st.steps,
                   "claim_excerpt": str(c)[:300]}
            self.ctx.sample(smp)
            # CheckCtx.sample keeps the first 12 only: the complete per-lemma list goes here
            self.ctx.extra.setdefault("lemma_samples", []).append(smp)
        if z3.is_true(c):
            self.ex.queries += 1
            return None
        r, m = self.ex.check(list(st.path) + list(extra) + [z3.Not(c)], nontrivial=True)
        return m

    def reach(self, st, site, extra=()):
        r, m = self.ex.check(list(st.path) + list(extra))
        if r == "sat":
            self.reached += 1
            self.ctx.vacuity["%s:%s" % (self.name, site)] = "reachable"
            return m
        return None

    def bounds(self, st, extra=(), skip=None):
        """memory-safety obligations collected on this path: returns (obligation, model) of the first that fails"""
        for o in st.obligations:
            if skip and o.kind in skip:
                continue
            self.obl += 1
            self.nbounds += 1
            if len(self.bounds_samples) < 2:
                self.bounds_samples.append({"lemma": self.name + ".bounds", "obligation": o.what, "at": hex(o.pc) if o.pc else None,
                                            "condition_excerpt": str(o.cond)[:200]})
            r, m = self.ex.check(list(o.path) + list(extra) + [z3.Not(o.cond)], nontrivial=True)
            if r == "sat":
                return o, m
        return None, None

    def finish(self, verdict=None, **kw):
        ctx, ex = self.ctx, self.ex
        verdict = verdict or self.verdict
        if self.reached == 0 and verdict in ("unsat", "holds"):
            raise Inconclusive("%s: vacuous - no assertion site was reachable" % self.name)
        for f in sorted(ex.funcs_used):
            src = self.prog.src_of.get(f)
            ctx.functions[f] = {"instrs": len(self.prog.func_instrs(f)), "file": src,
                                "src_hash": common.file_sha(os.path.join(common.REPO, src)) if src else None}
        ctx.queries += ex.queries
        ctx.nontrivial += ex.nontrivial
        ctx.solver_s += ex.solver_s
        ctx.states += ex.states
        ctx.transitions += ex.transitions
        ctx.stubs.add("runtime.morestack: unreachable (stack-split prologue recognised and skipped)")
        if self.bound:
            ctx.bounds[self.name] = self.bound
        ctx.add_lemma(self.name, verdict, paths=self.paths, queries=ex.queries, solver_s=round(ex.solver_s, 2),
                      bound=self.bound, obligations=self.obl, wall_s=round(time.time() - self.t0, 1),
                      note="; ".join(self.notes) if self.notes else None, **kw)
        # memory-safety side of the lemma as its own entry (C05 collects these): every load/store of the executed paths
        # lies inside the extents the Go callers provide; accesses at concrete in-range offsets are closed by evaluation
        ctx.add_lemma(self.name + ".bounds", self.bounds_verdict, paths=self.paths, obligations=self.nbounds,
                      bound="all loads/stores on the paths of %s inside the declared region extents; %d symbolic-offset/"
                            "precondition obligations needed the solver, the rest are concrete offsets checked on the fly" % (self.name, self.nbounds))
        for b in self.bounds_samples:
            ctx.sample(b)
        if not self.sampled:
            ctx.sample({"lemma": self.name, "bound": self.bound, "obligation": "see lemma entry"})
        return verdict

    def counterexample(self, what, witness, replay_fn):
        """replays; returns True if reproduced (then reported as violation / known finding by the caller)"""
        self.ctx.replays += 1
        ok, detail = replay_fn(witness)
        self.ctx.log("[replay] %s: %s (%s)" % (self.name, "reproduced" if ok else "NOT reproduced", detail))
        if not ok:
            raise Inconclusive("%s: counterexample does not reproduce on the real code (engine error or register-level "
                               "contract not reachable through the Go wrapper): %s; witness=%s; %s" % (self.name, what, witness, detail))
        witness = dict(witness)
        witness["native"] = detail
        self.ctx.sample({"lemma": self.name, "counterexample": what, "witness": witness})
        return witness

    def violation(self, what, witness, replay_fn):
        w = self.counterexample(what, witness, replay_fn)
        self.ctx.report_violation("%s: %s" % (self.name, what), w)
        self.verdict = "sat"

    def try_violation(self, what, witness, replay_fn):
        """like violation(), but a counterexample that does not reproduce is not an error yet (the caller escalates)"""
        self.ctx.replays += 1
        ok, detail = replay_fn(witness)
        self.ctx.log("[replay] %s: %s (%s)" % (self.name, "reproduced" if ok else "NOT reproduced", detail))
        if not ok:
            self.notes.append("not reproducible through the single-subroutine wrapper: %s" % detail[:200])
            return False
        witness = dict(witness)
        witness["native"] = detail
        self.ctx.sample({"lemma": self.name, "counterexample": what, "witness": witness})
        self.ctx.report_violation("%s: %s" % (self.name, what), witness)
        self.verdict = "sat"
        return True

    def bounds_violation(self, what, witness, replay_fn=None):
        """a memory-safety obligation fails: replayed where an effect is observable (guard zone behind the index buffer)"""
        self.bounds_verdict = "sat"
        if replay_fn is not None:
            witness = self.counterexample(what, witness, replay_fn)
        else:
            witness = dict(witness)
            witness["note"] = "an access outside the extent the Go callers guarantee; not observable as a functional difference, not replayed"
            self.ctx.sample({"lemma": self.name + ".bounds", "counterexample": what, "witness": witness})
        self.ctx.report_violation("%s.bounds: %s" % (self.name, what), witness)
        self.verdict = "sat"


def known_for(ctx, lemma):
    out = []
    for k in ctx.known:
        if k.get("status") == "finding" and (k.get("lemma") in (None, lemma) or lemma in (k.get("lemmas") or [])):
            out.append(k)
    return out


def mval(m, t):
    return H.eval_model(m, t)


def block_of(m, B):
    return bytes(mval(m, b) for b in B)


def go_consts():
    return tv.go_consts()


# ---- concrete reference evaluation (expectation for replays) --------------------------------------------------------

def _cb(buf):
    return [BV(b, 8) for b in buf[:64]]


def flat_py(mask, index, carried, position):
    deltas = []
    prev = None
    for p in range(64):
        if (mask >> p) & 1:
            deltas.append(((p + 1 + carried) if prev is None else (p - prev)) & 0xFFFFFFFF)
            position = (position + ((p + 1 + carried) if prev is None else (p - prev))) & M64
            prev = p
    carried = (carried + 64) & M64 if prev is None else 63 - prev
    return index + len(deltas), carried, position, deltas


def ref_native(q, limit=1408):
    """reference expectation for a replay request, in the shape replay.native returns"""
    op, fam, buf, a = q["op"], q.get("fam", "avx2"), bytes(q.get("buf", b"")), q.get("a", [])
    c = H.cval64
    T, F = z3.BoolVal(True), z3.BoolVal(False)
    bb = lambda v: T if v else F
    if op == "oe":
        m, e = refs.OE(_cb(buf), bb(a[0]))
        return {"r": [c(m), c(refs.b2m(e))]}
    if op == "qm":
        qb, qm, err, inq = refs.QUOTE(_cb(buf), BV(a[0], 64), bb(a[1]))
        e0 = 0 if fam == "avx512" else a[2]
        return {"r": [c(qm), c(qb), c(refs.b2all(inq)), c(err) | e0]}
    if op == "ws":
        ws, st = refs.WSST(_cb(buf))
        return {"r": [c(ws), c(st)]}
    if op == "fin":
        out, pp = refs.FIN(BV(a[0], 64), BV(a[1], 64), BV(a[2], 64), BV(a[3], 64), bb(a[4]))
        return {"r": [c(out), c(refs.b2m(pp))]}
    if op == "nl":
        return {"r": [c(refs.NL(_cb(buf), BV(a[0], 64)))]}
    if op == "flat":
        i, car, pos, d = flat_py(a[1], a[0], a[2], a[3])
        return {"r": [i, car, pos], "idx": d}
    if op == "block":
        s = refs.SCAN(_cb(buf), bb(a[0]), bb(a[1]), bb(a[3]), F)
        return {"r": [c(s["out"]), c(refs.b2m(s["esc"])), c(refs.b2all(s["inq"])), c(s["err"]) | a[2], c(refs.b2m(s["pp"]))]}
    if op == "slice":
        n, esc, inq, em, pp, idx, car, pos, nd = a
        i0 = idx
        processed = 0
        deltas = []
        k = 0
        while processed < n:
            chunk = buf[processed:processed + 64] if n - processed >= 64 else buf[processed:n] + b" " * (64 - (n - processed))
            s = refs.SCAN(_cb(chunk), bb(esc), bb(inq != 0), bb(pp), bb(nd != 0))
            esc, inq, pp, em = c(refs.b2m(s["esc"])), c(refs.b2all(s["inq"])), c(refs.b2m(s["pp"])), em | c(s["err"])
            idx, car, pos, d = flat_py(c(s["out"]), idx, car, pos)
            deltas += d
            processed = min(n, processed + 64)
            sidx = idx - (1 << 64) if idx >= (1 << 63) else idx
            if sidx >= limit:
                break
        return {"r": [processed, esc, inq, em, pp, idx, car, pos], "idx": deltas}
    raise Inconclusive("no concrete reference for op %s" % op)


def replay_vs_ref(q, fields=None, limit=1408):
    """native(q) vs the reference: reproduced iff they differ"""
    n = replay.native([q])[0]
    r = ref_native(q, limit)
    nr, rr = list(n["r"]), list(r["r"])
    if fields is not None:
        nr, rr = [nr[i] for i in fields], [rr[i] for i in fields]
    differ = nr != rr or ("idx" in r and list(n["idx"]) != list(r["idx"]))
    return differ, "native r=%s idx=%s; reference r=%s idx=%s" % ([hex(x) for x in n["r"]], n["idx"][:6], [hex(x) for x in r["r"]], r.get("idx", [])[:6])


def replay_pair(q, fields=None):
    """avx2 vs avx512 natively on the same request: reproduced iff they differ"""
    q2, q5 = dict(q, fam="avx2"), dict(q, fam="avx512")
    n2, n5 = replay.native([q2, q5])
    a, b = list(n2["r"]), list(n5["r"])
    if fields is not None:
        a, b = [a[i] for i in fields], [b[i] for i in fields]
    differ = a != b or list(n2["idx"]) != list(n5["idx"])
    return differ, "avx2 r=%s idx=%s; avx512 r=%s idx=%s" % ([hex(x) for x in n2["r"]], n2["idx"][:6], [hex(x) for x in n5["r"]], n5["idx"][:6])


# ---------------------------------------------------------------------------------------------------------------
# per-subroutine set-up shared by A1–A5 and A8

class SubRun:
    """one execution of a stage-1 subroutine of family `fam` from a state with the given symbolic inputs"""

    def __init__(self, L, fam, base, inputs):
        self.L, self.fam, self.base = L, fam, base
        self.name = H.sub_name(base, fam)
        ex = L.ex
        st = fresh_state()
        if fam == "avx512":
            st = H.run_inits(ex, st)
        H.havoc_gprs(st, base[2:6] + fam)
        H.havoc_scratch_vec(st, base[2:6] + fam, keep=H.CONST512 if fam == "avx512" else ())
        self.setup(st, inputs)
        self.init = dict(st.regs)
        self.init_cells = {r.name: r for r in st.regions.values()}
        fin = H.call_sub(ex, st, self.name)
        if len(fin) != 1 or fin[0].exit != "ret":
            raise Inconclusive("%s: expected one straight-line path, got %d" % (self.name, len(fin)))
        self.st = fin[0]
        L.paths += 1

    def ptr(self, st, reg, cellname, value=None):
        st.regs[reg] = BV(st.cell(cellname, value), 64)

    def setup(self, st, I):
        fam, b = self.fam, self.base
        x5 = fam == "avx512"
        if "B" in I:
            H.set_block(st, fam, I["B"])
        if b == "__find_odd_backslash_sequences":
            self.ptr(st, "rdx", "esc", refs.b2m(I["esc0"]))
        elif b == "__find_quote_mask_and_bits":
            st.regs["rdx"] = I["oe"]
            self.ptr(st, "rcx", "inq", refs.b2all(I["inq0"]))
            if x5:
                st.regs["k4"] = I["E"]
            else:
                self.ptr(st, "r8", "qb", z3.BitVec("qb_init", 64))
                self.ptr(st, "r9", "em", I["E"])
        elif b == "__find_whitespace_and_structurals":
            if not x5:
                self.ptr(st, "rdx", "ws", z3.BitVec("ws_init", 64))
                self.ptr(st, "rcx", "st", z3.BitVec("st_init", 64))
        elif b == "__finalize_structurals":
            if x5:
                st.regs["k5"], st.regs["k7"], st.regs["k6"] = I["ST"], I["WS"], I["QB"]
            else:
                st.regs["rdi"], st.regs["rsi"], st.regs["rcx"] = I["ST"], I["WS"], I["QB"]
            st.regs["rdx"] = I["QM"]
            self.ptr(st, "r8", "pp", refs.b2m(I["pp0"]))
        elif b == "__find_newline_delimiters":
            st.regs["rdx"] = I["QM"]

    def outputs(self):
        """dict of named output terms in a family-independent vocabulary"""
        st, b, x5 = self.st, self.base, self.fam == "avx512"
        if b == "__find_odd_backslash_sequences":
            return {"OE": st.regs["rax"], "esc'": st.read_cell("esc")}
        if b == "__find_quote_mask_and_bits":
            if x5:
                return {"QM": st.regs["rax"], "QB": st.regs["k6"], "error_mask'": st.regs["k4"], "inq'": st.read_cell("inq")}
            return {"QM": st.regs["rax"], "QB": st.read_cell("qb"), "error_mask'": st.read_cell("em"), "inq'": st.read_cell("inq")}
        if b == "__find_whitespace_and_structurals":
            if x5:
                return {"WS": st.regs["k7"], "ST": st.regs["k5"]}
            return {"WS": st.read_cell("ws"), "ST": st.read_cell("st")}
        if b == "__finalize_structurals":
            return {"out": st.regs["rax"], "pp'": st.read_cell("pp")}
        if b == "__find_newline_delimiters":
            return {"NL": st.regs["rbx"]}
        raise KeyError(b)

    def frame(self):
        """contract: nothing outside out/clobber/cells is modified; returns list of problems"""
        L, st = self.L, self.st
        bad = H.frame_check(L.ex, st, self.init, self.name, prove=lambda c: L.refute(st, c) is None)
        if not (z3.is_bv_value(st.regs["rsp"]) and st.regs["rsp"].as_long() == st.entry_rsp):
            bad.append("%s does not restore rsp" % self.name)
        stack = st.region("stack")
        top = st.entry_rsp - stack.base
        if any(o >= top for o in stack.written):
            bad.append("%s writes into its caller's stack frame" % self.name)
        return bad


def sub_inputs(base):
    B = refs.block_bytes()
    if base == "__find_odd_backslash_sequences":
        return {"B": B, "esc0": z3.Bool("esc0")}
    if base == "__find_quote_mask_and_bits":
        return {"B": B, "oe": z3.BitVec("odd_ends", 64), "inq0": z3.Bool("inq0"), "E": z3.BitVec("error_mask0", 64)}
    if base == "__find_whitespace_and_structurals":
        return {"B": B}
    if base == "__finalize_structurals":
        return {"ST": z3.BitVec("ST", 64), "WS": z3.BitVec("WS", 64), "QM": z3.BitVec("QM", 64), "QB": z3.BitVec("QB", 64), "pp0": z3.Bool("pp0")}
    if base == "__find_newline_delimiters":
        return {"B": B, "QM": z3.BitVec("QM", 64)}
    raise KeyError(base)


def sub_reference(base, I):
    if base == "__find_odd_backslash_sequences":
        m, e = refs.OE(I["B"], I["esc0"])
        return {"OE": m, "esc'": refs.b2m(e)}
    if base == "__find_quote_mask_and_bits":
        qb, qm, err, inq = refs.QUOTE(I["B"], I["oe"], I["inq0"])
        return {"QM": qm, "QB": qb, "error_mask'": I["E"] | err, "inq'": refs.b2all(inq)}
    if base == "__find_whitespace_and_structurals":
        ws, st = refs.WSST(I["B"])
        return {"WS": ws, "ST": st}
    if base == "__finalize_structurals":
        out, pp = refs.FIN(I["ST"], I["WS"], I["QM"], I["QB"], I["pp0"])
        return {"out": out, "pp'": refs.b2m(pp)}
    if base == "__find_newline_delimiters":
        return {"NL": refs.NL(I["B"], I["QM"])}
    raise KeyError(base)


def sub_request(base, fam, I, m):
    """replay request (through the Go wrapper of the subroutine) for a model"""
    g = lambda t: mval(m, t)
    if base == "__find_odd_backslash_sequences":
        return {"op": "oe", "fam": fam, "buf": block_of(m, I["B"]), "a": [g(I["esc0"])]}, None
    if base == "__find_quote_mask_and_bits":
        # avx512 wrapper zeroes K4 itself: error_mask0 is not an input there
        return {"op": "qm", "fam": fam, "buf": block_of(m, I["B"]), "a": [g(I["oe"]), M64 if g(I["inq0"]) else 0,
                                                                         0 if fam == "avx512" else g(I["E"])]}, None
    if base == "__find_whitespace_and_structurals":
        return {"op": "ws", "fam": fam, "buf": block_of(m, I["B"]), "a": []}, None
    if base == "__finalize_structurals":
        return {"op": "fin", "fam": "avx2", "buf": b"", "a": [g(I["ST"]), g(I["WS"]), g(I["QM"]), g(I["QB"]), g(I["pp0"])]}, None
    if base == "__find_newline_delimiters":
        return {"op": "nl", "fam": fam, "buf": block_of(m, I["B"]), "a": [g(I["QM"])]}, None
    raise KeyError(base)


SUB_ASSUME = {
    "__find_odd_backslash_sequences": "prev_iter_ends_odd_backslash ∈ {0,1} on entry (initial value 0; re-established by A1's own post-condition)",
    "__find_quote_mask_and_bits": "prev_iter_inside_quote ∈ {0,~0} on entry (initial value 0; re-established by A2's post-condition); odd_ends abstract",
    "__finalize_structurals": "prev_iter_ends_pseudo_pred ∈ {0,1} on entry (initial value 1; re-established by A4's post-condition)",
}


def realizable_block_constraints(I):
    """for finalize (abstract masks): tie the masks to an actual block so that a counterexample can be replayed
    through find_structural_bits"""
    B = refs.block_bytes("rb")
    esc0, inq0 = z3.Bool("r_esc0"), z3.Bool("r_inq0")
    oe, _ = refs.OE(B, esc0)
    qb, qm, err, inq = refs.QUOTE(B, oe, inq0)
    ws, st = refs.WSST(B)
    return B, esc0, inq0, [I["ST"] == st, I["WS"] == ws, I["QM"] == qm, I["QB"] == qb]


def _sub_lemma(ctx, lname, base, fam):
    """kernel subroutine == reference on arbitrary inputs + register contract + memory safety"""
    L = LemmaRun(ctx, "%s(%s)" % (lname, fam), bound="one 64-byte block, all 2^512 contents, any carry-in")
    I = sub_inputs(base)
    run = SubRun(L, fam, base, I)
    st = run.st
    if base in SUB_ASSUME:
        ctx.assume("%s: %s" % (lname, SUB_ASSUME[base]))
    ctx.assume("pointer arguments of the kernels point to distinct 8-byte cells (as passed by the Go wrappers)")
    L.reach(st, "post")
    got, want = run.outputs(), sub_reference(base, I)
    for k in want:
        m = L.refute(st, got[k] == want[k])
        if m is not None:
            q, _ = sub_request(base, fam, I, m)
            what = "%s: output %s differs from the reference" % (run.name, k)
            reported = False
            if base == "__finalize_structurals" and fam == "avx512":
                # no Go wrapper for the avx512 finalize alone: look for a counterexample realisable by a block
                B, e0, i0, cons = realizable_block_constraints(I)
                m2 = L.refute(st, got[k] == want[k], extra=cons)
                if m2 is not None:
                    q = {"op": "block", "fam": "avx512", "buf": block_of(m2, B), "a": [mval(m2, e0), M64 if mval(m2, i0) else 0, 0, mval(m2, I["pp0"])]}
                    reported = L.try_violation(what, {"request": _jsonable(q)}, lambda w: replay_vs_ref(q, fields=[0, 4]))
            else:
                reported = L.try_violation(what, {"request": _jsonable(q), "output": k,
                                                  "lifted": hex(mval(m, got[k])), "reference": hex(mval(m, want[k]))},
                                           lambda w: replay_vs_ref(q))
            if not reported and not escalate_sub(L, ctx, base, fam):
                raise Inconclusive("%s: %s at the register level, but neither the Go wrapper nor the slice driver (cases %s) "
                                   "exhibits it" % (L.name, what, ESCALATION_CASES))
            return L.finish()
    bad = run.frame()
    if bad:
        raise Inconclusive("%s: register contract (DESIGN A.2) violated: %s" % (run.name, "; ".join(bad)))
    o, m = L.bounds(st)
    if o is not None:
        raise Inconclusive("%s: memory-safety obligation fails: %s" % (run.name, o.what))
    return L.finish()


def _jsonable(q):
    d = dict(q)
    if "buf" in d:
        d["buf"] = bytes(d["buf"]).hex()
    d["a"] = [int(x) for x in d.get("a", [])]
    return d


def A1(ctx, family):
    return _sub_lemma(ctx, "A1", "__find_odd_backslash_sequences", family)


def A2(ctx, family):
    return _sub_lemma(ctx, "A2", "__find_quote_mask_and_bits", family)


def A3(ctx, family):
    return _sub_lemma(ctx, "A3", "__find_whitespace_and_structurals", family)


def A4(ctx, family):
    return _sub_lemma(ctx, "A4", "__finalize_structurals", family)


def A5(ctx, family):
    return _sub_lemma(ctx, "A5", "__find_newline_delimiters", family)


# ---------------------------------------------------------------------------------------------------------------
# A6: __flatten_bits_incremental by loop-head induction

def _shr_ext(M, s):
    """M >> s for 0 <= s <= 64 (x86 would mask a count of 64 to 0; the mathematical value is 0)"""
    return z3.If(s == 64, BV(0, 64), z3.LShR(M, s))


def _lowmask(s):
    """bits [0, s) set, 0 <= s <= 64"""
    return z3.If(s == 64, BV(M64, 64), (BV(1, 64) << s) - 1)


def _lowest_bit_is(x, z):
    """z (64-bit term) is the index of the lowest set bit of x"""
    return z3.And(z3.ULT(z, 64), z3.Extract(0, 0, z3.LShR(x, z)) == 1, (x & ((BV(1, 64) << z) - 1)) == 0)


def _flat_state(L, M, i0, c0, p0, size):
    st = fresh_state()
    H.havoc_gprs(st, "a6")
    idx = st.add_region("indexes", size * 4, kind="log")
    st.regs["rdi"] = BV(idx.base, 64)
    st.regs["rax"], st.regs["rbx"], st.regs["rdx"], st.regs["r10"] = M, i0, c0, p0
    return st


def A6(ctx):
    INDEX_SIZE, LIMIT = go_consts()
    name = "__flatten_bits_incremental"
    L = LemmaRun(ctx, "A6", bound="any mask/carried/position, index <= indexSize-64 = %d; loop-head induction: first iteration, "
                                  "one arbitrary iteration under the invariant, exit; plus plain unrolling for masks with <= 3 set bits"
                                  % (INDEX_SIZE - 64))
    ex, prog = L.ex, L.prog
    ins = prog.func_instrs(name)
    back = [i for i in ins if i.mnem == "jmp" and isinstance(i.ops[0], lift.Label) and i.ops[0].addr <= i.addr]
    if len(back) != 1:
        raise Inconclusive("A6: expected exactly one back edge in %s, found %d" % (name, len(back)))
    head = back[0].ops[0].addr
    M, i0, c0, p0 = z3.BitVec("mask", 64), z3.BitVec("index0", 64), z3.BitVec("carried0", 64), z3.BitVec("position0", 64)
    pre = [z3.ULE(i0, INDEX_SIZE - 64)]
    ctx.assume("A6: index <= indexSize-64 on entry (the slice drivers call with index < indexSizeWithSafetyBuffer = %d: A7 obligation)" % LIMIT)
    ctx.assume("A6: composition rule = induction over the loop trip count (base: first iteration establishes the invariant; "
               "step: one iteration from any state satisfying it re-establishes it and covers exactly one more set bit; exit: nothing "
               "left uncovered). The induction itself, and index' = index + popcount(mask) derived from it (one store and one increment per "
               "covered set bit), are not solver inferences; the unrolled cross-check confirms them for masks with <= 3 set bits.")
    fsum = refs.FLAT_summary(M, i0, c0, p0)

    def witness(m):
        return {"request": {"op": "flat", "fam": "avx2", "buf": "", "a": [mval(m, i0), mval(m, M), mval(m, c0), mval(m, p0)]}}

    def rp(w):
        return replay_vs_ref(dict(w["request"], buf=b""))

    def fail(what, m):
        L.violation(what, witness(m), rp)
        return L.finish()

    def inv(st, shifts, idx):
        """loop-head invariant: `shifts` low bits of the mask consumed, the last consumed bit is set, idx entries written"""
        return [st.regs["r8"] == shifts, z3.And(z3.UGE(shifts, 1), z3.ULE(shifts, 64)),
                st.regs["rax"] == _shr_ext(M, shifts),
                z3.Extract(0, 0, z3.LShR(M, shifts - 1)) == 1,
                st.regs["r10"] == p0 + c0 + shifts, st.regs["rdx"] == 0,
                st.regs["rbx"] == idx, z3.And(z3.ULT(i0, idx), z3.ULE(idx - i0, shifts))]

    def all_hold(f, claims, extra):
        for c in claims:
            m = L.refute(f, c, extra)
            if m is not None:
                return m
        return None

    def one_store(st, idx_term, val32):
        lg = st.region("indexes").log
        if len(lg) != 1:
            return z3.BoolVal(False)
        off, n, v, _ = lg[0]
        return z3.And(off == 4 * idx_term, z3.BoolVal(n == 4), v == val32)

    # (a) first iteration
    st = _flat_state(L, M, i0, c0, p0, INDEX_SIZE)
    init = dict(st.regs)
    ex.push(st, BV(x86.SENTINEL_RET, 64), None)
    st.pc = prog.entry(name)
    fins = ex.run(st, stop_at=[head])
    z = z3.BitVec("z_first", 64)
    for f in fins:
        L.paths += 1
        if f.exit == "ret":
            L.reach(f, "first.empty", pre)
            m = L.refute(f, z3.And(M == 0, f.regs["rbx"] == fsum[0], f.regs["rdx"] == fsum[1], f.regs["r10"] == fsum[2],
                                   z3.BoolVal(len(f.region("indexes").log) == 0)), pre)
            if m is not None:
                return fail("first iteration, empty mask: wrong index/carried/position", m)
        else:
            L.reach(f, "first.head", pre)
            zc = [_lowest_bit_is(M, z)]
            m = all_hold(f, [one_store(f, i0, z3.Extract(31, 0, z + 1 + c0)),
                             (M & _lowmask(z + 1)) == (BV(1, 64) << z)] + inv(f, z + 1, i0 + 1), pre + zc)
            if m is not None:
                return fail("first iteration: stored delta / shifted mask / invariant at the loop head wrong", m)
        o, m = L.bounds(f, pre)
        if o is not None:
            return fail("first iteration: " + o.what, m)
    if sorted(f.exit for f in fins) != ["ret", "stop:%x" % head]:
        raise Inconclusive("A6: unexpected path structure of the first iteration: %s" % [f.exit for f in fins])

    # (b) one arbitrary iteration from the loop head under the invariant, (c) exit
    shifts = z3.BitVec("shifts", 64)
    st = _flat_state(L, M, i0, c0, p0, INDEX_SIZE)
    ex.push(st, BV(x86.SENTINEL_RET, 64), None)
    st.regs["r8"] = shifts
    st.regs["rax"] = _shr_ext(M, shifts)
    st.regs["r10"] = p0 + c0 + shifts
    st.regs["rdx"] = BV(0, 64)
    idx = z3.BitVec("idx", 64)
    st.regs["rbx"] = idx
    hyp = pre + [z3.UGE(shifts, 1), z3.ULE(shifts, 64), z3.Extract(0, 0, z3.LShR(M, shifts - 1)) == 1,
                 z3.ULT(i0, idx), z3.ULE(idx - i0, shifts)]
    ex.assumptions = list(hyp)
    idx_here = st.regs["rbx"]
    st.pc = head
    fins = ex.run(st, stop_at=[head])
    ex.assumptions = []
    z2 = z3.BitVec("z_step", 64)
    for f in fins:
        L.paths += 1
        if f.exit == "ret":
            L.reach(f, "exit", hyp)
            m = all_hold(f, [f.regs["rdx"] == 64 - shifts, (M & _lowmask(shifts)) == M, f.regs["rbx"] == idx,
                             f.regs["rdx"] == fsum[1], f.regs["r10"] == fsum[2],
                             z3.BoolVal(len(f.region("indexes").log) == 0)], hyp)
            if m is not None:
                return fail("loop exit: carried/index/position differ from FLAT", m)
        else:
            L.reach(f, "step", hyp)
            cur = _shr_ext(M, shifts)
            zc = [_lowest_bit_is(cur, z2)]
            s2 = shifts + z2 + 1
            m = all_hold(f, [one_store(f, idx, z3.Extract(31, 0, z2 + 1)),
                             (M & _lowmask(s2)) == ((M & _lowmask(shifts)) | (BV(1, 64) << (s2 - 1)))] + inv(f, s2, idx + 1), hyp + zc)
            if m is not None:
                return fail("loop iteration: stored delta is not the distance to the next set bit, or invariant not re-established", m)
        o, m = L.bounds(f, hyp)
        if o is not None:
            return fail("loop iteration: " + o.what, m)
    if sorted(f.exit for f in fins) != ["ret", "stop:%x" % head]:
        raise Inconclusive("A6: unexpected path structure of the loop body: %s" % [f.exit for f in fins])

    # (d) cross-check by plain unrolling, masks with <= 3 set bits (bit positions are the primary symbols)
    allfins = []
    for k in range(4):
        ps = [z3.BitVec("p%d" % j, 64) for j in range(k)]
        Mk = BV(0, 64)
        for pj in ps:
            Mk = Mk | (BV(1, 64) << pj)
        small = pre + [z3.ULT(c0, 1 << 31)] + [z3.ULT(pj, 64) for pj in ps] + [z3.ULT(ps[j], ps[j + 1]) for j in range(k - 1)]
        st = _flat_state(L, Mk, i0, c0, p0, INDEX_SIZE)
        ex.assumptions = list(small)
        ex.loop_bound = 3
        ex.push(st, BV(x86.SENTINEL_RET, 64), None)
        st.pc = prog.entry(name)
        fins = ex.run(st)
        ex.assumptions = []
        allfins += fins
        if len(fins) != 1:
            raise Inconclusive("A6: unrolled run with %d set bits has %d feasible paths" % (k, len(fins)))
        f = fins[0]
        L.paths += 1
        L.reach(f, "unrolled%d" % k, small)
        lg = f.region("indexes").log
        want_d = [(ps[j] + 1 + c0) if j == 0 else (ps[j] - ps[j - 1]) for j in range(k)]
        claims = [z3.BoolVal(len(lg) == k), f.regs["rbx"] == i0 + k,
                  f.regs["rdx"] == ((63 - ps[-1]) if k else (c0 + 64)),
                  f.regs["r10"] == ((p0 + ps[-1] + 1 + c0) if k else p0)]
        for j, (off, n, v, _) in enumerate(lg[:k]):
            claims += [off == 4 * (i0 + j), z3.BoolVal(n == 4), v == z3.Extract(31, 0, want_d[j])]
        m = all_hold(f, claims, small)
        if m is not None:
            w = {"request": {"op": "flat", "fam": "avx2", "buf": "", "a": [mval(m, i0), mval(m, Mk), mval(m, c0), mval(m, p0)]}}
            L.violation("unrolled run (%d set bits): deltas / index / carried / position differ from FLAT" % k, w, rp)
            return L.finish()
    fins = allfins
    bad = []
    for f in fins:
        c = H.CONTRACT[name]
        for r, v0 in init.items():
            if r in c["out"] or r in c["clobber"] or r == "rsp":
                continue
            if not f.regs[r].eq(v0):
                bad.append(r)
    if bad:
        raise Inconclusive("A6: %s changes registers outside its contract: %s" % (name, sorted(set(bad))))
    return L.finish()


# ---------------------------------------------------------------------------------------------------------------
# slice drivers with call summaries (A7, A8)

class RefProvider:
    """callee summaries = the reference terms (sound once A1–A6 hold)"""
    kind = "REF-SCAN summaries (A1–A6)"

    def OE(self, B512, esc0):
        m, e = refs.OE([simp(b) for b in bytes_of(B512, 64)], esc0)
        return simp(m), simp(e)

    def QUOTE(self, B512, oe, inq0):
        qb, qm, err, inq = refs.QUOTE([simp(b) for b in bytes_of(B512, 64)], oe, inq0)
        return simp(qb), simp(qm), simp(err), simp(inq)

    def WSST(self, B512):
        ws, st = refs.WSST([simp(b) for b in bytes_of(B512, 64)])
        return simp(ws), simp(st)

    def FIN(self, st, ws, qm, qb, pp0):
        o, p = refs.FIN(st, ws, qm, qb, pp0)
        return simp(o), simp(p)

    def NL(self, B512, qm):
        return simp(refs.NL([simp(b) for b in bytes_of(B512, 64)], qm))

    def FLAT(self, mask, index, carried, position):
        return tuple(simp(x) for x in refs.FLAT_summary(mask, index, carried, position))


class UFProvider:
    """callee summaries = uninterpreted functions shared by both families (sound for A8 once the pairwise
    equivalence of the subroutines is established; flatten_bits is literally the same code in both)"""
    kind = "uninterpreted functions shared by both families"

    def __init__(self):
        b512, b64, bo = z3.BitVecSort(512), z3.BitVecSort(64), z3.BoolSort()
        F = z3.Function
        self.f_oe, self.f_esc = F("uf_OE", b512, bo, b64), F("uf_ESC", b512, bo, bo)
        self.f_qb, self.f_qm = F("uf_QB", b512, b64, bo, b64), F("uf_QM", b512, b64, bo, b64)
        self.f_err, self.f_inq = F("uf_ERR", b512, b64, bo, b64), F("uf_INQ", b512, b64, bo, bo)
        self.f_ws, self.f_st = F("uf_WS", b512, b64), F("uf_ST", b512, b64)
        self.f_fin, self.f_pp = F("uf_FIN", b64, b64, b64, b64, bo, b64), F("uf_PP", b64, b64, b64, b64, bo, bo)
        self.f_nl = F("uf_NL", b512, b64, b64)
        self.f_fi, self.f_fc, self.f_fp = [F("uf_FLAT%d" % i, b64, b64, b64, b64, b64) for i in range(3)]

    def OE(self, B, e):
        return self.f_oe(B, e), self.f_esc(B, e)

    def QUOTE(self, B, oe, i):
        return self.f_qb(B, oe, i), self.f_qm(B, oe, i), self.f_err(B, oe, i), self.f_inq(B, oe, i)

    def WSST(self, B):
        return self.f_ws(B), self.f_st(B)

    def FIN(self, st, ws, qm, qb, pp):
        return self.f_fin(st, ws, qm, qb, pp), self.f_pp(st, ws, qm, qb, pp)

    def NL(self, B, qm):
        return self.f_nl(B, qm)

    def FLAT(self, m, i, c, p):
        return self.f_fi(m, i, c, p), self.f_fc(m, i, c, p), self.f_fp(m, i, c, p)


def _ptr_load(ex, st, reg, ins):
    return ex.load(st, Mem(64, Reg(reg), None, 1, 0), ins)


def _ptr_store(ex, st, reg, val, ins):
    ex.store(st, Mem(64, Reg(reg), None, 1, 0), val, ins)


def _as_flag(ex, st, v, allones, what, ins):
    """cell value v must be 0/1 (or 0/~0): returns the Bool, recording the precondition as an obligation"""
    v = simp(v)
    one = BV(M64 if allones else 1, 64)
    if z3.is_app_of(v, z3.Z3_OP_ITE) and z3.is_bv_value(v.arg(1)) and z3.is_bv_value(v.arg(2)):
        a, b = v.arg(1).as_long(), v.arg(2).as_long()
        if a == one.as_long() and b == 0:
            return v.arg(0)
        if a == 0 and b == one.as_long():
            return simp(z3.Not(v.arg(0)))
    if z3.is_bv_value(v) and v.as_long() in (0, one.as_long()):
        return z3.BoolVal(v.as_long() != 0)
    ex.oblige(st, "pre", z3.Or(v == 0, v == one), "summary precondition: %s is not 0/%s" % (what, "~0" if allones else "1"), ins)
    return simp(v != 0)


def _block_term(st, fam):
    if fam == "avx512":
        return st.regs["zmm8"]
    return simp(z3.Concat(z3.Extract(255, 0, st.regs["zmm9"]), z3.Extract(255, 0, st.regs["zmm8"])))


def make_hooks(fam, P, consts512=None, index_size=1536, inline=()):
    """call summaries per the register contracts (DESIGN A.2): outputs overwritten with the provider's terms,
    clobber sets havoc'd"""
    x5 = fam == "avx512"
    counter = [0]

    def havoc(st, name):
        counter[0] += 1
        for r in H.CONTRACT[name]["clobber"]:
            w = 512 if r.startswith("zmm") else 64
            st.regs[r] = z3.BitVec("clob_%s_%s_%d" % (name[2:8], r, counter[0]), w)
        for f in st.flags:
            st.flags[f] = None

    def check_consts(ex, st, ins):
        if x5:
            for r, v in consts512.items():
                if not st.regs[r].eq(v):
                    ex.oblige(st, "pre", st.regs[r] == v, "summary precondition: constant register %s no longer holds its __init value" % r, ins)

    def h_oe(ex, st, ins):
        name = H.sub_name("__find_odd_backslash_sequences", fam)
        check_consts(ex, st, ins)
        B = _block_term(st, fam)
        e0 = _as_flag(ex, st, _ptr_load(ex, st, "rdx", ins), False, "prev_iter_ends_odd_backslash", ins)
        m, e1 = P.OE(B, e0)
        ptr = st.regs["rdx"]
        havoc(st, name)
        st.regs["rax"] = m
        st.regs["rdx"] = ptr
        _ptr_store(ex, st, "rdx", refs.b2m(e1), ins)

    def h_q(ex, st, ins):
        name = H.sub_name("__find_quote_mask_and_bits", fam)
        check_consts(ex, st, ins)
        B = _block_term(st, fam)
        oe = st.regs["rdx"]
        i0 = _as_flag(ex, st, _ptr_load(ex, st, "rcx", ins), True, "prev_iter_inside_quote", ins)
        qb, qm, err, i1 = P.QUOTE(B, oe, i0)
        if x5:
            k4 = st.regs["k4"]
            havoc(st, name)
            st.regs["k6"] = qb
            st.regs["k4"] = simp(k4 | err)
        else:
            e_old = _ptr_load(ex, st, "r9", ins)
            _ptr_store(ex, st, "r8", qb, ins)
            _ptr_store(ex, st, "r9", simp(e_old | err), ins)
            havoc(st, name)
        st.regs["rax"] = qm
        _ptr_store(ex, st, "rcx", refs.b2all(i1), ins)

    def h_ws(ex, st, ins):
        name = H.sub_name("__find_whitespace_and_structurals", fam)
        check_consts(ex, st, ins)
        ws, s_ = P.WSST(_block_term(st, fam))
        if x5:
            havoc(st, name)
            st.regs["k7"], st.regs["k5"] = ws, s_
        else:
            _ptr_store(ex, st, "rdx", ws, ins)
            _ptr_store(ex, st, "rcx", s_, ins)
            havoc(st, name)

    def h_fin(ex, st, ins):
        name = H.sub_name("__finalize_structurals", fam)
        if x5:
            s_, ws, qb = st.regs["k5"], st.regs["k7"], st.regs["k6"]
        else:
            s_, ws, qb = st.regs["rdi"], st.regs["rsi"], st.regs["rcx"]
        qm = st.regs["rdx"]
        p0 = _as_flag(ex, st, _ptr_load(ex, st, "r8", ins), False, "prev_iter_ends_pseudo_pred", ins)
        out, p1 = P.FIN(s_, ws, qm, qb, p0)
        havoc(st, name)
        st.regs["rax"] = out
        _ptr_store(ex, st, "r8", refs.b2m(p1), ins)

    def h_nl(ex, st, ins):
        name = H.sub_name("__find_newline_delimiters", fam)
        check_consts(ex, st, ins)
        nl = P.NL(_block_term(st, fam), st.regs["rdx"])
        havoc(st, name)
        st.regs["rbx"] = nl

    def h_flat(ex, st, ins):
        name = "__flatten_bits_incremental"
        mask, idx, car, pos, base = st.regs["rax"], st.regs["rbx"], st.regs["rdx"], st.regs["r10"], st.regs["rdi"]
        st.events.append(("flat", base, mask, idx, car, pos))
        if isinstance(P, UFProvider):
            ex.oblige(st, "flatbound", z3.ULE(idx, index_size - 64),
                      "index buffer store bound: index <= indexSize-64 = %d at the flatten_bits call (A6 precondition; stores at "
                      "[index, index+64) must stay inside the %d-entry buffer)" % (index_size - 64, index_size), ins)
        else:
            ex.oblige(st, "flatbound", z3.ULE(idx + refs.popcount64(mask), index_size),
                      "index buffer store bound: index + popcount(mask) <= indexSize = %d at the flatten_bits call" % index_size, ins)
        i1, c1, p1 = P.FLAT(mask, idx, car, pos)
        if isinstance(P, UFProvider):
            st.path.append(z3.ULE(i1 - idx, 64))      # A6: at most 64 entries are appended per call
        havoc(st, name)
        st.regs["rbx"], st.regs["rdx"], st.regs["r10"] = i1, c1, p1

    hooks = {H.sub_name("__find_odd_backslash_sequences", fam): h_oe,
             H.sub_name("__find_quote_mask_and_bits", fam): h_q,
             H.sub_name("__find_whitespace_and_structurals", fam): h_ws,
             H.sub_name("__finalize_structurals", fam): h_fin,
             H.sub_name("__find_newline_delimiters", fam): h_nl,
             "__flatten_bits_incremental": h_flat}
    for n in inline:
        hooks.pop(n, None)          # executed for real (escalation of a subroutine-level counterexample)
    return hooks, h_flat


class SliceSyms:
    """symbolic inputs of one slice-driver run, shared between families / with the reference"""

    def __init__(self, nblocks, r, limit, index_size=1536):
        self.nblocks, self.r, self.limit, self.index_size = nblocks, r, limit, index_size
        self.n = nblocks * 64 + r
        self.ext = nblocks * 64 + (0 if r == 0 else 32 if r < 32 else 64)
        self.bytes = [z3.BitVec("m%03d" % i, 8) for i in range(self.ext)]
        self.esc0, self.inq0, self.pp0 = z3.Bool("esc0"), z3.Bool("inq0"), z3.Bool("pp0")
        self.E, self.i0, self.c0, self.p0 = z3.BitVec("error_mask0", 64), z3.BitVec("index0", 64), z3.BitVec("carried0", 64), z3.BitVec("position0", 64)
        self.nd = z3.BitVec("ndjson", 64)
        # what findStructuralIndices guarantees: the first call starts at 0/1; the padded tail call reuses the buffer the
        # first call left, which stopped at the first block boundary with index >= limit, i.e. at most limit-1+64
        self.pre = [z3.ULE(self.i0, limit + 63)]

    def model_request(self, m, fam):
        g = lambda t: mval(m, t)
        data = bytes(g(b) for b in self.bytes) + b"\xAA" * (192 - self.ext)
        return {"op": "slice", "fam": fam, "buf": data,
                "a": [self.n, g(self.esc0), M64 if g(self.inq0) else 0, g(self.E), g(self.pp0), g(self.i0), g(self.c0), g(self.p0), g(self.nd)]}


def run_slice(L, fam, S, P, inline=()):
    """executes the real slice driver of family `fam` with call summaries (callees named in `inline` are executed
    for real); returns final states"""
    ex, prog = L.ex, L.prog
    x5 = fam == "avx512"
    st = fresh_state()
    consts = None
    if x5:
        # the constants the driver's own __init calls will establish (they are executed for real below as well)
        tmp = H.run_inits(ex, fresh_state())
        consts = {r: tmp.regs[r] for r in H.CONST512}
    hooks, hflat = make_hooks(fam, P, consts, S.index_size, inline)
    ex.hooks = hooks
    buf = st.add_region("buf", S.ext, writable=False, default="none", data=S.bytes)
    c = lambda n, v: BV(st.cell(n, v), 64)
    esc, piq, em, pp = c("esc", refs.b2m(S.esc0)), c("piq", refs.b2all(S.inq0)), c("em", S.E), c("pp", refs.b2m(S.pp0))
    idx, car, pos = c("index", S.i0), c("carried", S.c0), c("position", S.p0)
    ib = st.add_region("indexes", S.index_size * 4, kind="log")
    lim = BV(S.limit, 64)
    if x5:
        set_args(st, [BV(buf.base, 64), BV(S.n, 64), esc, piq, em, pp, BV(ib.base, 64), idx, lim, car, pos, S.nd])
        name, res = "_find_structural_bits_in_slice_avx512", 12
    else:
        qb, ws, sin = c("qb", z3.BitVec("qb_init", 64)), c("ws", z3.BitVec("ws_init", 64)), c("st_in", z3.BitVec("st_init", 64))
        set_args(st, [BV(buf.base, 64), BV(S.n, 64), esc, piq, qb, em, ws, sin, pp, BV(ib.base, 64), idx, lim, car, pos, S.nd])
        name, res = "_find_structural_bits_in_slice", 15
    ex.assumptions = list(S.pre)
    ex.loop_bound = S.nblocks + 2
    st.pc = prog.entry(name)
    fins = ex.run(st)
    ex.assumptions = []
    ex.hooks = {}
    for f in fins:
        if f.exit != "ret":
            raise Inconclusive("%s: path did not return" % name)
        f.out = {"processed": get_result(f, res), "esc": f.read_cell("esc"), "inq": f.read_cell("piq"), "error_mask": f.read_cell("em"),
                 "pp": f.read_cell("pp"), "index": f.read_cell("index"), "carried": f.read_cell("carried"), "position": f.read_cell("position")}
        stack = f.region("stack")
        top = f.entry_rsp - stack.base
        nargs = res
        if any(o >= top and not (top + 8 + 8 * nargs <= o < top + 16 + 8 * nargs) for o in stack.written):
            raise Inconclusive("%s writes into its caller's frame outside its result slot" % name)
    return fins


def ref_slice_chain(S, P):
    """reference composition over the blocks of the slice (callee functions taken from provider P): list of per-block
    dicts with the state *after* the block, the flatten event expected for it and the early-exit condition"""
    esc, inq, pp, em = S.esc0, S.inq0, S.pp0, S.E
    idx, car, pos = S.i0, S.c0, S.p0
    nd = S.nd != 0
    out = []
    facts = []
    nb = S.nblocks + (1 if S.r else 0)
    for k in range(nb):
        if k < S.nblocks:
            Bk = S.bytes[64 * k:64 * k + 64]
            processed = 64 * (k + 1)
        else:
            Bk = S.bytes[64 * k:64 * k + S.r] + [BV(0x20, 8)] * (64 - S.r)      # tail = bytes ++ spaces
            processed = S.n
        B = simp(join(Bk))
        oe, esc = P.OE(B, esc)
        qb, qm, err, inq = P.QUOTE(B, oe, inq)
        ws, st_ = P.WSST(B)
        o, pp = P.FIN(st_, ws, qm, qb, pp)
        o = z3.If(nd, o | P.NL(B, qm), o)
        em = em | err
        ev = (o, idx, car, pos)
        i1, car, pos = P.FLAT(o, idx, car, pos)
        if isinstance(P, UFProvider):
            facts.append(z3.ULE(i1 - idx, 64))
        idx = i1
        out.append({"event": ev, "esc": refs.b2m(esc), "inq": refs.b2all(inq), "pp": refs.b2m(pp), "error_mask": em,
                    "index": idx, "carried": car, "position": pos, "processed": BV(processed, 64), "exit": idx >= BV(S.limit, 64)})
    return out, facts


def tails_for(ctx):
    return [0, 1, 31, 32, 33, 63] if ctx.tier == "quick" else list(range(64))


def replay_oob(q):
    """native run with a guard zone behind the index buffer: reproduced iff something was written beyond entry indexSize-1"""
    n = replay.native([q])[0]
    return n["oob"] > 0, "native wrote %d entries beyond the index buffer (index' = %s)" % (n["oob"], n["r"][5] if len(n["r"]) > 5 else n["r"][:1])


def _a7_case(L, family, nb, r, LIMIT, P, inline=(), extra=(), isz=None):
    """one (blocks, tail) case: returns None if all claims hold, else (what, model, S, obligation-or-None)"""
    S = SliceSyms(nb, r, LIMIT, isz or go_consts()[0])
    S.pre = S.pre + [e(S) for e in extra]
    fins = run_slice(L, family, S, P, inline)
    chain, facts = ref_slice_chain(S, P)
    total = len(chain)
    pre = S.pre + facts
    for f in fins:
        L.paths += 1
        m = len(f.events)
        L.reach(f, "b%d.r%d.calls%d" % (nb, r, m), pre)
        claims = []
        exp = {}
        if m == 0:
            claims.append(z3.BoolVal(total == 0))
            exp = {"processed": BV(0, 64), "esc": refs.b2m(S.esc0), "inq": refs.b2all(S.inq0), "pp": refs.b2m(S.pp0),
                   "error_mask": S.E, "index": S.i0, "carried": S.c0, "position": S.p0}
        elif m > total:
            claims.append(z3.BoolVal(False))
        else:
            exp = chain[m - 1]
            for j in range(m):
                _, base, mask, idx, car, pos = f.events[j]
                e = chain[j]["event"]
                claims += [mask == e[0], idx == e[1], car == e[2], pos == e[3], base == BV(f.region("indexes").base, 64)]
            for j in range(m - 1):
                claims.append(z3.Not(chain[j]["exit"]))
            if m < total:
                claims.append(chain[m - 1]["exit"])
        for k, v in f.out.items():
            if k in exp:
                claims.append(v == exp[k])
        mdl = L.refute(f, z3.And(*claims), pre)
        if mdl is not None:
            return ("slice driver (%d blocks + tail %d): result differs from the reference composition" % (nb, r), mdl, S, None)
        o, mdl = L.bounds(f, pre)
        if o is not None:
            return ("slice driver (%d blocks + tail %d): %s" % (nb, r, o.what), mdl, S, o)
    return None


def _report_slice_failure(L, ctx, family, bad, LIMIT, pair=False):
    """bad = (what, model, S, obligation) obtained with the references instantiated: replay and report; returns True if reported"""
    what, mdl, S, o = bad
    q = S.model_request(mdl, family)
    if o is not None and o.kind == "flatbound":
        L.bounds_violation(what, {"request": _jsonable(q)}, lambda w: replay_oob(q))
        return True
    if o is not None and o.kind == "bounds":
        L.bounds_violation(what, {"request": _jsonable(q)})
        return True
    if o is not None:
        raise Inconclusive("%s: summary precondition fails: %s" % (L.name, what))
    if pair:
        return L.try_violation(what, {"request": _jsonable(q)}, lambda w: replay_pair(q))
    return L.try_violation(what, {"request": _jsonable(q)}, lambda w: replay_vs_ref(q, limit=LIMIT))


ESCALATION_CASES = [(1, 0), (2, 0), (1, 33), (0, 33)]


def escalate_sub(L, ctx, base, family, LIMIT=None):
    """a subroutine-level difference that cannot be shown through the subroutine's own Go wrapper (e.g. it depends on the
    carried error mask in K4): re-derive it at the slice-driver level with the *real* code of that subroutine inlined and
    everything else at its reference, and replay through find_structural_bits_in_slice[_avx512].
    family = "avx2"/"avx512" (against the reference composition) or "pair" (AVX2 vs AVX-512).  True if a violation was reported."""
    INDEX_SIZE, LIM = go_consts()
    LIMIT = LIMIT or LIM
    noexit = lambda S: z3.ULE(S.i0, 1)            # first look without the early-exit paths (cheap), then in full
    for extra in ([noexit, lambda S: S.nd == 0], []):
        for nb, r in ESCALATION_CASES:
            if family == "pair":
                inl = [H.sub_name(base, f) for f in FAMILIES]
                bad = _a8_case(L, nb, r, LIMIT, RefProvider(), inline=inl, extra=extra)
                if bad is not None and _report_slice_failure(L, ctx, "avx2", bad, LIMIT, pair=True):
                    L.notes.append("escalated to the slice drivers (%d blocks + tail %d) with %s inlined" % (nb, r, base))
                    return True
            else:
                inl = [H.sub_name(base, family)]
                bad = _a7_case(L, family, nb, r, LIMIT, RefProvider(), inline=inl, extra=extra)
                if bad is not None and _report_slice_failure(L, ctx, family, bad, LIMIT):
                    L.notes.append("escalated to the slice driver (%d blocks + tail %d) with %s inlined" % (nb, r, inl[0]))
                    return True
    return False


def A7(ctx, family, cases=None, ndjson=None):
    """slice driver (real code) with callee summaries == reference composition, for blocks in {0,1,2} x tails.
    The callees are uninterpreted functions shared by driver and reference (composition lemma, valid for any callee
    behaviour); A1–A6 instantiate them with REF-SCAN/FLAT.  ndjson: None = symbolic flag, 1/0 = fixed."""
    INDEX_SIZE, LIMIT = go_consts()
    cases = cases or [(nb, r) for nb in (0, 1, 2) for r in tails_for(ctx)]
    nm = "A7(%s)" % family + ("" if ndjson is None else "[ndjson=%d]" % ndjson) + \
         ("" if len(cases) >= 18 else "[%s]" % ",".join("%d+%d" % c for c in cases[:3]) + ("..." if len(cases) > 3 else ""))
    L = LemmaRun(ctx, nm, bound="blocks in {0,1,2} x tail lengths %s; any carry-in and error mask, any index <= %d+63 (store bound "
                                "index+64 <= %d); bytes fully symbolic; ndjson %s"
                 % (_ranges(sorted(set(r for _, r in cases))), LIMIT, INDEX_SIZE, "symbolic" if ndjson is None else ndjson))
    ctx.assume("A7: callees replaced by summaries per their register contracts with clobber sets havoc'd (DESIGN §3.1 cut points); "
               "the summaries are uninterpreted functions shared with the reference composition, instantiated by A1–A6; "
               "flatten_bits appends at most 64 entries (A6)")
    ctx.assume("A7: *index <= indexSizeWithSafetyBuffer+63 = %d on entry (constant read from parsed_json.go; findStructuralIndices "
               "starts a buffer at 0/1 and hands the buffer of an early-exited call, index <= limit-1+64, to the padded tail call: G1)" % (LIMIT + 63))
    ctx.stubs.add("A7/A8: CALL __find_* / __flatten_bits_incremental = summaries justified by A1–A6 (A8: by the pairwise subroutine equivalences)")
    extra = [] if ndjson is None else [(lambda S: S.nd == ndjson)]
    ctx.assume("A7/A8: len >= 1 (the Go wrappers return 0 without entering the assembly for an empty slice)")
    for nb, r in cases:
        if nb == 0 and r == 0:
            continue
        bad = _a7_case(L, family, nb, r, LIMIT, UFProvider(), extra=extra, isz=INDEX_SIZE)
        if bad is None:
            continue
        # re-derive with the reference instantiated, so that the witness bytes are meaningful and can be replayed
        bad2 = _a7_case(L, family, nb, r, LIMIT, RefProvider(), extra=extra, isz=INDEX_SIZE)
        if bad2 is None:
            L.notes.append("case (%d,%d): composition with uninterpreted callees fails (%s) but holds with the references instantiated" % (nb, r, bad[0]))
            continue
        if _report_slice_failure(L, ctx, family, bad2, LIMIT):
            return L.finish()
        raise Inconclusive("%s: counterexample of the driver lemma does not reproduce natively: %s" % (L.name, bad2[0]))
    return L.finish()


def _ranges(xs):
    out, i = [], 0
    while i < len(xs):
        j = i
        while j + 1 < len(xs) and xs[j + 1] == xs[j] + 1:
            j += 1
        out.append(str(xs[i]) if i == j else "%d..%d" % (xs[i], xs[j]))
        i = j + 1
    return ",".join(out)


# ---------------------------------------------------------------------------------------------------------------
# A8: AVX2 ≡ AVX-512

SUBS = {"A1": "__find_odd_backslash_sequences", "A2": "__find_quote_mask_and_bits", "A3": "__find_whitespace_and_structurals",
        "A4": "__finalize_structurals", "A5": "__find_newline_delimiters"}


def _a8_sub(ctx, key):
    base = SUBS[key]
    L = LemmaRun(ctx, "A8.%s" % key, bound="one 64-byte block, all contents, any carry-in; both families on the same symbols")
    I = sub_inputs(base)
    r2 = SubRun(L, "avx2", base, I)
    r5 = SubRun(L, "avx512", base, I)
    o2, o5 = r2.outputs(), r5.outputs()
    both = list(r2.st.path) + list(r5.st.path)
    L.reach(r2.st, "post", r5.st.path)
    for k in o2:
        m = L.refute(r2.st, o2[k] == o5[k], r5.st.path)
        if m is None:
            continue
        what = "%s: output %s differs between the AVX2 and AVX-512 kernels" % (base, k)
        reported = False
        if base == "__finalize_structurals":
            B, e0, i0, cons = realizable_block_constraints(I)
            m2 = L.refute(r2.st, o2[k] == o5[k], list(r5.st.path) + cons)
            if m2 is not None:
                q = {"op": "block", "buf": block_of(m2, B), "a": [mval(m2, e0), M64 if mval(m2, i0) else 0, 0, mval(m2, I["pp0"])]}
                reported = L.try_violation(what, {"request": _jsonable(q)}, lambda w: replay_pair(q, fields=[0, 4]))
        else:
            q, _ = sub_request(base, "avx2", I, m)
            if base == "__find_quote_mask_and_bits":
                q["a"][2] = 0          # the avx512 wrapper starts from an empty error mask
            reported = L.try_violation(what, {"request": _jsonable(q), "avx2": hex(mval(m, o2[k])), "avx512": hex(mval(m, o5[k]))},
                                       lambda w: replay_pair(q))
        if not reported and not escalate_sub(L, ctx, base, "pair"):
            raise Inconclusive("%s: %s at the register level, but neither the Go wrappers nor the slice drivers (cases %s) "
                               "exhibit it" % (L.name, what, ESCALATION_CASES))
        return L.finish()
    for run in (r2, r5):
        bad = run.frame()
        if bad:
            raise Inconclusive("%s: register contract (DESIGN A.2) violated: %s" % (run.name, "; ".join(bad)))
        o, m = L.bounds(run.st)
        if o is not None:
            raise Inconclusive("%s: memory-safety obligation fails: %s" % (run.name, o.what))
    return L.finish()


def _a8_case(L, nb, r, LIMIT, P, inline=(), extra=()):
    S = SliceSyms(nb, r, LIMIT, go_consts()[0])
    S.pre = S.pre + [e(S) for e in extra]
    f2s = run_slice(L, "avx2", S, P, inline)
    f5s = run_slice(L, "avx512", S, P, inline)
    for f in f2s + f5s:
        # the index-buffer store bound is family independent (same flatten_bits code): A7/C05 own it
        o, mdl = L.bounds(f, S.pre, skip=("flatbound",))
        if o is not None:
            return ("%s (%d blocks + tail %d)" % (o.what, nb, r), mdl, S, o)
    L.paths += len(f2s) + len(f5s)
    npairs = 0
    for f2 in f2s:
        for f5 in f5s:
            both = S.pre + list(f5.path)
            if L.reach(f2, "b%d.r%d.calls%d" % (nb, r, len(f2.events)), both) is None:
                continue
            npairs += 1
            claims = [z3.BoolVal(len(f2.events) == len(f5.events))]
            for e2, e5 in zip(f2.events, f5.events):
                # base pointers live in different machine states: compare offsets into the index buffer
                claims += [e2[2] == e5[2], e2[3] == e5[3], e2[4] == e5[4], e2[5] == e5[5],
                           e2[1] - BV(f2.region("indexes").base, 64) == e5[1] - BV(f5.region("indexes").base, 64)]
            for k in f2.out:
                claims.append(f2.out[k] == f5.out[k])
            mdl = L.refute(f2, z3.And(*claims), both)
            if mdl is not None:
                return ("slice drivers (%d blocks + tail %d): AVX2 and AVX-512 results differ" % (nb, r), mdl, S, None)
    if npairs == 0:
        raise Inconclusive("A8: no jointly feasible path pair for case (%d,%d)" % (nb, r))
    return None


def A8(ctx, parts=None, cases=None):
    """pairwise equivalence of the two kernel families: the five per-block subroutines on the same symbolic block and
    carry, and the slice drivers (ndjson flag symbolic) on the same symbolic message, index state and carries"""
    parts = list(parts or ["A1", "A2", "A3", "A4", "A5", "A7"])
    ctx.assume("A8: both families run on the same symbolic inputs; equality of every output (masks, carries, error_mask, "
               "index-buffer appends, index/carried/position, processed). Inductive in the carry => every input length.")
    verdicts = []
    for key in parts:
        if key in SUBS:
            verdicts.append(_a8_sub(ctx, key))
            continue
        INDEX_SIZE, LIMIT = go_consts()
        cs = cases or [(nb, r) for nb in (0, 1, 2) for r in tails_for(ctx)]
        L = LemmaRun(ctx, "A8.A7[%s]" % ",".join("%d+%d" % c for c in cs[:3]) + ("..." if len(cs) > 3 else ""),
                     bound="slice drivers: blocks in %s x tails %s; any carry-in and error mask; index <= %d+63; ndjson symbolic"
                           % (sorted(set(b for b, _ in cs)), _ranges(sorted(set(r for _, r in cs))), LIMIT))
        ctx.assume("A8.A7: callees are uninterpreted functions shared by both families (justified by A8.A1–A8.A5 incl. the register "
                   "contracts; __flatten_bits_incremental is the same code for both), index-buffer contents compared as the "
                   "sequence of flatten_bits calls")
        ctx.stubs.add("A7/A8: CALL __find_* / __flatten_bits_incremental = summaries justified by A1–A6 (A8: by the pairwise subroutine equivalences)")
        done = False
        ctx.assume("A7/A8: len >= 1 (the Go wrappers return 0 without entering the assembly for an empty slice)")
        for nb, r in cs:
            if nb == 0 and r == 0:
                continue
            bad = _a8_case(L, nb, r, LIMIT, UFProvider())
            if bad is None:
                continue
            bad2 = _a8_case(L, nb, r, LIMIT, RefProvider())
            if bad2 is None:
                L.notes.append("case (%d,%d): differs with uninterpreted callees (%s) but equal with the references instantiated" % (nb, r, bad[0]))
                continue
            if bad2[3] is not None:
                raise Inconclusive("A8: obligation fails while running the drivers: %s" % bad2[0])
            if not _report_slice_failure(L, ctx, "avx2", bad2, LIMIT, pair=True):
                raise Inconclusive("%s: counterexample of the driver equivalence does not reproduce natively: %s" % (L.name, bad2[0]))
            done = True
            break
        verdicts.append(L.finish())
    return verdicts


# ---------------------------------------------------------------------------------------------------------------
# A9 (thorough): inlined single-block step vs monolithic REF-SCAN

def A9(ctx, family=None, timeout_s=600):
    """_find_structural_bits[_avx512] with all four callees inlined, against the direct per-position recurrence"""
    if family is None:
        return [A9(ctx, f, timeout_s) for f in FAMILIES]
    L = LemmaRun(ctx, "A9(%s)" % family, bound="one 64-byte block, any carry-in, monolithic (no cut points); solver limit %ds" % timeout_s)
    ex, prog = L.ex, L.prog
    ex.timeout_ms = timeout_s * 1000
    x5 = family == "avx512"
    st = fresh_state()
    B = refs.block_bytes()
    buf = st.add_region("buf", 64, writable=False, default="none", data=B)
    esc0, inq0, pp0, E = z3.Bool("esc0"), z3.Bool("inq0"), z3.Bool("pp0"), z3.BitVec("error_mask0", 64)
    c = lambda n, v: BV(st.cell(n, v), 64)
    esc, piq, em, pp = c("esc", refs.b2m(esc0)), c("piq", refs.b2all(inq0)), c("em", E), c("pp", refs.b2m(pp0))
    sin = c("st_in", z3.BitVec("st_init", 64))
    if x5:
        st.regs["k4"] = E          # the wrapper does not initialise K4 (KORQ K4,K4,K4): taken as the incoming error mask
        set_args(st, [BV(buf.base, 64), esc, piq, em, sin, pp])
        name, res = "_find_structural_bits_avx512", 6
    else:
        qb, ws = c("qb", z3.BitVec("qb_init", 64)), c("ws", z3.BitVec("ws_init", 64))
        set_args(st, [BV(buf.base, 64), esc, piq, qb, em, ws, sin, pp])
        name, res = "_find_structural_bits", 8
    st.pc = prog.entry(name)
    fins = ex.run(st)
    if len(fins) != 1:
        raise Inconclusive("A9: expected a single path")
    f = fins[0]
    L.paths = 1
    L.reach(f, "post")
    ref = refs.SCAN(B, esc0, inq0, pp0, z3.BoolVal(False))
    got = {"out": get_result(f, res), "err": f.read_cell("em"), "esc": f.read_cell("esc"), "inq": f.read_cell("piq"), "pp": f.read_cell("pp")}
    want = {"out": ref["out"], "err": E | ref["err"], "esc": refs.b2m(ref["esc"]), "inq": refs.b2all(ref["inq"]), "pp": refs.b2m(ref["pp"])}
    for k in ("esc", "inq", "pp", "err", "out"):
        m = L.refute(f, got[k] == want[k])
        if m is not None:
            q = {"op": "block", "fam": family, "buf": block_of(m, B), "a": [mval(m, esc0), M64 if mval(m, inq0) else 0, 0 if x5 else mval(m, E), mval(m, pp0)]}
            L.violation("inlined block step: %s differs from REF-SCAN" % k, {"request": _jsonable(q)}, lambda w: replay_vs_ref(q))
            return L.finish()
    o, m = L.bounds(f)
    if o is not None:
        raise Inconclusive("A9: memory-safety obligation fails: %s" % o.what)
    return L.finish()


# ---------------------------------------------------------------------------------------------------------------
# String decoder: S1–S4

WIN = 44           # bytes a decoder iteration may look at, relative to its cursor
PAD = b'"' + b"\x00" * 7 + b'"""' + b"\x00" * 160      # keeps native replays of _parse_string (no length bound) terminating


def _ps_heads(prog):
    """loop heads of the two decoder functions"""
    v = [i for i in prog.func_instrs("_parse_string_validate_only")
         if i.mnem[0] == "j" and i.mnem != "jmp" and isinstance(i.ops[0], lift.Label) and i.ops[0].addr < i.addr]
    v.sort(key=lambda i: i.ops[0].addr)        # the outer loop's head is the lowest back-edge target
    hv = prog.instrs.get(v[0].ops[0].addr) if v else None
    if hv is None or hv.mnem != "vmovdqu" or not isinstance(hv.ops[1], Mem):
        raise Inconclusive("S: cannot identify the loop head of _parse_string_validate_only")
    c = [i for i in prog.func_instrs("_parse_string") if i.mnem == "vmovdqu" and isinstance(i.ops[1], Mem) and i.ops[1].base is not None
         and i.ops[1].base.name == "r13" and i.ops[1].index is None and i.ops[1].disp == 0]
    if len(c) != 1:
        raise Inconclusive("S: cannot identify the loop head of _parse_string (32-byte load from [r13])")
    return v[0].ops[0].addr, c[0].addr


class StrRef:
    """REF-STR step over a symbolic window W (list of WIN byte terms)"""

    def __init__(self, W):
        self.W = W
        self.has, self.ev = refs.first_event(W, 32)
        big = join(W)
        sh = z3.LShR(big, z3.ZeroExt(big.size() - 64, self.ev) << 3)
        self.e = [z3.Extract(8 * j + 7, 8 * j, sh) for j in range(12)]
        self.E = refs.STR_escape(self.e)
        self.is_quote = z3.And(self.has, self.e[0] == 0x22)
        self.is_esc = z3.And(self.has, self.e[0] == 0x5C)
        self.none = z3.Not(self.has)
        self.dontcare = z3.And(self.is_esc, self.E["dontcare"])
        self.reject = z3.And(self.is_esc, z3.Not(self.E["ok"]), z3.Not(self.E["dontcare"]))
        self.cont = z3.Or(self.none, z3.And(self.is_esc, self.E["ok"]))
        self.adv = z3.If(self.none, BV(32, 64), self.ev + self.E["consumed"])
        self.dadv = z3.If(self.none, BV(32, 64), self.ev + self.E["outlen"])
        lt30 = lambda b: z3.ULT(b, 0x30)
        # class of known defect F3: a hex-digit position of the \u escape at the event holds a byte 0x00..0x2f
        self.cls_f3 = z3.And(self.is_esc, self.E["is_u"],
                             z3.Or(*([lt30(self.e[j]) for j in range(2, 6)] +
                                     [z3.And(self.E["ok1"], self.E["hi_sur"], self.e[6] == 0x5C, self.e[7] == 0x75, lt30(self.e[j])) for j in range(8, 12)])))

    def expected_out(self, p):
        """reference output byte at position p (python int) of this step's output"""
        o = self.E["out"]
        d = BV(p, 64) - self.ev
        esc_b = z3.If(d == 0, o[0], z3.If(d == 1, o[1], z3.If(d == 2, o[2], o[3])))
        return z3.If(z3.Or(self.none, z3.ULT(BV(p, 64), self.ev)), self.W[p] if p < len(self.W) else BV(0, 8), esc_b)


CLASSES = {"u_hex_digit_below_0x30": "cls_f3"}     # exclusion predicates a known_findings entry may name


def _str_replay_request(op, wbytes):
    buf = bytes(wbytes) + PAD
    if op == "psv":
        return {"op": "psv", "fam": "avx2", "buf": buf, "a": [64, 0, 0]}
    return {"op": "ps", "fam": "avx2", "buf": buf, "a": [len(buf) + 64]}


def _str_replay(q):
    """native decoder on the witness string vs the concrete REF-STR: reproduced iff they disagree"""
    n = replay.native([q])[0]
    buf = bytes(q["buf"])
    status, slen, out = refs.str_py(buf)
    det = "input=%r native r=%s" % (buf[:WIN + 1], n["r"])
    if status in ("dontcare", "unterminated"):
        return False, det + " reference=%s (cannot judge)" % status
    if q["op"] == "psv":
        res, sl, dl = n["r"]
        if status == "accept":
            bad = not (res != 0 and sl == slen and dl == len(out))
            return bad, det + " reference=accept str_len=%d dst_len=%d" % (slen, len(out))
        return res != 0, det + " reference=reject"
    res, ln = n["r"]
    if status == "accept":
        bad = not (res != 0 and ln == len(out) and n["out"][:ln] == out)
        return bad, det + " out=%r reference=accept out=%r" % (n["out"][:ln], out)
    return res != 0, det + " reference=reject"


def _class_loop(L, ctx, f, claim, hyp, SR, excl, op, replay_hyp):
    """refute claim on path f; on sat: replay, classify (known finding / violation), exclude the class and repeat.
    returns False when an unclassifiable violation was reported (stop), True otherwise"""
    while True:
        m = L.refute(f, claim, hyp + [z3.Not(x) for x in excl.values()])
        if m is None:
            return True
        # a replayable instance: first iteration of a call (cursor = src, nothing decoded yet); preferably with only
        # plain bytes / a closing quote after the escape so that the rest of the string cannot mask the difference
        def benign(cut):
            return [z3.Implies(z3.UGE(BV(j, 64), SR.ev + cut), z3.Or(SR.W[j] == 0x78, SR.W[j] == 0x22)) for j in range(WIN)]
        base = hyp + [z3.Not(x) for x in excl.values()] + replay_hyp
        w = None
        tried = []
        attempts = [benign(c) + e0 for c in (6, 12, 2) for e0 in ([SR.ev == 0], [])] + [[]]
        for extra in attempts:
            m2 = L.refute(f, claim, base + extra)
            if m2 is None:
                continue
            wb = bytes(mval(m2, b) for b in SR.W)
            cls = [name for name, attr in CLASSES.items() if mval(m2, getattr(SR, attr))]
            q = _str_replay_request(op, wb)
            what = "decoder step differs from REF-STR on %r" % wb
            ctx.replays += 1
            ok, detail = _str_replay(q)
            ctx.log("[replay] %s: %s (%s)" % (L.name, "reproduced" if ok else "NOT reproduced", detail))
            if ok:
                w = {"request": _jsonable(q), "classes": cls, "native": detail}
                ctx.sample({"lemma": L.name, "counterexample": what, "witness": w})
                break
            tried.append(detail)
        if w is None:
            raise Inconclusive("%s: counterexample does not reproduce on the real code (engine error, or visible only away from the "
                               "first iteration): window=%s; %s" % (L.name, [mval(m, b) for b in SR.W], tried))
        k = None
        for kn in known_for(ctx, L.name):
            if kn.get("exclusion") in cls:
                k = kn
        if k is not None:
            ctx.report_known(k)
            if L.verdict == "unsat":
                L.verdict = "known-finding"
        else:
            ctx.report_violation("%s: %s%s" % (L.name, what, (" [class %s]" % ",".join(cls)) if cls else ""), w)
            L.verdict = "sat"
        if not cls:
            return False
        for c in cls:
            excl[c] = getattr(SR, CLASSES[c])


def _validate_step_setup(L):
    """runs the real prologue of _parse_string_validate_only to the loop head, then generalises the loop-carried
    registers: cursor = src + off with the window at the cursor a concrete-base region of WIN symbolic bytes"""
    ex, prog = L.ex, L.prog
    head, _ = _ps_heads(prog)
    st = fresh_state()
    W = [z3.BitVec("w%02d" % i, 8) for i in range(WIN)]
    win = st.add_region("win", WIN, writable=False, default="none", data=W)
    maxs, off, dlen = z3.BitVec("maxStringSize", 64), z3.BitVec("off", 64), z3.BitVec("dlen", 64)
    c = lambda n, v: BV(st.cell(n, v), 64)
    pm, ps, pd = c("maxs", maxs), c("slen", z3.BitVec("slen_init", 64)), c("dlen", z3.BitVec("dlen_init", 64))
    set_args(st, [BV(win.base, 64), pm, ps, pd])
    st.pc = prog.entry("_parse_string_validate_only")
    fins = ex.run(st, stop_at=[head])
    heads = [f for f in fins if f.exit == "stop:%x" % head]
    rets = [f for f in fins if f.exit == "ret"]
    if len(heads) != 1 or len(rets) != 1:
        raise Inconclusive("S1: unexpected prologue structure (%s)" % [f.exit for f in fins])
    # maxStringSize == 0: immediate failure (S2 entry obligation)
    r = rets[0]
    L.paths += 1
    L.reach(r, "max0")
    if L.refute(r, z3.And(maxs == 0, get_result(r, 4) == 0)) is not None:
        raise Inconclusive("S1: the maxStringSize == 0 exit does not return 0")
    h = heads[0]
    if L.refute(h, z3.And(h.regs["r13"] == BV(win.base, 64), h.regs["rax"] == h.regs["r13"], h.regs["rsi"] == 0, h.regs["r14"] == 0, maxs != 0)) is not None:
        raise Inconclusive("S1: prologue does not establish cursor = src, lengths = 0 at the loop head")
    h.path = []
    h.obligations = []
    h.regs["rdi"] = simp(BV(win.base, 64) - off)
    h.regs["rsi"] = off
    h.regs["r14"] = dlen
    for r_ in ("rbx", "r12", "r15", "r8"):
        h.regs[r_] = z3.BitVec("h_%s_s1" % r_, 64)
    for f_ in h.flags:
        h.flags[f_] = None
    hyp = [z3.ULT(off, maxs), z3.ULT(maxs, 1 << 62), z3.ULE(dlen, off)]
    return head, h, W, win, maxs, off, dlen, hyp


INV_REGS_V = ["rdi", "r11", "rdx", "rcx", "r9", "r10", "rbp", "zmm0", "zmm1"]


def S1(ctx):
    """_parse_string_validate_only: one iteration from an arbitrary cursor == REF-STR step; loads inside the window"""
    L = LemmaRun(ctx, "S1", bound="one decoder iteration from an arbitrary cursor (off < maxStringSize), %d symbolic window bytes; "
                                  "inductive over iterations" % WIN)
    ex = L.ex
    head, h, W, win, maxs, off, dlen, hyp = _validate_step_setup(L)
    ctx.assume("S1: loop-head invariant: table pointers/constants as left by the real prologue, rdi = src, rsi = cursor-src < maxStringSize, "
               "r14 = decoded length so far; the window [cursor, cursor+%d) is readable (S5/S6: parseString pads to maxStringSize+64)" % WIN)
    ctx.assume("S1: a return of 0 when the cursor reaches maxStringSize without a closing quote is the specified cut-off")
    ctx.assume("REF-STR don't-cares: ill-formed surrogate pairs and lone low surrogates (DESIGN A.5)")
    init = dict(h.regs)
    ex.assumptions = list(hyp)
    h.pc = head
    fins = ex.run(h, stop_at=[head])
    ex.assumptions = []
    SR = StrRef(W)
    excl = {}
    wbase = BV(win.base, 64)
    for f in fins:
        L.paths += 1
        L.reach(f, "step.%s" % ("ret" if f.exit == "ret" else "head"), hyp)
        if f.exit == "ret":
            res, sl, dl = get_result(f, 4), f.read_cell("slen"), f.read_cell("dlen")
            claim = z3.Or(SR.dontcare,
                          z3.And(SR.is_quote, res != 0, sl == off + SR.ev, dl == dlen + SR.ev),
                          z3.And(res == 0, z3.Or(SR.reject, z3.And(SR.cont, z3.UGE(off + SR.adv, maxs)))))
        else:
            inv = [f.regs[r].eq(init[r]) or (f.regs[r] == init[r]) for r in INV_REGS_V]
            inv = [z3.BoolVal(True) if x is True else x for x in inv]
            claim = z3.Or(SR.dontcare,
                          z3.And(SR.cont, f.regs["r13"] == wbase + SR.adv, f.regs["rax"] == f.regs["r13"], f.regs["rsi"] == off + SR.adv,
                                 f.regs["r14"] == dlen + SR.dadv, z3.ULT(off + SR.adv, maxs), *inv))
        if not _class_loop(L, ctx, f, claim, hyp, SR, excl, "psv", [off == 0, dlen == 0, maxs == 64]):
            return L.finish()
        o, m = L.bounds(f, hyp)
        if o is not None:
            L.bounds_violation("%s (load outside [cursor, cursor+%d), i.e. beyond src+maxStringSize+%d)" % (o.what, WIN, WIN - 1),
                               {"window": bytes(mval(m, b) for b in W).hex()})
            return L.finish()
    if excl:
        L.notes.append("re-queried with exclusion(s) %s: no other difference" % sorted(excl))
    return L.finish()


def _copy_step_states(L):
    """_parse_string: (entry run to the loop head / return) and (one iteration from the loop head), both over the same
    symbolic window W at the source cursor and a write-log window at the destination cursor"""
    ex, prog = L.ex, L.prog
    _, head = _ps_heads(prog)
    W = [z3.BitVec("w%02d" % i, 8) for i in range(WIN)]

    def mk():
        st = fresh_state()
        win = st.add_region("win", WIN, writable=False, default="none", data=W)
        dst = st.add_region("dstw", 80, kind="log")
        loc = BV(st.cell("loc", z3.BitVec("loc_init", 64)), 64)
        set_args(st, [BV(win.base, 64), BV(dst.base, 64), loc])
        return st, win, dst

    st, win, dst = mk()
    st.pc = prog.entry("_parse_string")
    first = ex.run(st, stop_at=[head])
    heads = [f for f in first if f.exit != "ret"]
    if not heads:
        raise Inconclusive("S3: no path from the entry of _parse_string reaches the loop head")
    INV = ["rdx", "r12", "r9", "r10", "r15", "rbp", "zmm0", "zmm1", "rax"]
    ref = heads[0]
    for f in heads[1:]:
        for r in INV:
            if not f.regs[r].eq(ref.regs[r]):
                raise Inconclusive("S3: loop-invariant register %s differs between prologue paths" % r)
    # generalised loop-head state: same machine state, fresh window/log, cursors at the window bases
    g, gwin, gdst = mk()
    for r in INV:
        g.regs[r] = ref.regs[r]
    g.regs["rsp"] = ref.regs["rsp"]
    gs, rs = g.region("stack"), ref.region("stack")
    gs.data, gs.words = dict(rs.data), dict(rs.words)
    g.regions[[k for k, v in g.regions.items() if v.name == "loc"][0]].data = dict(ref.region("loc").data)
    g.regs["r13"] = BV(gwin.base, 64)
    g.regs["rsi"] = BV(gdst.base, 64)
    for r in ("rdi", "rcx", "r14", "r11", "r8", "rbx"):
        g.regs[r] = z3.BitVec("h_%s_s3" % r, 64)
    for f_ in g.flags:
        g.flags[f_] = None
    ginit = dict(g.regs)
    g.pc = head
    step = ex.run(g, stop_at=[head])
    return head, W, first, step, INV, ref, ginit


def _dst_bytes(f, n):
    """symbolic content of the destination window after the path's stores: list of n byte terms (None = never written)"""
    lg = f.region("dstw").log
    out = []
    for p in range(n):
        cur = None
        for off, nb, v, _ in lg:
            if z3.is_bv_value(off):
                o = off.as_long()
                if o <= p < o + nb:
                    cur = simp(z3.Extract(8 * (p - o) + 7, 8 * (p - o), v))
            else:
                if nb != 1:
                    raise Inconclusive("S3: multi-byte store at a symbolic destination offset")
                cur = z3.If(off == p, v, cur if cur is not None else z3.BitVec("dst_unwritten_%d" % p, 8))
        out.append(cur)
    return out


def S3(ctx):
    """_parse_string (copy): entry block and one iteration from the loop head == REF-STR step incl. the bytes written;
    stores below dst cursor' + 32"""
    L = LemmaRun(ctx, "S3", bound="entry block + one iteration from an arbitrary (src cursor, dst cursor), %d symbolic window bytes" % WIN)
    head, W, first, step, INV, ref, ginit = _copy_step_states(L)
    ctx.assume("S3: loop-head invariant: constants/table pointers as left by the real prologue; [src cursor, +%d) readable; "
               "destination has >= 32 bytes of slack beyond the decoded length (S5/S6)" % WIN)
    ctx.assume("S3: _parse_string has no length bound: termination relies on the prior successful _parse_string_validate_only (S4 links the two)")
    SR = StrRef(W)
    excl = {}
    NOUT = 36
    for kind, fins in (("entry", first), ("step", step)):
        for f in fins:
            L.paths += 1
            L.reach(f, "%s.%s" % (kind, "ret" if f.exit == "ret" else "head"))
            wbase = BV(f.region("win").base, 64)
            dbase = BV(f.region("dstw").base, 64)
            db = _dst_bytes(f, NOUT)
            lg = f.region("dstw").log

            def written_ok(count):
                cs = []
                for p in range(NOUT):
                    if db[p] is None:
                        cs.append(z3.UGE(BV(p, 64), count))
                    else:
                        cs.append(z3.Implies(z3.ULT(BV(p, 64), count), db[p] == SR.expected_out(p)))
                return z3.And(*cs)

            if f.exit == "ret":
                res, loc = get_result(f, 3), f.read_cell("loc")
                claim = z3.Or(SR.dontcare,
                              z3.And(SR.is_quote, res != 0, loc == dbase + SR.ev, written_ok(SR.ev)),
                              z3.And(res == 0, SR.reject))
                newd = z3.If(res != 0, loc, dbase)
            else:
                inv = [z3.BoolVal(True) if f.regs[r].eq(ref.regs[r]) else f.regs[r] == ref.regs[r] for r in INV]
                claim = z3.Or(SR.dontcare,
                              z3.And(SR.cont, f.regs["r13"] == wbase + SR.adv, f.regs["rsi"] == dbase + SR.dadv, written_ok(SR.dadv), *inv))
                newd = f.regs["rsi"]
            if not _class_loop(L, ctx, f, claim, [], SR, excl, "ps", []):
                return L.finish()
            # every store of the step lies in [dst cursor, dst cursor' + 32)
            hy = [z3.Not(x) for x in excl.values()]
            for off, nb, v, _ in lg:
                L.nbounds += 1
                m = L.refute(f, z3.Or(SR.dontcare, z3.ULE(off + nb, (newd - dbase) + 32)), hy)
                if m is not None:
                    L.bounds_violation("a store of the step ends beyond dst cursor' + 32 (the slack parseString reserves)",
                                       {"window": bytes(mval(m, b) for b in W).hex()})
                    return L.finish()
            o, m = L.bounds(f, hy)
            if o is not None:
                L.bounds_violation(o.what, {"window": bytes(mval(m, b) for b in W).hex()})
                return L.finish()
    if excl:
        L.notes.append("re-queried with exclusion(s) %s: no other difference" % sorted(excl))
    return L.finish()


def S4(ctx):
    """validate-only and copy agree step by step (same advance, decoded length = bytes written, same verdict), and
    str_length != dst_length <=> some escape was decoded (needCopy)"""
    L = LemmaRun(ctx, "S4", bound="one iteration of each decoder on the same %d-byte window, arbitrary cursors" % WIN)
    ex = L.ex
    headv, h, Wv, win, maxs, off, dlen, hyp = _validate_step_setup(L)
    ex.assumptions = list(hyp)
    h.pc = headv
    vf = ex.run(h, stop_at=[headv])
    ex.assumptions = []
    headc, Wc, first, step, INV, ref, ginit = _copy_step_states(L)
    same = [a == b for a, b in zip(Wv, Wc)]
    SR = StrRef(Wv)
    ctx.assume("S4: compared per iteration on the same window; the validate-only cut-off (cursor >= maxStringSize) has no counterpart in the copy "
               "routine and is excluded from the comparison")
    wv = BV(win.base, 64)
    npairs = 0
    for a in vf:
        for b in step:
            both = hyp + same + list(b.path)
            if L.reach(a, "pair", both) is None:
                continue
            npairs += 1
            L.paths += 1
            wbase, dbase = BV(b.region("win").base, 64), BV(b.region("dstw").base, 64)
            if a.exit == "ret":
                resv, sl, dl = get_result(a, 4), a.read_cell("slen"), a.read_cell("dlen")
                if b.exit == "ret":
                    resc, loc = get_result(b, 3), b.read_cell("loc")
                    claim = z3.Or(z3.And(resv != 0, resc != 0, sl - off == dl - dlen, dl - dlen == loc - dbase),
                                  z3.And(resv == 0, resc == 0))
                else:
                    # validate-only gave up: only legitimate against a continuing copy step at the maxStringSize cut-off
                    claim = z3.And(resv == 0, z3.UGE(off + (b.regs["r13"] - wbase), maxs))
            else:
                if b.exit == "ret":
                    claim = z3.BoolVal(False)
                else:
                    adv_v, adv_c = a.regs["r13"] - wv, b.regs["r13"] - wbase
                    dv, dc = a.regs["r14"] - dlen, b.regs["rsi"] - dbase
                    claim = z3.And(adv_v == adv_c, dv == dc, z3.UGE(adv_v, dv), (adv_v == dv) == SR.none)
            m = L.refute(a, claim, both)
            if m is not None:
                wb = bytes(mval(m, x) for x in Wv)
                q1, q2 = _str_replay_request("psv", wb), _str_replay_request("ps", wb)

                def rp(w_):
                    n1, n2 = replay.native([q1, q2])
                    r1, s1, d1 = n1["r"]
                    r2, l2 = n2["r"]
                    differ = (r1 != 0) != (r2 != 0) or (r1 != 0 and d1 != l2)
                    return differ, "validate r=%s copy r=%s" % (n1["r"], n2["r"])
                L.violation("validate-only and copy decoders disagree on %r" % wb, {"window": wb.hex()}, rp)
                return L.finish()
    if npairs == 0:
        raise Inconclusive("S4: no jointly feasible path pair")
    # needCopy for the accepting step: lengths equal (no escape in this step)
    for a in vf:
        if a.exit == "ret":
            resv, sl, dl = get_result(a, 4), a.read_cell("slen"), a.read_cell("dlen")
            m = L.refute(a, z3.Implies(resv != 0, sl - off == dl - dlen), hyp)
            if m is not None:
                raise Inconclusive("S4: accepting step changes str_length and dst_length by different amounts")
    return L.finish()


def str_steps_py(buf, maxs):
    """concrete REF-STR in the decoder's step granularity (32-byte windows) incl. the maxStringSize cut-off:
    returns (status, str_len, dst_len)"""
    if maxs == 0:
        return "reject", 0, 0
    c = d = 0
    while True:
        w = buf[c:c + 32]
        ev = next((i for i, b in enumerate(w) if b in (0x22, 0x5C)), None)
        if ev is None:
            c, d = c + 32, d + 32
        elif w[ev] == 0x22:
            return "accept", c + ev, d + ev
        else:
            st, used, out = refs.str_py(bytes(buf[c + ev:c + ev + 12]) + b'"')
            # one escape only: re-run the scalar reference on exactly this escape
            st1, n1, o1 = _one_escape(buf[c + ev:c + ev + 12])
            if st1 != "ok":
                return st1, 0, 0
            c, d = c + ev + n1, d + ev + len(o1)
        if c >= maxs:
            return "reject", 0, 0


def _one_escape(e):
    HEX = b"0123456789abcdefABCDEF"
    if len(e) < 2:
        return "reject", 0, b""
    if e[1] in refs.ESC:
        return "ok", 2, bytes([refs.ESC[e[1]]])
    if e[1] != 0x75 or len(e) < 6 or any(x not in HEX for x in e[2:6]):
        return "reject", 0, b""
    h = int(bytes(e[2:6]).decode(), 16)
    if 0xDC00 <= h <= 0xDFFF:
        return "dontcare", 0, b""
    if 0xD800 <= h <= 0xDBFF:
        if len(e) < 12 or bytes(e[6:8]) != b"\\u" or any(x not in HEX for x in e[8:12]):
            return "dontcare", 0, b""
        l = int(bytes(e[8:12]).decode(), 16)
        if not (0xDC00 <= l <= 0xDFFF):
            return "dontcare", 0, b""
        return "ok", 12, chr(0x10000 + ((h - 0xD800) << 10) + (l - 0xDC00)).encode("utf-8")
    return "ok", 6, chr(h).encode("utf-8")


def S2(ctx, iters=2, shard=None):
    """_parse_string_validate_only as a whole (entry, maxStringSize == 0, loop, cut-off, exit stores) on every string that
    needs <= iters decoder iterations; maxStringSize symbolic.  shard = (i, n) restricts to the i-th of n groups of
    first-iteration paths (for parallel runs)."""
    iters = int(iters)
    N = 43 * (iters - 1) + WIN
    # shard = (i1, n1[, i2, n2 ...]): after iteration k the continuing (and returning) paths are split n_k ways
    sh = list(shard or ())
    lv = {k + 1: (sh[2 * k], sh[2 * k + 1]) for k in range(len(sh) // 2)}
    nm = "S2[%d]" % iters + ("" if shard is None else "#" + ".".join("%d/%d" % lv[k] for k in sorted(lv)))
    L = LemmaRun(ctx, nm, bound="whole function, strings needing <= %d iterations (%d symbolic bytes), maxStringSize symbolic" % (iters, N))
    ex, prog = L.ex, L.prog
    head, _ = _ps_heads(prog)
    ctx.assume("S2: paths needing more than %d iterations are outside the bound (covered inductively by S1)" % iters)
    st = fresh_state()
    Bs = [z3.BitVec("s%03d" % i, 8) for i in range(N)]
    src = st.add_region("src", N, writable=False, default="none", data=Bs)
    maxs = z3.BitVec("maxStringSize", 64)
    c_ = lambda n, v: BV(st.cell(n, v), 64)
    pm, ps, pd = c_("maxs", maxs), c_("slen", z3.BitVec("slen_init", 64)), c_("dlen", z3.BitVec("dlen_init", 64))
    set_args(st, [BV(src.base, 64), pm, ps, pd])
    hyp = [z3.ULT(maxs, 1 << 62)]
    ex.assumptions = list(hyp)
    st.pc = prog.entry("_parse_string_validate_only")
    # reference: REF-STR steps with a symbolic cursor
    big = join(Bs + [BV(0, 8)] * WIN)
    refsteps = []
    cur, dl = BV(0, 64), BV(0, 64)
    for k in range(iters):
        shf = z3.LShR(big, z3.ZeroExt(big.size() - 64, cur) << 3)
        Wk = [z3.Extract(8 * j + 7, 8 * j, shf) for j in range(WIN)]
        SR = StrRef(Wk)
        refsteps.append((cur, dl, SR))
        cur, dl = cur + SR.adv, dl + SR.dadv
    refsteps.append((cur, dl, None))
    level = [st]
    done = []
    dropped = 0
    for k in range(iters + 1):
        nxt, rets = [], []
        for s_ in level:
            for f in ex.run(s_, stop_at=[head]):
                if f.exit == "ret":
                    f.iters = k
                    rets.append(f)
                else:
                    nxt.append(f)
        # returns of iteration k belong to the shard whose indices for the deeper levels are all 0
        deeper_zero = all(lv[j][0] == 0 for j in lv if j > k)
        if k in lv:
            i_k, n_k = lv[k]
            rets = [f for j, f in enumerate(rets) if j % n_k == i_k]
            nxt = [f for j, f in enumerate(nxt) if j % n_k == i_k]
        if deeper_zero:
            done += rets
        if k == iters:
            dropped = len(nxt)
            nxt = []
        level = nxt
    ex.assumptions = []
    if not done:
        L.notes.append("empty shard")
        L.reached = 1
    L.notes.append("%d returning paths checked, %d paths continue beyond %d iterations (outside the bound)" % (len(done), dropped, iters))
    f3 = lambda upto: z3.Or(*[refsteps[j][2].cls_f3 for j in range(upto)]) if upto else z3.BoolVal(False)
    excl = {}
    for f in done:
        L.paths += 1
        m_it = f.iters            # number of completed loop iterations before this return (0 = returned from the prologue)
        L.reach(f, "ret.after%d" % m_it, hyp)
        res, sl, dlv = get_result(f, 4), f.read_cell("slen"), f.read_cell("dlen")
        if m_it == 0:
            claim = z3.And(maxs == 0, res == 0)
            used = 0
        else:
            used = iters
            # reference run over all `iters` steps of the bound: first terminal status wins; a reference still running
            # after the bound cannot be judged here (outside the bound; the step lemma S1 covers the deviation itself)
            running = maxs != 0
            acc, rej, dcs = z3.BoolVal(False), maxs == 0, z3.BoolVal(False)
            a_sl, a_dl = BV(0, 64), BV(0, 64)
            for j in range(iters):
                cj, dj, SRj = refsteps[j]
                dcs = z3.Or(dcs, z3.And(running, SRj.dontcare))
                acc_j = z3.And(running, SRj.is_quote)
                a_sl = z3.If(acc_j, cj + SRj.ev, a_sl)
                a_dl = z3.If(acc_j, dj + SRj.ev, a_dl)
                acc = z3.Or(acc, acc_j)
                cut = z3.And(SRj.cont, z3.UGE(cj + SRj.adv, maxs))
                rej = z3.Or(rej, z3.And(running, z3.Or(SRj.reject, cut)))
                running = z3.And(running, SRj.cont, z3.Not(cut))
            dcs = z3.Or(dcs, running)
            claim = z3.Or(dcs, z3.And(acc, res != 0, sl == a_sl, dlv == a_dl), z3.And(rej, res == 0))
        while True:
            m = L.refute(f, claim, hyp + [z3.Not(x) for x in excl.values()])
            if m is None:
                break
            data = bytes(mval(m, b) for b in Bs)
            mx = mval(m, maxs)
            q = {"op": "psv", "fam": "avx2", "buf": data + PAD, "a": [mx, 0, 0]}
            cls = ["u_hex_digit_below_0x30"] if used and mval(m, f3(used)) else []

            def rp(w_):
                n = replay.native([q])[0]
                stt, sl_, dl_ = str_steps_py(data + PAD, mx)
                r_, s_, d_ = n["r"]
                if stt == "dontcare":
                    return False, "reference: don't care"
                bad = (r_ != 0) != (stt == "accept") or (stt == "accept" and (s_, d_) != (sl_, dl_))
                return bad, "native r=%s reference=%s %d %d" % (n["r"], stt, sl_, dl_)
            what = "whole-function result differs from REF-STR on %r (maxStringSize=%d)" % (data, mx)
            w = L.counterexample(what, {"request": _jsonable(q), "classes": cls}, rp)
            k = None
            for kn in known_for(ctx, "S2"):
                if kn.get("exclusion") in cls:
                    k = kn
            if k is not None:
                ctx.report_known(k)
                if L.verdict == "unsat":
                    L.verdict = "known-finding"
            else:
                ctx.report_violation("%s: %s%s" % (L.name, what, (" [class %s]" % ",".join(cls)) if cls else ""), w)
                L.verdict = "sat"
            if not cls:
                return L.finish()
            excl["u_hex_digit_below_0x30"] = f3(iters)
        o, m = L.bounds(f, hyp + [z3.Not(x) for x in excl.values()])
        if o is not None:
            raise Inconclusive("%s: load outside the %d-byte source region: %s" % (L.name, N, o.what))
    if excl:
        L.notes.append("re-queried with exclusion(s) %s: no other difference" % sorted(excl))
    return L.finish()
