"""E1 lemmas (DESIGN §4): A1–A9 on the stage-1 kernels, S1–S4 on the string decoder.

Every function takes the CheckCtx, records itself with ctx.add_lemma and keeps the evidence counters up to date.
A `sat` is turned into concrete bytes, replayed against the real assembly through `go test -overlay`, and only then
reported (known finding / violation); a `sat` that does not replay is an engine error (Inconclusive)."""
import multiprocessing, os, re, time, traceback
import z3
from . import common
from .e1 import lift, x86, refs, harness as H, replay, tv
from .e1.x86 import BV, simp, fresh_state, set_args, get_result, bytes_of, join
from .e1.lift import Reg, Mem

Inconclusive = common.Inconclusive
M64 = 2 ** 64 - 1
FAMILIES = ("avx2", "avx512")

_PROG = None
_TV_DONE = set()


# ---------------------------------------------------------------------------------------------------------------
# session: lifted program, translator validation, parallel runner

def get_prog(ctx):
    global _PROG
    if _PROG is None:
        _PROG = lift.lift(log=ctx.log)
        ctx.extra["lifter"] = {"symbols": len(_PROG.funcs), "mnemonics": _PROG.mnemonics(),
                               "instructions": sum(1 for i in _PROG.instrs.values() if i.mnem != "int3"),
                               "build_s": round(_PROG.build_s, 2)}
    return _PROG


def ensure_tv(ctx, ops, pool=None):
    ops = [o for o in ops if o not in _TV_DONE]
    if not ops:
        return
    prog = get_prog(ctx)
    tv.validate(ctx, prog, ops, pool=pool)
    _TV_DONE.update(ops)


class SubCtx(common.CheckCtx):
    """context used inside a worker process: reports are queued and re-issued by the parent"""

    def __init__(self, prop, tier, seed, only=None):
        super().__init__(prop, tier, seed)
        self.pending = []
        self.only = only

    def report_violation(self, what, witness):
        self.pending.append(("violation", what, witness))

    def report_known(self, k):
        self.pending.append(("known", k, None))

    def report_inconclusive(self, what):
        self.pending.append(("inconclusive", what, None))


def _job(args):
    prop, tier, seed, fname, fargs = args
    sub = SubCtx(prop, tier, seed)
    t0 = time.time()
    try:
        globals()[fname](sub, *fargs)
    except Inconclusive as e:
        sub.report_inconclusive("%s%s: %s" % (fname, fargs, e))
    except Exception:
        sub.report_inconclusive("%s%s: engine error: %s" % (fname, fargs, traceback.format_exc()[-1500:]))
    return {"lemmas": sub.lemmas, "functions": sub.functions, "assumptions": sub.assumptions, "stubs": sorted(sub.stubs),
            "bounds": sub.bounds, "samples": sub.samples, "pending": sub.pending, "queries": sub.queries,
            "nontrivial": sub.nontrivial, "solver_s": sub.solver_s, "states": sub.states, "transitions": sub.transitions,
            "replays": sub.replays, "vacuity": sub.vacuity, "extra": sub.extra, "wall": time.time() - t0,
            "job": "%s%s" % (fname, fargs)}


def merge(ctx, d):
    ctx.lemmas.extend(d["lemmas"])
    for l in d["lemmas"]:
        ctx.log("lemma %-30s %s %s" % (l["name"], l["verdict"], " ".join("%s=%s" % (k, v) for k, v in l.items()
                                                                        if k in ("paths", "queries", "solver_s", "bound", "wall_s"))))
    ctx.functions.update(d["functions"])
    for a in d["assumptions"]:
        ctx.assume(a)
    ctx.stubs.update(d["stubs"])
    ctx.bounds.update(d["bounds"])
    for s in d["samples"]:
        ctx.sample(s)
    ctx.queries += d["queries"]
    ctx.nontrivial += d["nontrivial"]
    ctx.solver_s += d["solver_s"]
    ctx.states += d["states"]
    ctx.transitions += d["transitions"]
    ctx.replays += d["replays"]
    ctx.vacuity.update(d["vacuity"])
    for k, v in d["extra"].items():
        ctx.extra.setdefault(k, v)
    for kind, a, b in d["pending"]:
        if kind == "violation":
            ctx.report_violation(a, b)
        elif kind == "known":
            ctx.report_known(a)
        else:
            ctx.report_inconclusive(a)


def run_parallel(ctx, jobs, tv_ops, procs=None):
    """jobs: list of (function name in this module, args tuple).  Lifts once, validates the translator, then runs the
    lemmas in worker processes (fork: the lifted program is inherited) and merges their evidence into ctx."""
    get_prog(ctx)
    procs = procs or min(16, os.cpu_count() or 1)
    mp = multiprocessing.get_context("fork")
    with mp.Pool(procs) as pool:
        ensure_tv(ctx, tv_ops, pool=pool)
        args = [(ctx.prop, ctx.tier, ctx.seed, f, a) for f, a in jobs]
        for d in pool.imap_unordered(_job, args):
            merge(ctx, d)


# ---------------------------------------------------------------------------------------------------------------
# lemma scaffolding

class LemmaRun:
    def __init__(self, ctx, name, bound=None):
        self.ctx, self.name, self.bound = ctx, name, bound
        self.prog = get_prog(ctx)
        self.ex = x86.Executor(self.prog, timeout_ms=60000 if ctx.tier == "quick" else 600000)
        self.paths = 0
        self.t0 = time.time()
        self.verdict = "unsat"
        self.notes = []
        self.reached = 0
        self.obl = 0

    def refute(self, st, claim, extra=()):
        """returns a model of path ∧ extra ∧ ¬claim, or None when the claim holds on this path"""
        self.obl += 1
        c = simp(claim)
        if z3.is_true(c):
            self.ex.queries += 1
            return None
        r, m = self.ex.check(list(st.path) + list(extra) + [z3.Not(c)], nontrivial=True)
        return m

    def reach(self, st, site, extra=()):
        r, m = self.ex.check(list(st.path) + list(extra))
        if r == "sat":
            self.reached += 1
            self.ctx.vacuity["%s:%s" % (self.name, site)] = "reachable"
            return m
        return None

    def bounds(self, st, extra=()):
        """memory-safety obligations collected on this path: returns (obligation, model) of the first that fails"""
        for o in st.obligations:
            self.obl += 1
            r, m = self.ex.check(list(o.path) + list(extra) + [z3.Not(o.cond)], nontrivial=True)
            if r == "sat":
                return o, m
        return None, None

    def finish(self, verdict=None, **kw):
        ctx, ex = self.ctx, self.ex
        verdict = verdict or self.verdict
        if self.reached == 0 and verdict in ("unsat", "holds"):
            raise Inconclusive("%s: vacuous - no assertion site was reachable" % self.name)
        for f in sorted(ex.funcs_used):
            src = self.prog.src_of.get(f)
            ctx.functions[f] = {"instrs": len(self.prog.func_instrs(f)),
                                "src": src, "src_hash": common.file_sha(os.path.join(common.REPO, src)) if src else None}
        ctx.queries += ex.queries
        ctx.nontrivial += ex.nontrivial
        ctx.solver_s += ex.solver_s
        ctx.states += ex.states
        ctx.transitions += ex.transitions
        ctx.stubs.add("runtime.morestack: unreachable (stack-split prologue recognised and skipped)")
        if self.bound:
            ctx.bounds[self.name] = self.bound
        ctx.add_lemma(self.name, verdict, paths=self.paths, queries=ex.queries, solver_s=round(ex.solver_s, 2),
                      bound=self.bound, obligations=self.obl, wall_s=round(time.time() - self.t0, 1),
                      note="; ".join(self.notes) if self.notes else None, **kw)
        return verdict

    def counterexample(self, what, witness, replay_fn):
        """replays; returns True if reproduced (then reported as violation / known finding by the caller)"""
        self.ctx.replays += 1
        ok, detail = replay_fn(witness)
        self.ctx.log("[replay] %s: %s (%s)" % (self.name, "reproduced" if ok else "NOT reproduced", detail))
        if not ok:
            raise Inconclusive("%s: counterexample does not reproduce on the real code (engine error or register-level "
                               "contract not reachable through the Go wrapper): %s; witness=%s; %s" % (self.name, what, witness, detail))
        witness = dict(witness)
        witness["native"] = detail
        self.ctx.sample({"lemma": self.name, "counterexample": what, "witness": witness})
        return witness

    def violation(self, what, witness, replay_fn):
        w = self.counterexample(what, witness, replay_fn)
        self.ctx.report_violation("%s: %s" % (self.name, what), w)
        self.verdict = "sat"


def known_for(ctx, lemma):
    out = []
    for k in ctx.known:
        if k.get("status") == "finding" and (k.get("lemma") in (None, lemma) or lemma in (k.get("lemmas") or [])):
            out.append(k)
    return out


def mval(m, t):
    return H.eval_model(m, t)


def block_of(m, B):
    return bytes(mval(m, b) for b in B)


def go_consts():
    src = open(os.path.join(common.REPO, "parsed_json.go")).read()
    m1 = re.search(r"^const indexSize = (\d+)", src, re.M)
    m2 = re.search(r"^const indexSizeWithSafetyBuffer = indexSize - (\d+)", src, re.M)
    if not (m1 and m2):
        raise Inconclusive("cannot read indexSize / indexSizeWithSafetyBuffer from parsed_json.go")
    return int(m1.group(1)), int(m1.group(1)) - int(m2.group(1))


# ---- concrete reference evaluation (expectation for replays) --------------------------------------------------------

def _cb(buf):
    return [BV(b, 8) for b in buf[:64]]


def flat_py(mask, index, carried, position):
    deltas = []
    prev = None
    for p in range(64):
        if (mask >> p) & 1:
            deltas.append(((p + 1 + carried) if prev is None else (p - prev)) & 0xFFFFFFFF)
            position = (position + ((p + 1 + carried) if prev is None else (p - prev))) & M64
            prev = p
    carried = (carried + 64) & M64 if prev is None else 63 - prev
    return index + len(deltas), carried, position, deltas


def ref_native(q, limit=1408):
    """reference expectation for a replay request, in the shape replay.native returns"""
    op, fam, buf, a = q["op"], q.get("fam", "avx2"), bytes(q.get("buf", b"")), q.get("a", [])
    c = H.cval64
    T, F = z3.BoolVal(True), z3.BoolVal(False)
    bb = lambda v: T if v else F
    if op == "oe":
        m, e = refs.OE(_cb(buf), bb(a[0]))
        return {"r": [c(m), c(refs.b2m(e))]}
    if op == "qm":
        qb, qm, err, inq = refs.QUOTE(_cb(buf), BV(a[0], 64), bb(a[1]))
        e0 = 0 if fam == "avx512" else a[2]
        return {"r": [c(qm), c(qb), c(refs.b2all(inq)), c(err) | e0]}
    if op == "ws":
        ws, st = refs.WSST(_cb(buf))
        return {"r": [c(ws), c(st)]}
    if op == "fin":
        out, pp = refs.FIN(BV(a[0], 64), BV(a[1], 64), BV(a[2], 64), BV(a[3], 64), bb(a[4]))
        return {"r": [c(out), c(refs.b2m(pp))]}
    if op == "nl":
        return {"r": [c(refs.NL(_cb(buf), BV(a[0], 64)))]}
    if op == "flat":
        i, car, pos, d = flat_py(a[1], a[0], a[2], a[3])
        return {"r": [i, car, pos], "idx": d}
    if op == "block":
        s = refs.SCAN(_cb(buf), bb(a[0]), bb(a[1]), bb(a[3]), F)
        return {"r": [c(s["out"]), c(refs.b2m(s["esc"])), c(refs.b2all(s["inq"])), c(s["err"]) | a[2], c(refs.b2m(s["pp"]))]}
    if op == "slice":
        n, esc, inq, em, pp, idx, car, pos, nd = a
        i0 = idx
        processed = 0
        deltas = []
        k = 0
        while processed < n:
            chunk = buf[processed:processed + 64] if n - processed >= 64 else buf[processed:n] + b" " * (64 - (n - processed))
            s = refs.SCAN(_cb(chunk), bb(esc), bb(inq != 0), bb(pp), bb(nd != 0))
            esc, inq, pp, em = c(refs.b2m(s["esc"])), c(refs.b2all(s["inq"])), c(refs.b2m(s["pp"])), em | c(s["err"])
            idx, car, pos, d = flat_py(c(s["out"]), idx, car, pos)
            deltas += d
            processed = min(n, processed + 64)
            sidx = idx - (1 << 64) if idx >= (1 << 63) else idx
            if sidx >= limit:
                break
        return {"r": [processed, esc, inq, em, pp, idx, car, pos], "idx": deltas}
    raise Inconclusive("no concrete reference for op %s" % op)


def replay_vs_ref(q, fields=None, limit=1408):
    """native(q) vs the reference: reproduced iff they differ"""
    n = replay.native([q])[0]
    r = ref_native(q, limit)
    nr, rr = list(n["r"]), list(r["r"])
    if fields is not None:
        nr, rr = [nr[i] for i in fields], [rr[i] for i in fields]
    differ = nr != rr or ("idx" in r and list(n["idx"]) != list(r["idx"]))
    return differ, "native r=%s idx=%s; reference r=%s idx=%s" % ([hex(x) for x in n["r"]], n["idx"][:6], [hex(x) for x in r["r"]], r.get("idx", [])[:6])


def replay_pair(q, fields=None):
    """avx2 vs avx512 natively on the same request: reproduced iff they differ"""
    q2, q5 = dict(q, fam="avx2"), dict(q, fam="avx512")
    n2, n5 = replay.native([q2, q5])
    a, b = list(n2["r"]), list(n5["r"])
    if fields is not None:
        a, b = [a[i] for i in fields], [b[i] for i in fields]
    differ = a != b or list(n2["idx"]) != list(n5["idx"])
    return differ, "avx2 r=%s idx=%s; avx512 r=%s idx=%s" % ([hex(x) for x in n2["r"]], n2["idx"][:6], [hex(x) for x in n5["r"]], n5["idx"][:6])


# ---------------------------------------------------------------------------------------------------------------
# per-subroutine set-up shared by A1–A5 and A8

class SubRun:
    """one execution of a stage-1 subroutine of family `fam` from a state with the given symbolic inputs"""

    def __init__(self, L, fam, base, inputs):
        self.L, self.fam, self.base = L, fam, base
        self.name = H.sub_name(base, fam)
        ex = L.ex
        st = fresh_state()
        if fam == "avx512":
            st = H.run_inits(ex, st)
        H.havoc_gprs(st, base[2:6] + fam)
        H.havoc_scratch_vec(st, base[2:6] + fam, keep=H.CONST512 if fam == "avx512" else ())
        self.setup(st, inputs)
        self.init = dict(st.regs)
        self.init_cells = {r.name: r for r in st.regions.values()}
        fin = H.call_sub(ex, st, self.name)
        if len(fin) != 1 or fin[0].exit != "ret":
            raise Inconclusive("%s: expected one straight-line path, got %d" % (self.name, len(fin)))
        self.st = fin[0]
        L.paths += 1

    def ptr(self, st, reg, cellname, value=None):
        st.regs[reg] = BV(st.cell(cellname, value), 64)

    def setup(self, st, I):
        fam, b = self.fam, self.base
        x5 = fam == "avx512"
        if "B" in I:
            H.set_block(st, fam, I["B"])
        if b == "__find_odd_backslash_sequences":
            self.ptr(st, "rdx", "esc", refs.b2m(I["esc0"]))
        elif b == "__find_quote_mask_and_bits":
            st.regs["rdx"] = I["oe"]
            self.ptr(st, "rcx", "inq", refs.b2all(I["inq0"]))
            if x5:
                st.regs["k4"] = I["E"]
            else:
                self.ptr(st, "r8", "qb", z3.BitVec("qb_init", 64))
                self.ptr(st, "r9", "em", I["E"])
        elif b == "__find_whitespace_and_structurals":
            if not x5:
                self.ptr(st, "rdx", "ws", z3.BitVec("ws_init", 64))
                self.ptr(st, "rcx", "st", z3.BitVec("st_init", 64))
        elif b == "__finalize_structurals":
            if x5:
                st.regs["k5"], st.regs["k7"], st.regs["k6"] = I["ST"], I["WS"], I["QB"]
            else:
                st.regs["rdi"], st.regs["rsi"], st.regs["rcx"] = I["ST"], I["WS"], I["QB"]
            st.regs["rdx"] = I["QM"]
            self.ptr(st, "r8", "pp", refs.b2m(I["pp0"]))
        elif b == "__find_newline_delimiters":
            st.regs["rdx"] = I["QM"]

    def outputs(self):
        """dict of named output terms in a family-independent vocabulary"""
        st, b, x5 = self.st, self.base, self.fam == "avx512"
        if b == "__find_odd_backslash_sequences":
            return {"OE": st.regs["rax"], "esc'": st.read_cell("esc")}
        if b == "__find_quote_mask_and_bits":
            if x5:
                return {"QM": st.regs["rax"], "QB": st.regs["k6"], "error_mask'": st.regs["k4"], "inq'": st.read_cell("inq")}
            return {"QM": st.regs["rax"], "QB": st.read_cell("qb"), "error_mask'": st.read_cell("em"), "inq'": st.read_cell("inq")}
        if b == "__find_whitespace_and_structurals":
            if x5:
                return {"WS": st.regs["k7"], "ST": st.regs["k5"]}
            return {"WS": st.read_cell("ws"), "ST": st.read_cell("st")}
        if b == "__finalize_structurals":
            return {"out": st.regs["rax"], "pp'": st.read_cell("pp")}
        if b == "__find_newline_delimiters":
            return {"NL": st.regs["rbx"]}
        raise KeyError(b)

    def frame(self):
        """contract: nothing outside out/clobber/cells is modified; returns list of problems"""
        L, st = self.L, self.st
        bad = H.frame_check(L.ex, st, self.init, self.name, prove=lambda c: L.refute(st, c) is None)
        if not (z3.is_bv_value(st.regs["rsp"]) and st.regs["rsp"].as_long() == st.entry_rsp):
            bad.append("%s does not restore rsp" % self.name)
        stack = st.region("stack")
        top = st.entry_rsp - stack.base
        if any(o >= top for o in stack.written):
            bad.append("%s writes into its caller's stack frame" % self.name)
        return bad


def sub_inputs(base):
    B = refs.block_bytes()
    if base == "__find_odd_backslash_sequences":
        return {"B": B, "esc0": z3.Bool("esc0")}
    if base == "__find_quote_mask_and_bits":
        return {"B": B, "oe": z3.BitVec("odd_ends", 64), "inq0": z3.Bool("inq0"), "E": z3.BitVec("error_mask0", 64)}
    if base == "__find_whitespace_and_structurals":
        return {"B": B}
    if base == "__finalize_structurals":
        return {"ST": z3.BitVec("ST", 64), "WS": z3.BitVec("WS", 64), "QM": z3.BitVec("QM", 64), "QB": z3.BitVec("QB", 64), "pp0": z3.Bool("pp0")}
    if base == "__find_newline_delimiters":
        return {"B": B, "QM": z3.BitVec("QM", 64)}
    raise KeyError(base)


def sub_reference(base, I):
    if base == "__find_odd_backslash_sequences":
        m, e = refs.OE(I["B"], I["esc0"])
        return {"OE": m, "esc'": refs.b2m(e)}
    if base == "__find_quote_mask_and_bits":
        qb, qm, err, inq = refs.QUOTE(I["B"], I["oe"], I["inq0"])
        return {"QM": qm, "QB": qb, "error_mask'": I["E"] | err, "inq'": refs.b2all(inq)}
    if base == "__find_whitespace_and_structurals":
        ws, st = refs.WSST(I["B"])
        return {"WS": ws, "ST": st}
    if base == "__finalize_structurals":
        out, pp = refs.FIN(I["ST"], I["WS"], I["QM"], I["QB"], I["pp0"])
        return {"out": out, "pp'": refs.b2m(pp)}
    if base == "__find_newline_delimiters":
        return {"NL": refs.NL(I["B"], I["QM"])}
    raise KeyError(base)


def sub_request(base, fam, I, m):
    """replay request (through the Go wrapper of the subroutine) for a model"""
    g = lambda t: mval(m, t)
    if base == "__find_odd_backslash_sequences":
        return {"op": "oe", "fam": fam, "buf": block_of(m, I["B"]), "a": [g(I["esc0"])]}, None
    if base == "__find_quote_mask_and_bits":
        # avx512 wrapper zeroes K4 itself: error_mask0 is not an input there
        return {"op": "qm", "fam": fam, "buf": block_of(m, I["B"]), "a": [g(I["oe"]), M64 if g(I["inq0"]) else 0,
                                                                         0 if fam == "avx512" else g(I["E"])]}, None
    if base == "__find_whitespace_and_structurals":
        return {"op": "ws", "fam": fam, "buf": block_of(m, I["B"]), "a": []}, None
    if base == "__finalize_structurals":
        return {"op": "fin", "fam": "avx2", "buf": b"", "a": [g(I["ST"]), g(I["WS"]), g(I["QM"]), g(I["QB"]), g(I["pp0"])]}, None
    if base == "__find_newline_delimiters":
        return {"op": "nl", "fam": fam, "buf": block_of(m, I["B"]), "a": [g(I["QM"])]}, None
    raise KeyError(base)


SUB_ASSUME = {
    "__find_odd_backslash_sequences": "prev_iter_ends_odd_backslash ∈ {0,1} on entry (initial value 0; re-established by A1's own post-condition)",
    "__find_quote_mask_and_bits": "prev_iter_inside_quote ∈ {0,~0} on entry (initial value 0; re-established by A2's post-condition); odd_ends abstract",
    "__finalize_structurals": "prev_iter_ends_pseudo_pred ∈ {0,1} on entry (initial value 1; re-established by A4's post-condition)",
}


def realizable_block_constraints(I):
    """for finalize (abstract masks): tie the masks to an actual block so that a counterexample can be replayed
    through find_structural_bits"""
    B = refs.block_bytes("rb")
    esc0, inq0 = z3.Bool("r_esc0"), z3.Bool("r_inq0")
    oe, _ = refs.OE(B, esc0)
    qb, qm, err, inq = refs.QUOTE(B, oe, inq0)
    ws, st = refs.WSST(B)
    return B, esc0, inq0, [I["ST"] == st, I["WS"] == ws, I["QM"] == qm, I["QB"] == qb]


def _sub_lemma(ctx, lname, base, fam):
    """kernel subroutine == reference on arbitrary inputs + register contract + memory safety"""
    L = LemmaRun(ctx, "%s(%s)" % (lname, fam), bound="one 64-byte block, all 2^512 contents, any carry-in")
    I = sub_inputs(base)
    run = SubRun(L, fam, base, I)
    st = run.st
    if base in SUB_ASSUME:
        ctx.assume("%s: %s" % (lname, SUB_ASSUME[base]))
    ctx.assume("pointer arguments of the kernels point to distinct 8-byte cells (as passed by the Go wrappers)")
    L.reach(st, "post")
    got, want = run.outputs(), sub_reference(base, I)
    for k in want:
        m = L.refute(st, got[k] == want[k])
        if m is not None:
            q, _ = sub_request(base, fam, I, m)
            what = "%s: output %s differs from the reference" % (run.name, k)
            if base == "__finalize_structurals" and fam == "avx512":
                # no Go wrapper for the avx512 finalize alone: look for a counterexample realisable by a block
                B, e0, i0, cons = realizable_block_constraints(I)
                m2 = L.refute(st, got[k] == want[k], extra=cons)
                if m2 is None:
                    raise Inconclusive(what + " (abstract masks), but no block realises it; not replayable")
                q = {"op": "block", "fam": "avx512", "buf": block_of(m2, B), "a": [mval(m2, e0), M64 if mval(m2, i0) else 0, 0, mval(m2, I["pp0"])]}
                L.violation(what, {"request": _jsonable(q)}, lambda w: replay_vs_ref(q, fields=[0, 4]))
            else:
                L.violation(what, {"request": _jsonable(q), "output": k,
                                   "lifted": hex(mval(m, got[k])), "reference": hex(mval(m, want[k]))},
                            lambda w: replay_vs_ref(q))
            return L.finish()
    bad = run.frame()
    if bad:
        raise Inconclusive("%s: register contract (DESIGN A.2) violated: %s" % (run.name, "; ".join(bad)))
    o, m = L.bounds(st)
    if o is not None:
        raise Inconclusive("%s: memory-safety obligation fails: %s" % (run.name, o.what))
    return L.finish()


def _jsonable(q):
    d = dict(q)
    if "buf" in d:
        d["buf"] = bytes(d["buf"]).hex()
    d["a"] = [int(x) for x in d.get("a", [])]
    return d


def A1(ctx, family):
    return _sub_lemma(ctx, "A1", "__find_odd_backslash_sequences", family)


def A2(ctx, family):
    return _sub_lemma(ctx, "A2", "__find_quote_mask_and_bits", family)


def A3(ctx, family):
    return _sub_lemma(ctx, "A3", "__find_whitespace_and_structurals", family)


def A4(ctx, family):
    return _sub_lemma(ctx, "A4", "__finalize_structurals", family)


def A5(ctx, family):
    return _sub_lemma(ctx, "A5", "__find_newline_delimiters", family)


# ---------------------------------------------------------------------------------------------------------------
# A6: __flatten_bits_incremental by loop-head induction

def _shr_ext(M, s):
    """M >> s for 0 <= s <= 64 (x86 would mask a count of 64 to 0; the mathematical value is 0)"""
    return z3.If(s == 64, BV(0, 64), z3.LShR(M, s))


def _lowmask(s):
    """bits [0, s) set, 0 <= s <= 64"""
    return z3.If(s == 64, BV(M64, 64), (BV(1, 64) << s) - 1)


def _lowest_bit_is(x, z):
    """z (64-bit term) is the index of the lowest set bit of x"""
    return z3.And(z3.ULT(z, 64), z3.Extract(0, 0, z3.LShR(x, z)) == 1, (x & ((BV(1, 64) << z) - 1)) == 0)


def _flat_state(L, M, i0, c0, p0, size):
    st = fresh_state()
    H.havoc_gprs(st, "a6")
    idx = st.add_region("indexes", size * 4, kind="log")
    st.regs["rdi"] = BV(idx.base, 64)
    st.regs["rax"], st.regs["rbx"], st.regs["rdx"], st.regs["r10"] = M, i0, c0, p0
    return st


def A6(ctx):
    INDEX_SIZE, LIMIT = go_consts()
    name = "__flatten_bits_incremental"
    L = LemmaRun(ctx, "A6", bound="any mask/carried/position, index <= indexSize-64 = %d; loop-head induction: first iteration, "
                                  "one arbitrary iteration under the invariant, exit; plus plain unrolling for masks with <= 3 set bits"
                                  % (INDEX_SIZE - 64))
    ex, prog = L.ex, L.prog
    ins = prog.func_instrs(name)
    back = [i for i in ins if i.mnem == "jmp" and isinstance(i.ops[0], lift.Label) and i.ops[0].addr <= i.addr]
    if len(back) != 1:
        raise Inconclusive("A6: expected exactly one back edge in %s, found %d" % (name, len(back)))
    head = back[0].ops[0].addr
    M, i0, c0, p0 = z3.BitVec("mask", 64), z3.BitVec("index0", 64), z3.BitVec("carried0", 64), z3.BitVec("position0", 64)
    pre = [z3.ULE(i0, INDEX_SIZE - 64)]
    ctx.assume("A6: index <= indexSize-64 on entry (the slice drivers call with index < indexSizeWithSafetyBuffer = %d: A7 obligation)" % LIMIT)
    ctx.assume("A6: composition rule = induction over the loop trip count (base: first iteration establishes the invariant; "
               "step: one iteration from any state satisfying it re-establishes it and covers exactly one more set bit; exit: nothing "
               "left uncovered). The induction itself, and index' = index + popcount(mask) derived from it (one store and one increment per "
               "covered set bit), are not solver inferences; the unrolled cross-check confirms them for masks with <= 3 set bits.")
    fsum = refs.FLAT_summary(M, i0, c0, p0)

    def witness(m):
        return {"request": {"op": "flat", "fam": "avx2", "buf": "", "a": [mval(m, i0), mval(m, M), mval(m, c0), mval(m, p0)]}}

    def rp(w):
        return replay_vs_ref(dict(w["request"], buf=b""))

    def fail(what, m):
        L.violation(what, witness(m), rp)
        return L.finish()

    def inv(st, shifts, idx):
        """loop-head invariant: `shifts` low bits of the mask consumed, the last consumed bit is set, idx entries written"""
        return [st.regs["r8"] == shifts, z3.And(z3.UGE(shifts, 1), z3.ULE(shifts, 64)),
                st.regs["rax"] == _shr_ext(M, shifts),
                z3.Extract(0, 0, z3.LShR(M, shifts - 1)) == 1,
                st.regs["r10"] == p0 + c0 + shifts, st.regs["rdx"] == 0,
                st.regs["rbx"] == idx, z3.And(z3.ULT(i0, idx), z3.ULE(idx - i0, shifts))]

    def all_hold(f, claims, extra):
        for c in claims:
            m = L.refute(f, c, extra)
            if m is not None:
                return m
        return None

    def one_store(st, idx_term, val32):
        lg = st.region("indexes").log
        if len(lg) != 1:
            return z3.BoolVal(False)
        off, n, v, _ = lg[0]
        return z3.And(off == 4 * idx_term, z3.BoolVal(n == 4), v == val32)

    # (a) first iteration
    st = _flat_state(L, M, i0, c0, p0, INDEX_SIZE)
    init = dict(st.regs)
    ex.push(st, BV(x86.SENTINEL_RET, 64), None)
    st.pc = prog.entry(name)
    fins = ex.run(st, stop_at=[head])
    z = z3.BitVec("z_first", 64)
    for f in fins:
        L.paths += 1
        if f.exit == "ret":
            L.reach(f, "first.empty", pre)
            m = L.refute(f, z3.And(M == 0, f.regs["rbx"] == fsum[0], f.regs["rdx"] == fsum[1], f.regs["r10"] == fsum[2],
                                   z3.BoolVal(len(f.region("indexes").log) == 0)), pre)
            if m is not None:
                return fail("first iteration, empty mask: wrong index/carried/position", m)
        else:
            L.reach(f, "first.head", pre)
            zc = [_lowest_bit_is(M, z)]
            m = all_hold(f, [one_store(f, i0, z3.Extract(31, 0, z + 1 + c0)),
                             (M & _lowmask(z + 1)) == (BV(1, 64) << z)] + inv(f, z + 1, i0 + 1), pre + zc)
            if m is not None:
                return fail("first iteration: stored delta / shifted mask / invariant at the loop head wrong", m)
        o, m = L.bounds(f, pre)
        if o is not None:
            return fail("first iteration: " + o.what, m)
    if sorted(f.exit for f in fins) != ["ret", "stop:%x" % head]:
        raise Inconclusive("A6: unexpected path structure of the first iteration: %s" % [f.exit for f in fins])

    # (b) one arbitrary iteration from the loop head under the invariant, (c) exit
    shifts = z3.BitVec("shifts", 64)
    st = _flat_state(L, M, i0, c0, p0, INDEX_SIZE)
    ex.push(st, BV(x86.SENTINEL_RET, 64), None)
    st.regs["r8"] = shifts
    st.regs["rax"] = _shr_ext(M, shifts)
    st.regs["r10"] = p0 + c0 + shifts
    st.regs["rdx"] = BV(0, 64)
    idx = z3.BitVec("idx", 64)
    st.regs["rbx"] = idx
    hyp = pre + [z3.UGE(shifts, 1), z3.ULE(shifts, 64), z3.Extract(0, 0, z3.LShR(M, shifts - 1)) == 1,
                 z3.ULT(i0, idx), z3.ULE(idx - i0, shifts)]
    ex.assumptions = list(hyp)
    idx_here = st.regs["rbx"]
    st.pc = head
    fins = ex.run(st, stop_at=[head])
    ex.assumptions = []
    z2 = z3.BitVec("z_step", 64)
    for f in fins:
        L.paths += 1
        if f.exit == "ret":
            L.reach(f, "exit", hyp)
            m = all_hold(f, [f.regs["rdx"] == 64 - shifts, (M & _lowmask(shifts)) == M, f.regs["rbx"] == idx,
                             f.regs["rdx"] == fsum[1], f.regs["r10"] == fsum[2],
                             z3.BoolVal(len(f.region("indexes").log) == 0)], hyp)
            if m is not None:
                return fail("loop exit: carried/index/position differ from FLAT", m)
        else:
            L.reach(f, "step", hyp)
            cur = _shr_ext(M, shifts)
            zc = [_lowest_bit_is(cur, z2)]
            s2 = shifts + z2 + 1
            m = all_hold(f, [one_store(f, idx, z3.Extract(31, 0, z2 + 1)),
                             (M & _lowmask(s2)) == ((M & _lowmask(shifts)) | (BV(1, 64) << (s2 - 1)))] + inv(f, s2, idx + 1), hyp + zc)
            if m is not None:
                return fail("loop iteration: stored delta is not the distance to the next set bit, or invariant not re-established", m)
        o, m = L.bounds(f, hyp)
        if o is not None:
            return fail("loop iteration: " + o.what, m)
    if sorted(f.exit for f in fins) != ["ret", "stop:%x" % head]:
        raise Inconclusive("A6: unexpected path structure of the loop body: %s" % [f.exit for f in fins])

    # (d) cross-check by plain unrolling, masks with <= 3 set bits (bit positions are the primary symbols)
    allfins = []
    for k in range(4):
        ps = [z3.BitVec("p%d" % j, 64) for j in range(k)]
        Mk = BV(0, 64)
        for pj in ps:
            Mk = Mk | (BV(1, 64) << pj)
        small = pre + [z3.ULT(c0, 1 << 31)] + [z3.ULT(pj, 64) for pj in ps] + [z3.ULT(ps[j], ps[j + 1]) for j in range(k - 1)]
        st = _flat_state(L, Mk, i0, c0, p0, INDEX_SIZE)
        ex.assumptions = list(small)
        ex.loop_bound = 3
        ex.push(st, BV(x86.SENTINEL_RET, 64), None)
        st.pc = prog.entry(name)
        fins = ex.run(st)
        ex.assumptions = []
        allfins += fins
        if len(fins) != 1:
            raise Inconclusive("A6: unrolled run with %d set bits has %d feasible paths" % (k, len(fins)))
        f = fins[0]
        L.paths += 1
        L.reach(f, "unrolled%d" % k, small)
        lg = f.region("indexes").log
        want_d = [(ps[j] + 1 + c0) if j == 0 else (ps[j] - ps[j - 1]) for j in range(k)]
        claims = [z3.BoolVal(len(lg) == k), f.regs["rbx"] == i0 + k,
                  f.regs["rdx"] == ((63 - ps[-1]) if k else (c0 + 64)),
                  f.regs["r10"] == ((p0 + ps[-1] + 1 + c0) if k else p0)]
        for j, (off, n, v, _) in enumerate(lg[:k]):
            claims += [off == 4 * (i0 + j), z3.BoolVal(n == 4), v == z3.Extract(31, 0, want_d[j])]
        m = all_hold(f, claims, small)
        if m is not None:
            w = {"request": {"op": "flat", "fam": "avx2", "buf": "", "a": [mval(m, i0), mval(m, Mk), mval(m, c0), mval(m, p0)]}}
            L.violation("unrolled run (%d set bits): deltas / index / carried / position differ from FLAT" % k, w, rp)
            return L.finish()
    fins = allfins
    bad = []
    for f in fins:
        c = H.CONTRACT[name]
        for r, v0 in init.items():
            if r in c["out"] or r in c["clobber"] or r == "rsp":
                continue
            if not f.regs[r].eq(v0):
                bad.append(r)
    if bad:
        raise Inconclusive("A6: %s changes registers outside its contract: %s" % (name, sorted(set(bad))))
    return L.finish()
