"""Driver: ./check <ID> [--tier quick|thorough].  Exit 0 held / 1 violation / 2 inconclusive or engine error."""
import argparse, importlib, os, sys, traceback
from . import common


def main():
    ap = argparse.ArgumentParser()
    ap.add_argument("prop")
    ap.add_argument("--tier", default=os.environ.get("VERIF_TIER", "quick"), choices=["quick", "thorough"])
    ap.add_argument("--only", default=None, help="comma separated lemma names (debugging; evidence not written)")
    a = ap.parse_args()
    seed = int(os.environ.get("VERIF_SEED", "0") or 0)
    ctx = common.CheckCtx(a.prop, a.tier, seed)
    ctx.only = set(a.only.split(",")) if a.only else None
    try:
        mod = importlib.import_module("vsym.props." + a.prop)
    except ModuleNotFoundError:
        print("no check registered for", a.prop)
        sys.exit(2)
    try:
        mod.run(ctx)
    except common.Inconclusive as e:
        ctx.report_inconclusive(str(e))
    except Exception:
        traceback.print_exc()
        ctx.report_inconclusive("engine error: " + traceback.format_exc().strip().splitlines()[-1])
    if not ctx.only:
        p = ctx.write_evidence()
        ctx.log("evidence ->", p)
    rc = ctx.exit_code()
    ctx.log("exit", rc)
    sys.exit(rc)


if __name__ == "__main__":
    main()
