"""Tape-level lemma sets shared by several properties."""
from .e2.checklib import Lemma
from .e2.intr_chunks import ChunkIntrinsics

FM = ["zz_verif_tape.go", "zz_verif_wf.go", "zz_verif_t1.go", "zz_verif_edit.go", "zz_verif_t3.go", "zz_verif_t6.go", "zz_verif_ser.go", "zz_verif_multi.go"]
SCALE = {"stringBits": "2", "tagBufSize": "4", "valBufSize": "16"}


def multi_root_lemmas(tier):
    sizes = [(4, 4), (4, 6), (5, 5), (6, 5)] if tier == "quick" else [(a, b) for a in range(4, 7) for b in range(4, 7)] + [(7, 4), (4, 7)]
    ls = []
    for a, b in sizes:
        ls.append(Lemma("Multi.Roots.%dx%d" % (a, b), "verifHarness_Multi_Roots", FM, splits=[{"T1": a - 4, "T2": b - 4}],
                        split_depth=("auto" if a + b >= 11 else 0), intr=ChunkIntrinsics, scale=SCALE, replay_patches=("memhash",),
                        desc="newline-delimited tapes with two roots of %d and %d words (all shapes, NOP runs): ParsedJson.ForEach, "
                             "Advance/Root and AdvanceInto walks, MarshalJSON (roots joined by a newline), Interface (list of roots), "
                             "Serialize/Deserialize round trip, against the abstract documents" % (a, b),
                        bound="two roots of %d and %d words" % (a, b), expect_reach=["Multi.marshal", "Multi.done"]))
    return ls
