"""Intrinsics for the stage-2 lemmas (P3, U1): the string decoder's Go wrappers are replaced by the decoder's
reference relation restricted to escape-free strings (the assembly itself = REF-STR is lemma S1-S4, engine E1)."""
import z3
from .values import *
from .intrinsics import PKG
from .intr_num import NumIntrinsics
from .engine import Forks, EngineError


class Stage2Intrinsics(NumIntrinsics):
    def go_stmt(self, eng, st, fr, callee, args, ins):
        """the stage-2 goroutine of parseMessage's asynchronous branch: executed under ONE schedule, the sequential one
        (stage 1 runs to its end first, the goroutine runs when the spawner reaches wg.Wait). That the outcome is the same
        under every other interleaving is lemma Q1 (E3, C07)."""
        name = callee.name or ""
        if not name.startswith("(*%s.internalParsedJson).parseMessage$" % PKG):
            return None
        self.used.add("schedule: stage-2 goroutine run at wg.Wait (sequential schedule; all others by Q1)")
        st.notes["go_deferred"] = list(st.notes.get("go_deferred", ())) + [(callee, list(args))]
        return []

    def _find_quote(self, eng, st, bs, start=1):
        """fork over the position of the first '"' at or after start (escape-free strings only).
        returns list of (state, j)"""
        out = []
        cur = st
        for j in range(start, len(bs)):
            b = bs[j]
            if type(b) is int:
                if b == 0x22:
                    out.append((cur, j))
                    cur = None
                    break
                if b == 0x5c:
                    cur.status = "dead"
                    cur = None
                    break
                continue
            isq = simp(bv(b, 8) == 0x22)
            res = eng.branch(cur, isq)
            nxt = None
            for s, t in res:
                if t:
                    out.append((s, j))
                else:
                    nxt = s
            cur = nxt
            if cur is None:
                break
            # a backslash here is outside this lemma (harness assumes none): drop that case
            isb = simp(bv(b, 8) == 0x5c)
            res = eng.branch(cur, isb)
            nxt = None
            for s, t in res:
                if t:
                    s.status = "dead"
                else:
                    nxt = s
            cur = nxt
            if cur is None:
                break
        if cur is not None:
            # no closing quote inside the readable buffer: the real decoder would run off it
            eng.oblige(cur, False, "panic", "string decoder: no closing quote inside the padded buffer (reads past the caller-provided extent)", None)
            cur.status = "dead"
        return out

    def _register(self):
        super()._register()
        reg = self.reg
        H = PKG + "."

        @reg("(*sync.WaitGroup).Wait")
        def wg_wait(eng, st, fr, args, ins):
            q = list(st.notes.get("go_deferred", ()))
            if q:
                callee, cargs = q.pop(0)
                st.notes["go_deferred"] = q
                if q:
                    raise EngineError("more than one deferred goroutine at wg.Wait")
                return eng.do_call(st, fr, callee, cargs, None, ins)
            return None

        @reg(H + "parseStringSimdValidateOnly")
        def validate(eng, st, fr, args, ins):
            buf, pmax, pdst, pneed = args
            pos = ins.get("pos")
            n = eng.need_int(st, buf.len, pos, "string buffer length")
            # precondition the Go wrapper must establish for the AVX2 loads (lemma S5/S6)
            bs = eng.slice_read_all(st, buf, pos)
            items = []
            for s, j in self._find_quote(eng, st, bs):
                # 32-byte loads up to the quote's window must stay inside buf: j + 32 + 12 <= len(buf)
                if not eng.oblige(s, j + 44 <= n, "ub", "string decoder reads past the buffer the wrapper provides (needs 44 bytes beyond the cursor)", pos):
                    continue
                eng.store(s, pdst, j - 1, pos, 64)
                # needCopy unchanged: escape-free => src length == dst length
                items.append((s, True))
            if st not in [s for s, _ in items]:
                st.status = "dead"
            return Forks(items)

        @reg(H + "parseStringSimd")
        def copy(eng, st, fr, args, ins):
            buf, psb = args
            pos = ins.get("pos")
            bs = eng.slice_read_all(st, buf, pos)
            items = []
            for s, j in self._find_quote(eng, st, bs):
                sb = eng.deref(s, psb, pos)
                ln = eng.need_int(s, sb.len, pos, "string buffer length")
                cp = eng.need_int(s, sb.cap, pos, "string buffer capacity")
                # the copy routine stores in 32-byte chunks: it needs len + (j-1) + 32 <= cap (lemma S3)
                if not eng.oblige(s, ln + (j - 1) + 32 <= cp, "ub", "string copy writes past the string buffer's capacity (needs 32 bytes of slack)", pos):
                    continue
                src = eng.mk_slice(s, bs[1:j])
                nsb = eng.bi_append(s, sb, src, pos, {"t": None}) if j > 1 else sb
                eng.store(s, psb, nsb, pos)
                items.append((s, True))
            if st not in [s for s, _ in items]:
                st.status = "dead"
            return Forks(items)

        def kernel(eng, st, fr, args, ins):
            """contract of find_structural_bits_in_slice[_avx512] (lemmas A1-A7: kernel = REF-SCAN + FLAT per 64-byte block,
            early exit once the index buffer holds >= limit entries), driven by the harness layout verifWant"""
            buf, p_odd, p_inq, p_err, p_pp, p_indexes, p_index, p_carried, p_position, ndjson = args
            pos_ = ins.get("pos")
            n = eng.need_int(st, buf.len, pos_, "kernel slice length")
            if n == 0:
                return 0
            want_s = eng.deref(st, PtrV(eng.global_obj(st, H + "verifWant"), ()), pos_)
            want = eng.slice_read_all(st, want_s, pos_)
            limit = eng.need_int(st, eng.deref(st, PtrV(eng.global_obj(st, H + "verifIndexLimit"), ()), pos_), pos_, "index limit")
            err_at = signed(eng.need_int(st, eng.deref(st, PtrV(eng.global_obj(st, H + "verifStage1ErrAt"), ()), pos_), pos_, "errat"), 64)
            A = st.notes.get("s1abs", 0)
            ncall = st.notes.get("s1calls", 0)
            idx = eng.need_int(st, eng.deref(st, p_index, pos_, 64), pos_, "index length")
            position = eng.need_int(st, eng.deref(st, p_position, pos_, 64), pos_, "position")
            nidx = len(eng.deref(st, p_indexes, pos_))
            # carry contract: the kernel is REF-SCAN on this part of the message only when it is entered with the scanner
            # state the previous call left (initially: no pending backslash, outside any string, previous byte counts as
            # white space); the state itself is opaque here (fresh symbols), so any caller that does not hand it over
            # unchanged breaks the precondition for some value
            exp = st.notes.get("s1carry") or (0, 0, 1)
            for ptr, e, what in ((p_odd, exp[0], "odd-backslash"), (p_inq, exp[1], "inside-quote"), (p_pp, exp[2], "pseudo-structural-predecessor")):
                c = eng.deref(st, ptr, pos_, 64)
                eq = (c == e) if (is_conc(c) and is_conc(e)) else (bv(c, 64) == bv(e, 64))
                if not eng.oblige(st, eq, "ub", "stage-1 kernel entered with a %s carry that is not the one the previous kernel call left "
                                  "(or the documented initial value on the first call): the scan of the rest of the message is no longer REF-SCAN" % what, pos_):
                    return 0
            # mode contract: what the layout describes is REF-SCAN of the message in the mode this parse runs in (newlines are
            # structural in ndjson mode only); a kernel call that passes another flag scans that part of the message differently
            wnd = eng.deref(st, PtrV(eng.global_obj(st, H + "verifWantNdjson"), ()), pos_)
            eqn = (ndjson == wnd) if (is_conc(ndjson) and is_conc(wnd)) else (bv(ndjson, 64) == bv(wnd, 64))
            if not eng.oblige(st, eqn, "ub", "stage-1 kernel called with an ndjson flag that is not the mode of this parse: newline delimiters in "
                              "that part of the message are (not) reported as structurals, the index stream is no longer REF-SCAN of the message", pos_):
                return 0
            processed = 0
            arr = list(eng.deref(st, p_indexes, pos_))
            carried = eng.need_int(st, eng.deref(st, p_carried, pos_, 64), pos_, "carried")
            while processed < n:
                blockend = min(n, processed + 64)
                last = None
                for q in range(processed, blockend):
                    a = A + q
                    if a < len(want) and want[a] == 1:
                        if not eng.oblige(st, idx < nidx, "ub", "stage-1 kernel writes past the index buffer", pos_):
                            return 0
                        # FLAT: first set bit of a block: distance + carried empty bits; later ones: distance to the previous bit
                        delta = (q - processed + 1 + carried) if last is None else (q - last)
                        arr[idx] = delta & 0xffffffff
                        idx += 1
                        position = (position + delta) & M(64)
                        last = q
                if last is None:
                    carried = (carried + 64) & M(64)
                else:
                    carried = 63 - (last - processed)
                processed = blockend
                if idx >= limit:
                    break
            eng.store(st, p_indexes, tuple(arr), pos_)
            eng.store(st, p_index, idx, pos_, 64)
            eng.store(st, p_position, position & M(64), pos_, 64)
            eng.store(st, p_carried, carried, pos_, 64)
            at_end = (A + processed >= len(want))
            # carries: arbitrary in the middle of a message, "outside any string" at its end (assumed by the harness: REF-SCAN ok)
            endq = eng.deref(st, PtrV(eng.global_obj(st, H + "verifEndInQuote"), ()), pos_)
            c_inq = (M(64) if endq is True else 0) if at_end else eng.fresh("kernel.inq", 64)
            c_odd = eng.fresh("kernel.odd", 64)
            c_pp = eng.fresh("kernel.pp", 64)
            eng.store(st, p_inq, c_inq, pos_, 64)
            eng.store(st, p_odd, c_odd, pos_, 64)
            eng.store(st, p_pp, c_pp, pos_, 64)
            st.notes["s1carry"] = (c_odd, c_inq, c_pp)
            if err_at == ncall:
                eng.store(st, p_err, eng.fresh("kernel.err", 64) | 1, pos_, 64)
                eng.store(st, PtrV(eng.global_obj(st, H + "verifStage1ErrInjected"), ()), True, pos_)
            st.notes["s1abs"] = A + processed
            st.notes["s1calls"] = ncall + 1
            return processed
        self.table[H + "find_structural_bits_in_slice"] = kernel
        self.table[H + "find_structural_bits_in_slice_avx512"] = kernel

        @reg("bytes.TrimSpace")
        def trim_space(eng, st, fr, args, ins):
            """contract on the claim domain: strips \\t \\n \\r and space; inputs whose first/last remaining byte is \\v, \\f or
            >= 0x80 are outside C01's claim and are excluded by assumption"""
            s_ = args[0]
            pos_ = ins.get("pos")
            bs = eng.slice_read_all(st, s_, pos_)
            lo, hi = 0, len(bs)

            def is_ws(b):
                return z3.Or(b == 0x20, b == 0x09, b == 0x0a, b == 0x0d)

            def edge_ok(b):
                return z3.And(z3.Not(is_ws(b)), b != 0x0b, b != 0x0c, z3.ULT(b, 0x80))
            while lo < hi:
                b = bs[lo]
                if type(b) is int:
                    if b in (0x20, 9, 10, 13):
                        lo += 1
                        continue
                    if b in (0x0b, 0x0c) or b >= 0x80:
                        st.status = "dead"
                        return NILSLICE
                    break
                if not eng.assume(st, edge_ok(bv(b, 8))):
                    return NILSLICE
                break
            while hi > lo:
                b = bs[hi - 1]
                if type(b) is int:
                    if b in (0x20, 9, 10, 13):
                        hi -= 1
                        continue
                    if b in (0x0b, 0x0c) or b >= 0x80:
                        st.status = "dead"
                        return NILSLICE
                    break
                if not eng.assume(st, edge_ok(bv(b, 8))):
                    return NILSLICE
                break
            off = eng.need_int(st, s_.off, pos_, "TrimSpace offset")
            cp = eng.need_int(st, s_.cap, pos_, "TrimSpace cap")
            if lo == hi:
                return NILSLICE
            return SliceV(s_.obj, s_.path, off + lo, hi - lo, cp - lo)

        @reg("sync/atomic.AddUint64")
        def atomic_add(eng, st, fr, args, ins):
            p, d = args
            v = eng.deref(st, p, ins.get("pos"), 64)
            if type(v) is int and type(d) is int:
                nv = (v + d) & M(64)
            else:
                nv = bv(v, 64) + bv(d, 64)
            eng.store(st, p, nv, ins.get("pos"), 64)
            return nv


class Stage2SummIntrinsics(Stage2Intrinsics):
    """parseNumber replaced by its verified summary (lemma P2: parseNumber = REF-NUM under the call-site precondition):
    an uninterpreted oracle of the bytes from the token start to the end of the message, identical for the
    implementation and the reference parser."""

    def _register(self):
        super()._register()
        reg = self.reg
        H = PKG + "."
        TAGS = [0, (ord('l') << 56), (ord('u') << 56), (ord('d') << 56), (ord('d') << 56) | 1]

        @reg(H + "parseNumber")
        def parse_number(eng, st, fr, args, ins):
            from .intr_num import MAXLIT
            # the oracle is a function of the first MAXLIT bytes of the rest of the message (the harness layouts keep every
            # token and its terminator within that window)
            bs = [bv(b, 8) for b in eng.slice_read_all(st, args[0], ins.get("pos"))][:MAXLIT]
            key = ("num",) + tuple(b.get_id() for b in bs)
            known = st.notes.get(key)
            if known is not None:
                return known
            if "NUMKIND" not in self.uf:
                self.pf([])     # make sure the PF family exists
                from .intr_num import MAXLIT
                self.uf["NUMKIND"] = z3.Function("NUMKIND", *([z3.BitVecSort(8)] * (MAXLIT + 1) + [z3.BitVecSort(3)]))
                self.uf["NUMVAL"] = z3.Function("NUMVAL", *([z3.BitVecSort(8)] * (MAXLIT + 1) + [z3.BitVecSort(64)]))
            a = self._pf_args(bs)
            kind = self.uf["NUMKIND"](*a)
            val = self.uf["NUMVAL"](*a)
            items = []
            cur = st
            for k in range(5):
                if cur is None:
                    break
                if k == 4:
                    res = [(cur, True)]
                    cur.pc.append(kind == 4)
                else:
                    res = eng.branch(cur, kind == k)
                nxt = None
                for s, t in res:
                    if t:
                        out = (TAGS[k], 0 if k == 0 else val)
                        s.notes[key] = out
                        items.append((s, out))
                    else:
                        nxt = s
                cur = nxt
            return Forks(items)


ESC = {0x22: 0x22, 0x5c: 0x5c, 0x2f: 0x2f, 0x62: 0x08, 0x66: 0x0c, 0x6e: 0x0a, 0x72: 0x0d, 0x74: 0x09}


class Stage2EscIntrinsics(Stage2SummIntrinsics):
    """string decoder = its reference relation restricted to the eight two-character escapes (lemmas S1-S4 establish REF-STR
    for the assembly); the validating wrapper parseStringSimdValidateOnly runs for real on top of the asm-level stub."""

    def _decode(self, eng, st, bs, start):
        """fork over the shape of the string starting at bs[start]: yields (state, ok, end index of the closing quote, decoded bytes)"""
        out = []
        work = [(st, start, [])]
        while work:
            cur, j, dec = work.pop()
            while True:
                if j >= len(bs):
                    eng.oblige(cur, False, "panic", "string decoder: no closing quote inside the padded buffer", None)
                    cur.status = "dead"
                    break
                b = bs[j]
                cases = eng.branch(cur, simp(bv(b, 8) == 0x22))
                nxt = None
                for s, t in cases:
                    if t:
                        out.append((s, True, j, list(dec)))
                    else:
                        nxt = s
                if nxt is None:
                    break
                cur = nxt
                cases = eng.branch(cur, simp(bv(b, 8) == 0x5c))
                plain = None
                escs = None
                for s, t in cases:
                    if t:
                        escs = s
                    else:
                        plain = s
                if escs is not None:
                    if j + 1 >= len(bs):
                        escs.status = "dead"
                    else:
                        c = bs[j + 1]
                        rest = escs
                        for code, val in ESC.items():
                            if rest is None:
                                break
                            r = eng.branch(rest, simp(bv(c, 8) == code))
                            rest = None
                            for s, t in r:
                                if t:
                                    work.append((s, j + 2, dec + [val]))
                                else:
                                    rest = s
                        if rest is not None:
                            # \u is excluded by the harness; any other byte after a backslash is rejected by the decoder
                            r = eng.branch(rest, simp(bv(c, 8) == 0x75))
                            for s, t in r:
                                if t:
                                    s.status = "dead"
                                else:
                                    out.append((s, False, j, list(dec)))
                if plain is None:
                    break
                cur = plain
                dec = dec + [b]
                j += 1
        return out

    def _register(self):
        super()._register()
        H = PKG + "."
        del self.table[H + "parseStringSimdValidateOnly"]

        @self.reg(H + "_parse_string_validate_only")
        def asm_validate(eng, st, fr, args, ins):
            src, pmax, pstrlen, pdstlen = args
            pos = ins.get("pos")
            arr = eng.load_path(st.mem[src.obj], src.path[:-1], st, pos)
            start = eng.need_int(st, src.path[-1], pos, "string source offset")
            items = []
            for s, ok, j, dec in self._decode(eng, st, list(arr), start):
                if s.status != "run":
                    continue
                if ok:
                    eng.store(s, pstrlen, j - start, pos, 64)
                    eng.store(s, pdstlen, len(dec), pos, 64)
                    items.append((s, 1))
                else:
                    items.append((s, 0))
            if st not in [s for s, _ in items]:
                st.status = "dead"
            return Forks(items)

        @self.reg(H + "parseStringSimd")
        def copy(eng, st, fr, args, ins):
            buf, psb = args
            pos = ins.get("pos")
            bs = eng.slice_read_all(st, buf, pos)
            items = []
            for s, ok, j, dec in self._decode(eng, st, bs, 1):
                if s.status != "run" or not ok:
                    continue
                sb = eng.deref(s, psb, pos)
                ln = eng.need_int(s, sb.len, pos, "string buffer length")
                cp = eng.need_int(s, sb.cap, pos, "string buffer capacity")
                if not eng.oblige(s, ln + len(dec) + 32 <= cp, "ub", "string copy writes past the string buffer's capacity (needs 32 bytes of slack)", pos):
                    continue
                if dec:
                    nsb = eng.bi_append(s, sb, eng.mk_slice(s, dec), pos, {"t": None})
                    eng.store(s, psb, nsb, pos)
                items.append((s, True))
            if st not in [s for s, _ in items]:
                st.status = "dead"
            return Forks(items)


from .intr_chunks import ChunkIntrinsics


class DeepIntrinsics(Stage2SummIntrinsics, ChunkIntrinsics):
    """stage-2 contracts + serializer chunk/hash contracts together (whole-stack lemmas)"""
