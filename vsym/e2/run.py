"""Front end of E2: lower /repo (+ harness overlay) with ssa2vir, run harness entries, replay counterexamples."""
import glob, json, multiprocessing as mp, os, subprocess, time, traceback
from .. import common
from .engine import Prog, Engine, EngineError
from .intrinsics import Intrinsics

DEFAULT_STOP = [
    "fmt", "errors", "sync", "sync/atomic", "runtime", "reflect", "os", "io", "bufio", "unsafe", "strconv", "math",
    "github.com/klauspost/compress/s2", "github.com/klauspost/compress/zstd", "github.com/klauspost/cpuid/v2",
    "unicode", "unicode/utf8", "internal/bytealg", "time", "sort", "strings",
]

SSA2VIR = os.path.join(common.VERIF, "bin", "ssa2vir")


def ensure_tool():
    src = os.path.join(common.VERIF, "cmd", "ssa2vir", "main.go")
    if not os.path.exists(SSA2VIR) or os.path.getmtime(SSA2VIR) < os.path.getmtime(src):
        common.sh(["go", "build", "-o", SSA2VIR, "./cmd/ssa2vir"], cwd=common.VERIF)


def harness_files(names):
    out = [os.path.join(common.VERIF, "harness", "zz_verif_api.go"), os.path.join(common.VERIF, "harness", "zz_verif_f64.go")]
    for n in names:
        p = os.path.join(common.VERIF, "harness", n)
        if p not in out:
            out.append(p)
    return out


def lower(files, entries, stop=None, stopfn=None, scale=None, tags=None, allpkg=False):
    """returns (Prog, info dict). Regenerated from /repo's working tree on every call."""
    ensure_tool()
    d = common.scratch("verif-vir-")
    out = os.path.join(d, "prog.json")
    cmd = [SSA2VIR, "-repo", common.REPO, "-overlay", ",".join(files), "-entry", ",".join(entries),
           "-stop", ",".join(stop if stop is not None else DEFAULT_STOP), "-out", out]
    if stopfn:
        cmd += ["-stopfn", ",".join(stopfn)]
    sdir = os.path.join(d, "scaled")
    if scale:
        os.makedirs(sdir, exist_ok=True)
        cmd += ["-scale", ",".join("%s=%s" % kv for kv in scale.items()), "-scaledout", sdir]
    if tags:
        cmd += ["-tags", tags]
    if allpkg:
        cmd += ["-allpkg"]
    t0 = time.time()
    r = common.sh(cmd, cwd=common.VERIF)
    prog = Prog(out)
    prog.path = out
    prog.scaled_files = {f: os.path.join(sdir, f) for f in os.listdir(sdir)} if scale else {}
    info = {"lower_s": round(time.time() - t0, 2), "msg": r.stdout.strip().splitlines()[-1] if r.stdout.strip() else ""}
    return prog, info


class HarnessResult:
    def __init__(self):
        self.entry = None
        self.paths = 0
        self.steps = 0
        self.queries = 0
        self.nontrivial = 0
        self.solver_s = 0.0
        self.wall_s = 0.0
        self.violations = []   # dicts
        self.unknowns = []
        self.reach = {}
        self.funcs = {}
        self.stubs = []
        self.error = None
        self.sites = 0
        self.choices = None
        self.witnesses = []


def run_entry(prog_path, entry, opts, intr_factory=None):
    """run one harness entry in this process"""
    res = HarnessResult()
    res.entry = entry
    res.choices = opts.get("choices")
    t0 = time.time()
    try:
        prog = Prog(prog_path) if isinstance(prog_path, str) else prog_path
        intr = (intr_factory or Intrinsics)()
        eng = Engine(prog, intr, opts)
        eng.run_init()
        full = prog.main + "." + entry
        st = eng.start(full)
        eng.explore([st])
        res.paths = eng.paths
        res.steps = eng.steps
        res.queries = eng.queries
        res.nontrivial = eng.nontrivial
        res.solver_s = eng.solver_s
        res.reach = eng.reach
        res.funcs = dict(eng.funcs_used)
        res.stubs = sorted(intr.used)
        res.sites = len(eng.assert_sites)
        res.witnesses = [dict(w, entry=entry) for w in eng.witnesses]
        for ob in eng.violations:
            res.violations.append({"kind": ob.kind, "msg": ob.msg, "pos": ob.pos, "replay": ob.replay, "entry": entry,
                                   "reached": ob.reached})
        for ob in eng.unknowns:
            res.unknowns.append({"kind": ob.kind, "msg": ob.msg, "pos": ob.pos, "entry": entry})
    except EngineError as e:
        res.error = "engine: " + str(e)
    except Exception:
        res.error = "crash: " + traceback.format_exc()
    res.wall_s = time.time() - t0
    return res


def _worker(a):
    return run_entry(*a)


def run_many(prog, jobs, procs=None, intr_factory=None):
    """jobs: list of (entry, opts). Runs them on a process pool; returns list of HarnessResult in order."""
    procs = procs or min(16, max(1, len(jobs)))
    args = [(prog.path, e, o, intr_factory) for e, o in jobs]
    if procs == 1 or len(jobs) == 1:
        return [run_entry(*a) for a in args]
    with mp.get_context("fork").Pool(procs) as pool:
        return pool.map(_worker, args, chunksize=1)


# ---------------------------------------------------------------------------------------
REPLAY_TEST = '''package simdjson

import (
	"fmt"
	"testing"
)

func TestVerifReplay(t *testing.T) {
	verifVec = []uint64{%(vec)s}
	verifPos = 0
	for _, k := range []string{%(known)s} {
		verifKnown[k] = true
	}
	func() {
		defer func() {
			if r := recover(); r != nil {
				if _, ok := r.(verifStop); ok {
					return
				}
				fmt.Printf("VERIF-REPLAY: panic %%v\\n", r)
			}
		}()
		%(entry)s()
	}()
	if verifAssumeFail {
		fmt.Println("VERIF-REPLAY: assumption-failed")
		return
	}
	if verifFail != "" {
		fmt.Printf("VERIF-REPLAY: assert %%s\\n", verifFail)
		return
	}
	fmt.Println("VERIF-REPLAY: clean")
}
'''


REPLAY_PATCHES = {
    # stubs whose nondeterminism must follow the model during native replay: (repo file, regex, replacement)
    "memhash": ("parsed_serialize.go", r"func memHash\(data \[\]byte\) uint64 \{.*?\n\}\n",
                'func memHash(data []byte) uint64 { return nondetU64("memhash") }\n'),
    # U3 leaves the message bytes free: the replay routes both kernel wrappers to the native twin of the contract stub
    "kernelcontract": ("find_subroutines_amd64.go",
                       r"(func find_structural_bits_in_slice(?:_avx512)?\(buf \[\]byte[^{]*?\(processed uint64\) \{)\n.*?\n\}\n",
                       r"\1\n\treturn verifKernelContract(buf, prev_iter_ends_odd_backslash, prev_iter_inside_quote, error_mask, "
                       r"prev_iter_ends_pseudo_pred, indexes, index, carried, position, ndjson)\n}\n", 2),
}


def replay(files, violation, known=(), timeout=300, patches=(), scaled_files=None):
    """native replay of a counterexample. Returns (reproduced: bool, line: str)."""
    vec = ", ".join(str(v) for _, v in (violation["replay"] or []))
    src = REPLAY_TEST % {"vec": vec, "entry": violation["entry"], "known": ", ".join('"%s"' % k for k in known)}
    ov = {"zz_verif_replay_test.go": src}
    for f in files:
        ov[os.path.basename(f)] = open(f).read()
    import re
    for fn, path in (scaled_files or {}).items():
        ov[fn] = open(path).read()          # same constant scaling as in the encoding
    for pname in patches:
        fn, rx, repl = REPLAY_PATCHES[pname][:3]
        expect_n = REPLAY_PATCHES[pname][3] if len(REPLAY_PATCHES[pname]) > 3 else 1
        src = ov.get(fn) or open(os.path.join(common.REPO, fn)).read()
        new, n = re.subn(rx, repl, src, flags=re.S)
        if n != expect_n:
            return False, "replay patch %s matched %d times in %s" % (pname, n, fn)
        ov[fn] = new
    extra = ["-ldflags=-checklinkname=0"] if any("//go:linkname" in t for t in ov.values()) else []
    rc, out = common.go_test_overlay(ov, "^TestVerifReplay$", timeout=timeout, extra_args=extra)
    line = ""
    for l in out.splitlines():
        if l.startswith("VERIF-REPLAY:"):
            line = l
            break
    if not line:
        # a hang / fatal error (e.g. stack overflow, deadlock) also kills the test binary
        if "fatal error" in out or "panic:" in out or "timed out" in out:
            line = "VERIF-REPLAY: fatal " + " | ".join(x for x in out.splitlines() if "fatal error" in x or "panic:" in x)[:200]
        else:
            return False, "no replay line: " + out[-500:]
    kind = violation["kind"]
    if kind == "clean":
        return line.startswith("VERIF-REPLAY: clean"), line
    if kind == "assert":
        # the natively failing assertion may be an earlier one of the same harness (the model violates both): any failed
        # assertion or panic of the real code under the model's inputs is a reproduced violation; the native line is reported
        ok = line.startswith("VERIF-REPLAY: assert") or line.startswith("VERIF-REPLAY: panic") or line.startswith("VERIF-REPLAY: fatal")
    elif kind in ("panic", "block", "unwind"):
        ok = line.startswith("VERIF-REPLAY: panic") or line.startswith("VERIF-REPLAY: fatal")
    else:
        ok = False
    return ok, line


def probe_prefixes(prog, entry, opts, depth, intr_factory=None, deadline_s=None):
    """enumerate the distinct verifChoice prefixes of length `depth` (paths that make fewer choices are
    returned with their full, shorter choice list). Used to split one harness over worker processes."""
    o = dict(opts)
    o["probe_depth"] = depth
    o["stop_after_violations"] = 10 ** 9      # the probe must enumerate every prefix: never stop early
    if deadline_s:
        o["deadline_s"] = deadline_s
    intr = (intr_factory or Intrinsics)()
    eng = Engine(prog, intr, o)
    eng.keep_final = True
    eng.run_init()
    st = eng.start(prog.main + "." + entry)
    fin = eng.explore([st])
    for u in eng.unknowns:
        if u.kind in ("deadline", "steps"):
            raise EngineError("probe for work splitting did not complete: " + u.msg)
    out = [(tuple(p), False) for p in eng.probe_out]
    for f in fin:
        out.append((tuple(f.choices), True))      # complete path with fewer choices: run it exactly
    # a path that ends in a violated (or undecided) obligation before making `depth` choices is neither a completed path
    # nor a recorded prefix: it must get its own exact job, or the violation would be lost by the split
    cut = set(p for p, _ in out if len(p) >= depth)
    for ob in list(eng.violations) + list(eng.unknowns):
        s_ = getattr(ob, "st", None) or getattr(ob, "state", None)
        if s_ is not None and s_.status == "dead" and tuple(s_.choices) not in cut:
            out.append((tuple(s_.choices), True))
    seen = []
    for p in out:
        if p not in seen:
            seen.append(p)
    return seen
