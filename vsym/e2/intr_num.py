"""Intrinsics for the number lemma P2 (parseNumber): strconv as contracts (DESIGN §3.2.5, A.4).

ParseInt/ParseUint(s,10,64): nil <=> [+-]?[0-9]+ (no sign for ParseUint) and in range; value exact (128-bit arithmetic);
ErrRange <=> grammar ok, out of range; else ErrSyntax.
ParseFloat(s,64): err == nil <=> s matches Go's decimal float grammar (over the bytes parseNumber lets through) and the
value is finite; value = uninterpreted PF(s); overflow = uninterpreted PFinf(s). Correct rounding is trusted (stdlib).
"""
import z3
from .values import *
from .intrinsics import Intrinsics, PKG
from .engine import Forks, EngineError

MAXLIT = 80


def _isdigit(b):
    return z3.And(z3.UGE(b, 0x30), z3.ULE(b, 0x39))


class NumIntrinsics(Intrinsics):
    def _lit(self, eng, st, s, pos):
        bs = eng.slice_read_all(st, s, pos)
        return [bv(b, 8) for b in bs]

    def _pf_args(self, bs):
        if len(bs) > MAXLIT:
            raise EngineError("literal longer than modelled maximum")
        pad = [z3.BitVecVal(0, 8)] * (MAXLIT - len(bs))
        return [z3.BitVecVal(len(bs), 8)] + bs + pad

    def pf(self, bs):
        f = self.uf.get("PF")
        if f is None:
            f = z3.Function("PF", *([z3.BitVecSort(8)] * (MAXLIT + 1) + [z3.BitVecSort(64)]))
            self.uf["PF"] = f
            self.uf["PFinf"] = z3.Function("PFinf", *([z3.BitVecSort(8)] * (MAXLIT + 1) + [z3.BoolSort()]))
        a = self._pf_args(bs)
        return f(*a), self.uf["PFinf"](*a)

    def exact_int(self, bs):
        """(grammar_ok, neg, mag128, signed) for [+-]?[0-9]+ ; mag as 128-bit term (only ever used syntactically)"""
        n = len(bs)
        if n == 0:
            return z3.BoolVal(False), z3.BoolVal(False), z3.BitVecVal(0, 128), z3.BoolVal(False)
        neg = bs[0] == 0x2d
        plus = bs[0] == 0x2b
        signed_ = z3.Or(neg, plus)
        mag = z3.BitVecVal(0, 128)
        okd = []
        for i, b in enumerate(bs):
            d = z3.ZeroExt(120, b - 0x30)
            isd = _isdigit(b)
            if i == 0:
                mag = z3.If(isd, d, mag)
                okd.append(z3.Or(isd, signed_))
            else:
                mag = mag * 10 + d
                okd.append(isd)
        has_digit = z3.Or(z3.Not(signed_), z3.BoolVal(n >= 2))
        ok = z3.And(okd + [has_digit])
        return ok, neg, mag, signed_

    def mag_ge(self, bs, const):
        """magnitude of the decimal string bs (first byte may be a sign, then treated as digit 0) >= const, decided by
        digit-wise lexicographic comparison (no multiplication); only meaningful when the grammar is ok"""
        n = len(bs)
        cd = str(const)
        if len(cd) > n:
            return z3.BoolVal(False)
        cd = "0" * (n - len(cd)) + cd
        sign0 = z3.Or(bs[0] == 0x2d, bs[0] == 0x2b)
        ds = [z3.If(sign0, z3.BitVecVal(0x30, 8), bs[0])] + list(bs[1:])
        ge = z3.BoolVal(True)          # all equal so far => >=
        for i in range(n - 1, -1, -1):
            c = ord(cd[i])
            ge = z3.Or(z3.UGT(ds[i], c), z3.And(ds[i] == c, ge))
        return ge

    def float_grammar(self, bs):
        """Go decimal float grammar [+-]?(d+(.d*)?|.d+)([eE][+-]?d+)? as a branch-free DFA over symbolic bytes"""
        # states: 0 start,1 sign,2 int digits,3 dot after digits,4 frac digits,5 leading dot (needs digit),6 e,7 esign,8 exp digits,9 dead
        st = z3.BitVecVal(0, 4)

        def S(v):
            return z3.BitVecVal(v, 4)
        for b in bs:
            isd = _isdigit(b)
            sign = z3.Or(b == 0x2b, b == 0x2d)
            dot = b == 0x2e
            e = z3.Or(b == 0x65, b == 0x45)
            nxt = S(9)
            nxt = z3.If(z3.And(st == 0, sign), S(1), nxt)
            nxt = z3.If(z3.And(z3.Or(st == 0, st == 1, st == 2), isd), S(2), nxt)
            nxt = z3.If(z3.And(z3.Or(st == 0, st == 1), dot), S(5), nxt)
            nxt = z3.If(z3.And(st == 2, dot), S(3), nxt)
            nxt = z3.If(z3.And(z3.Or(st == 3, st == 4, st == 5), isd), S(4), nxt)
            nxt = z3.If(z3.And(z3.Or(st == 2, st == 3, st == 4), e), S(6), nxt)
            nxt = z3.If(z3.And(st == 6, sign), S(7), nxt)
            nxt = z3.If(z3.And(z3.Or(st == 6, st == 7, st == 8), isd), S(8), nxt)
            st = nxt
        return z3.Or(st == 2, st == 3, st == 4, st == 8)

    def _register(self):
        super()._register()
        reg = self.reg
        H = PKG + "."

        def err_named(name):
            return IfaceV("error:global", ErrV("global", name))

        def numerr(kind):
            # *strconv.NumError wrapping ErrRange / ErrSyntax
            return IfaceV("error:strconv.NumError", ErrV("strconv.NumError", "strconv.NumError:" + kind, err_named("strconv." + kind)))

        def parse_int_like(signed_ok):
            def h(eng, st, fr, args, ins):
                bs = self._lit(eng, st, args[0], ins.get("pos"))
                base = eng.need_int(st, args[1], ins.get("pos"), "base")
                bits = eng.need_int(st, args[2], ins.get("pos"), "bitSize")
                if base != 10 or bits != 64:
                    raise EngineError("ParseInt/ParseUint contract only for base 10, 64 bits")
                ok, neg, mag, sg = self.exact_int(bs)
                if not signed_ok:
                    ok = z3.And(ok, z3.Not(sg))
                    inrange = z3.Not(self.mag_ge(bs, 1 << 64))
                    val = z3.Extract(63, 0, mag)
                else:
                    inrange = z3.If(neg, z3.Not(self.mag_ge(bs, (1 << 63) + 1)), z3.Not(self.mag_ge(bs, 1 << 63)))
                    lo = z3.Extract(63, 0, mag)
                    val = z3.If(neg, -lo, lo)
                if len(bs) > 38:
                    raise EngineError("ParseInt/ParseUint contract: literal longer than 38 bytes (128-bit value term would wrap)")
                items = []
                outs = eng.branch(st, simp(ok))
                for s1, b in outs:
                    if not b:
                        items.append((s1, (0, numerr("ErrSyntax"))))
                        continue
                    for s2, r in eng.branch(s1, simp(inrange)):
                        if r:
                            items.append((s2, (simp(val), NILIFACE)))
                        else:
                            # stdlib returns the saturated value with ErrRange; callers here only look at the error
                            items.append((s2, (eng.fresh("saturated", 64), numerr("ErrRange"))))
                return Forks(items) if len(items) != 1 or items[0][0] is not st else items[0][1]
            return h
        self.table["strconv.ParseInt"] = parse_int_like(True)
        self.table["strconv.ParseUint"] = parse_int_like(False)

        @reg("strconv.ParseFloat")
        def parse_float(eng, st, fr, args, ins):
            bs = self._lit(eng, st, args[0], ins.get("pos"))
            g = simp(self.float_grammar(bs))
            val, inf = self.pf(bs)
            items = []
            for s1, b in eng.branch(st, g):
                if not b:
                    items.append((s1, (0, numerr("ErrSyntax"))))
                    continue
                for s2, r in eng.branch(s1, inf):
                    if r:
                        items.append((s2, (0x7ff0000000000000, numerr("ErrRange"))))
                    else:
                        items.append((s2, (val, NILIFACE)))
            return Forks(items) if len(items) != 1 or items[0][0] is not st else items[0][1]

        # ---- reference side helpers (declared in harness/zz_verif_p2.go) ----------------------------
        @reg(H + "verifRefExactInt")
        def ref_exact(eng, st, fr, args, ins):
            bs = self._lit(eng, st, args[0], ins.get("pos"))
            if len(bs) <= 38:
                ok, neg, mag, sg = self.exact_int(bs)
                lo = simp(z3.Extract(63, 0, mag))
            else:
                ok, neg, _, sg = self.exact_int(bs[:1])
                lo = 0          # only used when the value fits 64 bits, impossible without leading zeros beyond 38 digits... see below
                ok = None
            if ok is None:
                # long literals: grammar from the bytes, magnitude class by digit comparison; an exact 64-bit value is only
                # needed when it fits, which for > 38 digits requires >= 19 leading zeros: computed over the last 38 digits
                neg = bs[0] == 0x2d
                sg = z3.Or(neg, bs[0] == 0x2b)
                okd = [z3.Or(_isdigit(bs[0]), sg)] + [_isdigit(b) for b in bs[1:]]
                ok = z3.And(okd)
                tail = bs[-38:]
                _, _, mag, _ = self.exact_int([z3.BitVecVal(0x30, 8)] + list(tail[1:]) if False else list(tail))
                lo = simp(z3.Extract(63, 0, mag))
            fits_i64_pos = z3.Not(self.mag_ge(bs, 1 << 63))
            fits_i64_neg = z3.Not(self.mag_ge(bs, (1 << 63) + 1))
            fits_u64 = z3.Not(self.mag_ge(bs, 1 << 64))
            return (simp(ok), simp(neg), simp(fits_i64_pos), simp(fits_i64_neg), simp(fits_u64), lo)

        @reg(H + "verifRefPF")
        def ref_pf(eng, st, fr, args, ins):
            bs = self._lit(eng, st, args[0], ins.get("pos"))
            val, inf = self.pf(bs)
            return (val, inf)
