"""Intrinsics for the chunk-level lemmas (T6, Z1): number/string formatting callees become injective opaque
chunks, identical on the implementation and the reference side."""
import z3
from .values import *
from .intrinsics import Intrinsics, PKG
from .engine import Forks, EngineError


def _bytes_le(v, n):
    if type(v) is int:
        return [(v >> (8 * i)) & 0xff for i in range(n)]
    return [conc(z3.simplify(z3.Extract(8 * i + 7, 8 * i, v))) for i in range(n)]


class ChunkIntrinsics(Intrinsics):
    def go_stmt(self, eng, st, fr, callee, args, ins):
        """the S2 / zstd decoding goroutines of decBlock: third-party decoders, replaced by their assumed contract
        (either report an error or fill dst completely with some bytes; never panic)"""
        name = callee.name or ""
        if not name.startswith("(*%s.Serializer).decBlock$" % PKG):
            return None
        fn = eng.p.funcs.get(name)
        fv = {f["n"]: b for f, b in zip(fn["freevars"], callee.bindings)}
        pos = ins.get("pos")
        pperr = fv.get("f:dstErr")
        pdst = fv.get("f:dst")
        if pperr is None or pdst is None:
            raise EngineError("decBlock closure: unexpected free variables %s" % list(fv))
        perr = eng.deref(st, pperr, pos)
        dst = eng.deref(st, pdst, pos)
        self.used.add("contract:s2/zstd decoder (error or fill, never panic)")
        ok = eng.fresh_bool("decoder.ok")
        forks = []
        for s, b in eng.branch(st, ok):
            if b:
                n = eng.need_int(s, dst.len, pos, "decoder dst length")
                if n:
                    arr = eng.load_path(s.mem[dst.obj], dst.path, s, pos)
                    off = eng.need_int(s, dst.off, pos, "decoder dst offset")
                    arr = arr[:off] + tuple(eng.fresh("decoded", 8) for _ in range(n)) + arr[off + n:]
                    s.mem[dst.obj] = eng.store_path(s.mem[dst.obj], dst.path, arr, s, pos)
                eng.store(s, perr, NILIFACE, pos)
            else:
                eng.store(s, perr, self.new_err("decoder"), pos)
            if s is not st:
                forks.append(s)
        return forks if forks else []

    def _register(self):
        super()._register()
        reg = self.reg
        H = PKG + "."

        def append_chunk(eng, st, dst, chunk, ins):
            src = eng.mk_slice(st, chunk, label="chunk")
            return eng.bi_append(st, dst, src, ins.get("pos"), {"t": None})

        @reg("strconv.AppendInt")
        def append_int(eng, st, fr, args, ins):
            return append_chunk(eng, st, args[0], [0x01] + _bytes_le(args[1], 8), ins)

        @reg("strconv.AppendUint")
        def append_uint(eng, st, fr, args, ins):
            return append_chunk(eng, st, args[0], [0x02] + _bytes_le(args[1], 8), ins)

        @reg(H + "escapeBytes")
        def escape_bytes(eng, st, fr, args, ins):
            n = eng.need_int(st, args[1].len, ins.get("pos"), "escapeBytes length")
            if n == 0:
                return args[0] if args[0].obj is not None else eng.mk_slice(st, [], cap=0)
            return eng.bi_append(st, args[0], args[1], ins.get("pos"), {"t": None})

        @reg(H + "memHash")
        def mem_hash(eng, st, fr, args, ins):
            # the runtime hash is seeded per process: any function of the content is possible. Each call gets a
            # fresh (replayable) symbol; equal contents are constrained to hash equal (Ackermann expansion).
            bs = [bv(b, 8) for b in eng.slice_read_all(st, args[0], ins.get("pos"))]
            h = eng.fresh("memhash", 64)
            st.nondet.append(("memhash", h, 64))
            prev = st.notes.get("memhash", ())
            for pb, ph in prev:
                if len(pb) == len(bs):
                    same = z3.And([x == y for x, y in zip(pb, bs)]) if bs else z3.BoolVal(True)
                    st.pc.append(z3.Implies(same, ph == h))
            st.notes["memhash"] = prev + ((tuple(bs), h),)
            return h

        @reg(H + "appendFloat")
        def append_float(eng, st, fr, args, ins):
            f = args[1]
            F = eng.to_fp(f, 64)
            nonfinite = simp(z3.Or(z3.fpIsNaN(F), z3.fpIsInf(F)))
            outs = eng.branch(st, nonfinite)
            items = []
            for s, b in outs:
                if b:
                    items.append((s, (NILSLICE, self.new_err("appendFloat: INF or NaN"))))
                else:
                    items.append((s, (append_chunk(eng, s, args[0], [0x03] + _bytes_le(f, 8), ins), NILIFACE)))
            if len(items) == 1:
                return items[0][1]
            return Forks(items)
