"""Value representation for the Go-SSA symbolic executor.

ints   : python int (unsigned, already reduced mod 2^bits)  |  z3 BitVecRef of the Go width
bool   : python bool | z3 BoolRef
float  : like ints, holding the IEEE bits (float ops go through z3 FP and back)
struct : python tuple of field values      array: python tuple of element values
string : StrV     slice: SliceV     pointer: PtrV     interface: IfaceV
map    : MapV (object id)   chan: ChanV (object id)   func/closure: FuncV
"""
import z3

M = lambda bits: (1 << bits) - 1


def is_conc(v):
    return type(v) is int or type(v) is bool


def bv(v, bits):
    if type(v) is int:
        return z3.BitVecVal(v, bits)
    return v


def bl(v):
    if type(v) is bool:
        return z3.BoolVal(v)
    return v


def signed(v, bits):
    return v - (1 << bits) if v >> (bits - 1) else v


def simp(t):
    """simplify a z3 term; return python int/bool if it became a value"""
    if type(t) is int or type(t) is bool:
        return t
    t = z3.simplify(t)
    if z3.is_bv_value(t):
        return t.as_long()
    if z3.is_true(t):
        return True
    if z3.is_false(t):
        return False
    return t


def conc(t):
    """cheap: python value if t is syntactically a value, else t"""
    if type(t) is int or type(t) is bool:
        return t
    if z3.is_bv_value(t):
        return t.as_long()
    if z3.is_true(t):
        return True
    if z3.is_false(t):
        return False
    return t


class PtrV:
    __slots__ = ("obj", "path")

    def __init__(self, obj, path=()):
        self.obj = obj      # object id or None (nil)
        self.path = path    # tuple of python ints / z3 terms (element index)

    def __repr__(self):
        return "Ptr(%s,%s)" % (self.obj, list(self.path))

    def key(self):
        return (self.obj, tuple(p if type(p) is int else ("sym", p.get_id()) for p in self.path))


NILPTR = PtrV(None, ())


class SliceV:
    __slots__ = ("obj", "path", "off", "len", "cap")

    def __init__(self, obj, path, off, ln, cap):
        self.obj = obj      # backing object id (None = nil slice)
        self.path = path    # path inside the object to the backing *array* value
        self.off = off      # element offset into the backing array (int | bv64)
        self.len = ln
        self.cap = cap

    def __repr__(self):
        return "Slice(%s%s,+%s,len=%s,cap=%s)" % (self.obj, list(self.path), self.off, self.len, self.cap)


NILSLICE = SliceV(None, (), 0, 0, 0)


class StrV:
    __slots__ = ("obj", "path", "off", "len")

    def __init__(self, obj, path, off, ln):
        self.obj = obj
        self.path = path
        self.off = off
        self.len = ln

    def __repr__(self):
        return "Str(%s%s,+%s,len=%s)" % (self.obj, list(self.path), self.off, self.len)


EMPTYSTR = StrV(None, (), 0, 0)


class IfaceV:
    __slots__ = ("tid", "val")

    def __init__(self, tid, val):
        self.tid = tid      # dynamic type id (string) or None for nil interface
        self.val = val

    def __repr__(self):
        return "Iface(%s,%r)" % (self.tid, self.val)


NILIFACE = IfaceV(None, None)


class ErrV:
    """opaque error payload created by an intrinsic (errors.New, fmt.Errorf, strconv...)"""
    __slots__ = ("kind", "ident", "wraps")

    def __init__(self, kind, ident, wraps=None):
        self.kind = kind
        self.ident = ident
        self.wraps = wraps

    def __repr__(self):
        return "Err(%s,%s)" % (self.kind, self.ident)


class MapV:
    __slots__ = ("obj",)

    def __init__(self, obj):
        self.obj = obj

    def __repr__(self):
        return "Map(%s)" % self.obj


class ChanV:
    __slots__ = ("obj",)

    def __init__(self, obj):
        self.obj = obj

    def __repr__(self):
        return "Chan(%s)" % self.obj


class FuncV:
    __slots__ = ("name", "bindings")

    def __init__(self, name, bindings=()):
        self.name = name
        self.bindings = bindings

    def __repr__(self):
        return "Func(%s)" % self.name


class ChanState:
    __slots__ = ("cap", "queue", "closed")

    def __init__(self, cap, queue=(), closed=False):
        self.cap = cap
        self.queue = queue
        self.closed = closed


class RangeIter:
    __slots__ = ("kind", "x", "pos")

    def __init__(self, kind, x, pos):
        self.kind = kind
        self.x = x
        self.pos = pos
