"""E2: symbolic executor for the VIR (lowered go/ssa) produced by cmd/ssa2vir.

Explicit-frame interpreter, worklist of states, path forking with an incremental solver whose
assertion stack follows the current state's path condition. Every implicit Go run-time check
(index, slice bounds, nil dereference, division by zero, explicit panic, blocking channel op
that can never complete, unwinding bound) is an obligation.
"""
import json, time, sys
import z3
from .values import *

sys.setrecursionlimit(20000)


class EngineError(Exception):
    pass


class Prog:
    def __init__(self, path):
        with open(path) as f:
            d = json.load(f)
        self.funcs = d["funcs"]
        self.types = d["types"]
        self.globals = d["globals"]
        self.entries = d["entries"]
        self.main = d["main"]
        self._zero = {}
        for f in self.funcs.values():
            for b in f["blocks"]:
                b["ninstr"] = len(b["ins"])
        self.by_s = {t["s"]: tid for tid, t in self.types.items() if "s" in t}

    def T(self, tid):
        return self.types[tid]

    def bits(self, tid):
        t = self.types[tid]
        k = t["k"]
        if k in ("int", "float"):
            return t["bits"]
        if k == "unsafeptr":
            return 64
        raise EngineError("bits of " + str(t))

    def zero(self, tid):
        z = self._zero.get(tid)
        if z is not None or tid in self._zero:
            return z
        t = self.types[tid]
        k = t["k"]
        if k in ("int", "float"):
            z = 0
        elif k == "bool":
            z = False
        elif k == "string":
            z = EMPTYSTR
        elif k in ("ptr", "unsafeptr"):
            z = NILPTR
        elif k == "slice":
            z = NILSLICE
        elif k == "struct":
            z = tuple(self.zero(f["t"]) for f in t["fields"])
        elif k == "array":
            z = (self.zero(t["elem"]),) * t["len"]
        elif k == "iface":
            z = NILIFACE
        elif k == "map":
            z = MapV(None)
        elif k == "chan":
            z = ChanV(None)
        elif k == "func":
            z = FuncV(None)
        elif k == "tuple":
            z = tuple(self.zero(e) for e in t["elems"])
        else:
            raise EngineError("zero of " + str(t))
        self._zero[tid] = z
        return z


class Frame:
    __slots__ = ("fn", "blk", "ip", "env", "prev", "defers", "dest", "owner", "iters", "tag")

    def __init__(self, fn, env, dest, owner):
        self.fn = fn
        self.blk = 0
        self.ip = 0
        self.env = env
        self.prev = -1
        self.defers = ()
        self.dest = dest
        self.owner = owner
        self.iters = None   # back edges taken in this activation, per target block
        self.tag = None

    def copy(self, owner):
        f = Frame(self.fn, dict(self.env), self.dest, owner)
        f.blk = self.blk
        f.ip = self.ip
        f.prev = self.prev
        f.defers = self.defers
        f.iters = dict(self.iters) if self.iters else None
        f.tag = self.tag
        return f


class State:
    _n = 0

    def __init__(self):
        State._n += 1
        self.id = State._n
        self.mem = {}
        self.frames = []
        self.pc = []          # list of z3 Bool
        self.nondet = []      # (name, term, bits) in call order
        self.nobj = 0
        self.status = "run"   # run | done | panic | dead
        self.info = None
        self.steps = 0
        self.reached = []
        self.notes = {}
        self.choices = ()
        self.otype = {}

    def fork(self):
        s = State()
        s.mem = dict(self.mem)
        for f in self.frames:
            f.owner = 0          # shared from now on: both sides copy before writing
        s.frames = list(self.frames)
        s.pc = list(self.pc)
        s.nondet = list(self.nondet)
        s.nobj = self.nobj
        s.steps = self.steps
        s.reached = list(self.reached)
        s.notes = dict(self.notes)
        s.choices = self.choices
        s.otype = dict(self.otype)
        return s

    def top(self):
        f = self.frames[-1]
        if f.owner != self.id:
            f = f.copy(self.id)
            self.frames[-1] = f
        return f

    def alloc(self, val, label=None, typ=None):
        self.nobj += 1
        oid = "o%d" % self.nobj if label is None else "%s#%d" % (label, self.nobj)
        self.mem[oid] = val
        if typ is not None:
            self.otype[oid] = typ
        return oid


class Obligation:
    def __init__(self, kind, msg, pos, state, model_vals, verdict):
        self.kind = kind          # assert | panic | unwind | block
        self.msg = msg
        self.pos = pos
        self.verdict = verdict    # violated | unknown
        self.replay = model_vals  # list of (name, value) nondet values in call order
        self.path = state.id
        self.reached = list(state.reached)
        self.st = state           # (probe for work splitting: a path that dies here needs its own job)


class Engine:
    def __init__(self, prog, intrinsics, opts=None):
        self.p = prog
        self.intr = intrinsics
        self.opts = opts or {}
        self.solver = z3.Solver()
        self.solver.set("timeout", int(self.opts.get("timeout_ms", 60000)))
        self.sstack = []          # conjuncts currently pushed
        self.oneshot = bool(self.opts.get("oneshot", False))
        self.timeout_ms = int(self.opts.get("timeout_ms", 60000))
        self.last_solver = self.solver
        self.queries = 0
        self.nontrivial = 0
        self.solver_s = 0.0
        self.steps = 0
        self.paths = 0
        self.violations = []
        self.unknowns = []
        self.reach = {}
        self.final_states = []
        self.max_iters = int(self.opts.get("unwind", 4096))
        self.max_steps = int(self.opts.get("max_steps", 200_000_000))
        self.known = set(self.opts.get("known_findings", ()))
        self.choice_fix = dict(self.opts.get("choices", {}))
        self.keep_final = self.opts.get("keep_final", False)
        self.globals_obj = {}
        self.sym_counter = 0
        self.trace = self.opts.get("trace", False)
        self.stop_after_violations = int(self.opts.get("stop_after_violations", 3))
        self.funcs_used = {}
        self.t_start = time.time()
        self.deadline = self.t_start + float(self.opts.get("deadline_s", 1e9))
        self.init_state = None
        self.const_str = {}
        self.assert_sites = {}
        self.bcache = {}
        self.bkeep = []
        self.merge_funcs = set(self.opts.get('merge_funcs', ()))
        self.merge_depth = 0
        self.merges = 0
        self.feas_unknown = 0
        self.witnesses = []
        self.want_witnesses = int(self.opts.get('witnesses', 1))
        self.choice_prefix = list(self.opts.get('choice_prefix', ()))
        self.probe_depth = self.opts.get('probe_depth')
        self.probe_out = []

    # ------------------------------------------------------------------ solver
    def _sync(self, pc):
        ss = self.sstack
        n = 0
        m = min(len(ss), len(pc))
        while n < m and ss[n] is pc[n]:
            n += 1
        while len(ss) > n:
            self.solver.pop()
            ss.pop()
        for c in pc[n:]:
            self.solver.push()
            self.solver.add(c)
            ss.append(c)

    def check(self, st, extra=None, nontrivial=False):
        """returns 'sat' | 'unsat' | 'unknown' for pc ∧ extra"""
        t0 = time.time()
        self.queries += 1
        if nontrivial:
            self.nontrivial += 1
        if self.oneshot:
            # a fresh solver per query lets z3 pick its tactic-based (bit-blasting) procedure instead of the
            # incremental core, which is much slower on wide bit-vector arithmetic
            sol = z3.Solver()
            sol.set("timeout", self.timeout_ms)
            for c in st.pc:
                sol.add(c)
            if extra is not None:
                sol.add(extra)
            r = sol.check()
            self.last_solver = sol
        else:
            self._sync(st.pc)
            if extra is None:
                r = self.solver.check()
            else:
                r = self.solver.check(extra)
            self.last_solver = self.solver
        self.solver_s += time.time() - t0
        if r == z3.sat:
            return "sat"
        if r == z3.unsat:
            return "unsat"
        return "unknown"

    def model_vals(self, st):
        m = self.last_solver.model()
        out = []
        for name, term, bits in st.nondet:
            if type(term) in (int, bool):
                v = int(term)
            else:
                mv = m.eval(term, model_completion=True)
                if z3.is_bv_value(mv):
                    v = mv.as_long()
                elif z3.is_true(mv):
                    v = 1
                elif z3.is_false(mv):
                    v = 0
                else:
                    v = 0
            out.append((name, v))
        return out

    def fresh(self, name, bits):
        self.sym_counter += 1
        return z3.BitVec("%s!%d" % (name, self.sym_counter), bits)

    def fresh_bool(self, name):
        self.sym_counter += 1
        return z3.Bool("%s!%d" % (name, self.sym_counter))

    # ------------------------------------------------------------------ obligations
    def oblige(self, st, cond, kind, msg, pos=None):
        """cond must hold on this path. Returns True if execution may continue (cond assumed)."""
        cond = simp(cond)
        if cond is True:
            return True
        site = (kind, msg if kind == "assert" else pos)
        self.assert_sites[site] = self.assert_sites.get(site, 0) + 1
        if cond is False:
            r = "sat"
            self._sync(st.pc)
            rr = self.check(st, None, True)
            if rr == "unsat":
                st.status = "dead"
                return False
            if rr == "unknown":
                r = "unknown"
        else:
            r = self.check(st, z3.Not(cond), True)
        if r == "unsat":
            st.pc.append(cond)
            return True
        if r == "sat" and kind != "unwind":
            ob = Obligation(kind, msg, pos, st, self.model_vals(st), "violated")
            self.violations.append(ob)
        else:
            ob = Obligation(kind, msg, pos, st, None, "unknown")
            self.unknowns.append(ob)
        if cond is False:
            st.status = "dead"
            return False
        st.pc.append(cond)
        r2 = self.check(st)
        if r2 != "sat":
            st.status = "dead"
            return False
        return True

    def assume(self, st, cond):
        cond = simp(cond)
        if cond is True:
            return True
        if cond is False:
            st.status = "dead"
            return False
        st.pc.append(cond)
        r = self.check(st)
        if r == "unsat":
            st.status = "dead"
            return False
        if r == "unknown":
            self.unknowns.append(Obligation("assume", "feasibility unknown", None, st, None, "unknown"))
        return True

    def branch(self, st, cond):
        """returns list of (state, bool) feasible successors for a 2-way branch"""
        cond = conc(cond)
        if type(cond) is bool:
            return [(st, cond)]
        cond = simp(cond)
        if type(cond) is bool:
            return [(st, cond)]
        if (self.merge_depth and self.opts.get("lazy_feasibility", False)) or self.opts.get("lazy_all", False):
            # inside a merge-enabled function feasibility checks are pure overhead: both successors are explored and
            # meet again at the next merge point (an infeasible one contributes an unsatisfiable guard)
            s2 = st.fork()
            st.pc.append(cond)
            s2.pc.append(z3.Not(cond))
            return [(st, True), (s2, False)]
        cid = cond.get_id()
        ent = self.bcache.get(cid)
        if ent is not None:
            pc = st.pc
            for pref, res in ent:
                n = len(pref)
                if n <= len(pc) and all(pc[i] is pref[i] for i in range(n)):
                    return [(st, res)]
        r1 = self.check(st, cond)
        if r1 == "unsat":
            self.bcache.setdefault(cid, []).append((tuple(st.pc), False))
            self.bkeep.append(cond)
            return [(st, False)]
        r2 = self.check(st, z3.Not(cond))
        if r2 == "unsat":
            self.bcache.setdefault(cid, []).append((tuple(st.pc), True))
            self.bkeep.append(cond)
            return [(st, True)]
        # an undecided feasibility check keeps both successors: exploring an infeasible path is sound (a violation found on it
        # cannot replay); it is counted, not reported as inconclusive
        if r1 == "unknown" or r2 == "unknown":
            self.feas_unknown += 1
        s2 = st.fork()
        st.pc.append(cond)
        s2.pc.append(z3.Not(cond))
        return [(st, True), (s2, False)]

    def concretize(self, st, term, what="value"):
        """term must be used as a concrete python int: return int if unique under pc else None"""
        term = simp(term)
        if type(term) is int:
            return term
        key = ("cz", term.get_id(), len(st.pc))
        r = self.check(st)
        if r != "sat":
            return None
        v = self.last_solver.model().eval(term, model_completion=True).as_long()
        r = self.check(st, term != v)
        if r == "unsat":
            return v
        return None

    def fork_values(self, st, fr, term, pos, what, bits=64):
        """case split: re-execute the current instruction once per feasible value of term (<= 40 values)"""
        vals = self.enumerate_values(st, term, 40)
        if vals is None:
            raise EngineError("%s: symbolic with more than 40 feasible values at %s" % (what, pos))
        if not vals:
            st.status = "dead"
            return []
        fr.ip -= 1
        forks = []
        for i, v in enumerate(vals):
            s2 = st if i == len(vals) - 1 else st.fork()
            s2.pc.append(bv(term, bits) == v)
            if s2 is not st:
                s2.top().ip = fr.ip
                forks.append(s2)
        return forks

    def enumerate_values(self, st, term, limit):
        vals = []
        self._sync(st.pc)
        extra = []
        while True:
            self.queries += 1
            r = self.solver.check(*extra) if extra else self.solver.check()
            if r == z3.unsat:
                return vals
            if r != z3.sat or len(vals) >= limit:
                return None
            v = self.solver.model().eval(term, model_completion=True).as_long()
            vals.append(v)
            extra.append(term != v)

    # ------------------------------------------------------------------ memory
    def load_path(self, val, path, st, pos, bits=None):
        for p in path:
            if type(p) is int:
                val = val[p]
            else:
                val = self.sym_index(val, p, st, pos, bits)
        return val

    def sym_index(self, arr, idx, st, pos, bits=None):
        """read arr[idx] with symbolic idx (bounds already obliged)."""
        n = len(arr)
        first = arr[0]
        if type(first) in (int, bool) or z3.is_expr(first):
            # scalar elements: group equal values to keep the ladder short
            groups = {}
            order = []
            for i, e in enumerate(arr):
                k = e if type(e) in (int, bool) else ("t", e.get_id())
                if k not in groups:
                    groups[k] = (e, [])
                    order.append(k)
                groups[k][1].append(i)
            if len(order) == 1:
                return first
            order.sort(key=lambda k: len(groups[k][1]))
            default = groups[order[-1]][0]
            isbool = type(first) is bool or (z3.is_expr(first) and z3.is_bool(first))
            ib = idx.size()
            res = bl(default) if isbool else self._lift(default, arr, bits)
            for k in order[:-1]:
                e, idxs = groups[k]
                c = z3.Or([idx == i for i in idxs]) if len(idxs) > 1 else idx == idxs[0]
                res = z3.If(c, bl(e) if isbool else self._lift(e, arr, bits), res)
            return res
        # aggregate elements: build elementwise
        if type(first) is tuple:
            return tuple(self.sym_index(tuple(a[j] for a in arr), idx, st, pos, None) for j in range(len(first)))
        c = self.concretize(st, idx)
        if c is None:
            raise EngineError("symbolic index into non-scalar array at %s" % pos)
        return arr[c]

    def _lift(self, e, arr, bits=None):
        if type(e) is int:
            if bits is not None:
                return z3.BitVecVal(e, bits)
            for x in arr:
                if z3.is_expr(x):
                    return z3.BitVecVal(e, x.size())
            raise EngineError("cannot infer width")
        return e

    def _lift_w(self, e, bits):
        return z3.BitVecVal(e, bits) if type(e) is int else e

    def store_path(self, val, path, new, st, pos, bits=None):
        if not path:
            return new
        p = path[0]
        if type(p) is int:
            return val[:p] + (self.store_path(val[p], path[1:], new, st, pos, bits),) + val[p + 1:]
        # symbolic element index: every element becomes ite
        if len(path) != 1:
            c = self.concretize(st, p)
            if c is None:
                raise EngineError("symbolic index on non-leaf store path at %s" % pos)
            return val[:c] + (self.store_path(val[c], path[1:], new, st, pos, bits),) + val[c + 1:]
        out = []
        for i, old in enumerate(val):
            out.append(self.ite_val(p == i, new, old, bits))
        return tuple(out)

    def ite_val(self, c, a, b, bits=None):
        """if c then a else b over (possibly aggregate) values"""
        if a is b:
            return a
        ta = type(a)
        if ta is tuple:
            return tuple(self.ite_val(c, x, y, bits) for x, y in zip(a, b))
        if ta is bool or (z3.is_expr(a) and z3.is_bool(a)) or type(b) is bool:
            if type(a) is bool and type(b) is bool and a == b:
                return a
            return z3.If(c, bl(a), bl(b))
        if ta is int or z3.is_expr(a):
            if ta is int and type(b) is int:
                if a == b:
                    return a
                if bits is None:
                    raise EngineError("ite of ints without width")
                return z3.If(c, z3.BitVecVal(a, bits), z3.BitVecVal(b, bits))
            w = a.size() if ta is not int else b.size()
            return z3.If(c, self._lift_w(a, w), self._lift_w(b, w))
        if isinstance(a, SliceV) and isinstance(b, SliceV) and a.obj == b.obj and a.path == b.path:
            return SliceV(a.obj, a.path, self.ite_val(c, a.off, b.off, 64), self.ite_val(c, a.len, b.len, 64),
                          self.ite_val(c, a.cap, b.cap, 64))
        if isinstance(a, StrV) and isinstance(b, StrV) and a.obj == b.obj and a.path == b.path:
            return StrV(a.obj, a.path, self.ite_val(c, a.off, b.off, 64), self.ite_val(c, a.len, b.len, 64))
        if isinstance(a, PtrV) and isinstance(b, PtrV) and a.obj == b.obj and len(a.path) == len(b.path):
            return PtrV(a.obj, tuple(self.ite_val(c, x, y, 64) for x, y in zip(a.path, b.path)))
        raise EngineError("cannot form ite over %r / %r" % (a, b))

    def deref(self, st, ptr, pos, bits=None):
        if ptr.obj is None:
            self.oblige(st, False, "panic", "nil pointer dereference", pos)
            return None
        return self.load_path(st.mem[ptr.obj], ptr.path, st, pos, bits)

    def store(self, st, ptr, val, pos, bits=None):
        if ptr.obj is None:
            self.oblige(st, False, "panic", "nil pointer dereference (store)", pos)
            return
        st.mem[ptr.obj] = self.store_path(st.mem[ptr.obj], ptr.path, val, st, pos, bits)

    # slices ------------------------------------------------------------------------
    def slice_elem_ptr(self, st, s, idx, pos, it_signed=True):
        """pointer to s[idx] with bounds obligation"""
        ok = self.in_range(idx, s.len, it_signed)
        if not self.oblige(st, ok, "panic", "index out of range", pos):
            return None
        if s.obj is None:
            raise EngineError("index of nil slice passed bounds check at %s" % pos)
        return PtrV(s.obj, s.path + (self.add64(s.off, idx),))

    def add64(self, a, b):
        if type(a) is int and type(b) is int:
            return (a + b) & M(64)
        if type(a) is int and a == 0:
            return b
        if type(b) is int and b == 0:
            return a
        return conc(z3.simplify(bv(a, 64) + bv(b, 64)))

    def in_range(self, idx, ln, signed_idx=True):
        """0 <= idx < ln  (idx, ln 64-bit)"""
        if type(idx) is int and type(ln) is int:
            return idx < ln      # both unsigned-normalised; negative idx is huge
        return z3.ULT(bv(idx, 64), bv(ln, 64))

    def slice_read_all(self, st, s, pos):
        """list of element values of slice s (len must be concrete)"""
        n = self.need_int(st, s.len, pos, "slice length")
        if n == 0:
            return []
        arr = self.load_path(st.mem[s.obj], s.path, st, pos)
        off = s.off
        if type(off) is not int:
            c = self.concretize(st, off)
            if c is None:
                return [self.sym_index(arr, z3.simplify(bv(off, 64) + i), st, pos) for i in range(n)]
            off = c
        return list(arr[off:off + n])

    def need_int(self, st, v, pos, what):
        if type(v) is int:
            return v
        c = self.concretize(st, v)
        if c is None:
            raise EngineError("%s must be concrete at %s (got %s)" % (what, pos, v))
        return c

    def new_array(self, st, elems, label=None):
        return st.alloc(tuple(elems), label)

    def mk_slice(self, st, elems, cap=None, label=None):
        n = len(elems)
        if cap is None:
            cap = n
        oid = st.alloc(tuple(elems), label)
        return SliceV(oid, (), 0, n, cap)

    def const_string(self, st, bs):
        key = bytes(bs)
        oid = "str:" + key.hex()
        if oid not in st.mem:
            st.mem[oid] = tuple(bs)
        return StrV(oid, (), 0, len(bs))

    # ------------------------------------------------------------------ operands
    def val(self, st, fr, o):
        k = o["k"]
        if k == "r":
            try:
                return fr.env[o["n"]]
            except KeyError:
                raise EngineError("undefined register %s in %s" % (o["n"], fr.fn["name"]))
        if k == "c":
            return self.const(st, o)
        if k == "g":
            return PtrV(self.global_obj(st, o["n"]), ())
        if k == "fn":
            return FuncV(o["n"])
        if k == "bi":
            return FuncV("builtin:" + o["n"])
        raise EngineError("operand " + str(o))

    def const(self, st, o):
        t = self.p.types[o["t"]]
        v = o["v"]
        k = t["k"]
        if v is None:
            return self.p.zero(o["t"])
        if k == "int":
            return int(v) & M(t["bits"])
        if k == "float":
            return int(v)
        if k == "bool":
            return bool(v)
        if k == "string":
            return self.const_string(st, v)
        raise EngineError("const " + str(o))

    def global_obj(self, st, name):
        oid = "g:" + name
        if oid not in st.mem:
            g = self.p.globals.get(name)
            if g is None:
                raise EngineError("unknown global " + name)
            z = self.intr.foreign_global(self, st, name, g)
            st.mem[oid] = z
            st.otype[oid] = g["t"]
        return oid

    # ------------------------------------------------------------------ running
    def start(self, fname, args=()):
        st = State()
        if self.init_state is not None:
            st.mem = dict(self.init_state.mem)
            st.nobj = self.init_state.nobj
            st.otype = dict(self.init_state.otype)
        self.push_call(st, fname, list(args), None)
        return st

    def run_init(self):
        """execute the main package's init concretely; result becomes the template memory"""
        name = self.p.main + ".init"
        saved_iters, self.max_iters = self.max_iters, 1 << 20      # init is concrete: no unwinding bound needed
        st = State()
        # init guard must be false
        self.push_call(st, name, [], None)
        done = self.explore([st], init=True)
        if len(done) != 1 or done[0].status != "done":
            raise EngineError("package init did not run to a single completion (%d states, %s; obligations failed: %s)" % (
                len(done), [d.status + ":" + str(d.info) for d in done],
                [(o.kind, o.msg, o.pos) for o in (self.violations + self.unknowns)[:4]]))
        self.max_iters = saved_iters
        self.init_state = done[0]
        self.init_state.frames = []

    def push_call(self, st, fname, args, dest):
        fn = self.p.funcs.get(fname)
        if fn is None:
            raise EngineError("call to function without lowered body: " + fname)
        self.funcs_used[fname] = fn["ninstr"]
        env = {}
        ps = fn["params"]
        if len(ps) != len(args):
            raise EngineError("arity mismatch calling %s: %d vs %d" % (fname, len(ps), len(args)))
        for p, a in zip(ps, args):
            env[p["n"]] = a
        fr = Frame(fn, env, dest, st.id)
        st.frames.append(fr)
        if len(st.frames) > int(self.opts.get("max_depth", 200)):
            self.oblige(st, False, "unwind", "call depth bound exceeded in " + fname, fn.get("pos"))
            st.status = "dead"
        return fr

    def explore(self, states, init=False):
        """depth-first exploration; returns finished states"""
        work = list(states)
        finished = []
        while work:
            st = work.pop()
            try:
                forks = self.run_state(st)
            except EngineError as e:
                fr = st.frames[-1] if st.frames else None
                where = ""
                if fr is not None:
                    b = fr.fn["blocks"][fr.blk]
                    ins = b["ins"][min(fr.ip, len(b["ins"]) - 1)]
                    where = " in %s at %s" % (fr.fn["name"], ins.get("pos"))
                raise EngineError(str(e) + where)
            for f in forks:
                work.append(f)
            if st.status == "run":
                work.append(st)
            if st.status == "done" and not init and len(self.witnesses) < self.want_witnesses and not self.probe_depth:
                # translator validation: a concrete input that drives the real code down this completed path
                saved = self.timeout_ms
                self.timeout_ms = 2000
                self.solver.set("timeout", 2000)
                try:
                    if self.check(st) == "sat":
                        self.witnesses.append({"replay": self.model_vals(st), "reached": list(st.reached)})
                    else:
                        self.want_witnesses = 0      # too expensive here: do not try again in this job
                finally:
                    self.timeout_ms = saved
                    self.solver.set("timeout", saved)
            if st.status in ("done", "panic"):
                self.paths += 1
                for r in st.reached:
                    self.reach[r] = self.reach.get(r, 0) + 1
                if self.keep_final or init:
                    finished.append(st)
            elif st.status == "dead":
                pass
            if len(self.violations) >= self.stop_after_violations:
                break
            if time.time() > self.deadline:
                self.unknowns.append(Obligation("deadline", "exploration deadline hit", None, st, None, "unknown"))
                break
        return finished

    def run_state(self, st):
        """run st until it finishes or forks; returns the list of new sibling states"""
        while st.status == "run":
            if not st.frames:
                st.status = "done"
                break
            fr = st.top()
            blk = fr.fn["blocks"][fr.blk]
            if fr.ip >= blk["ninstr"]:
                raise EngineError("fell off block")
            ins = blk["ins"][fr.ip]
            if fr.tag == "head" and ins["op"] != "phi":
                fr.tag = None
                if self.merge_depth:
                    st.status = "parked"
                    return []
            fr.ip += 1
            self.steps += 1
            st.steps += 1
            if self.steps > self.max_steps:
                self.unknowns.append(Obligation("steps", "step budget exhausted", None, st, None, "unknown"))
                st.status = "dead"
                break
            h = getattr(self, "op_" + ins["op"], None)
            if h is None:
                raise EngineError("unsupported instruction " + ins["op"] + " " + str(ins.get("s")))
            if self.trace:
                print("   " * (len(st.frames) - 1), fr.fn["name"].split(".")[-1], fr.blk, ins["op"], ins.get("r"), ins.get("pos"))
            forks = h(st, fr, ins)
            if forks:
                return forks
        return []

    # ------------------------------------------------------------------ control
    def goto(self, st, fr, target):
        if target <= fr.blk:
            if fr.iters is None:
                fr.iters = {}
            n = fr.iters.get(target, 0) + 1
            fr.iters[target] = n
            if n > self.max_iters:
                self.oblige(st, False, "unwind", "loop unwinding bound %d exceeded in %s" % (self.max_iters, fr.fn["name"]),
                            fr.fn.get("pos"))
                st.status = "dead"
                return
        if target <= fr.blk and fr.fn["name"] in self.merge_funcs:
            fr.tag = "head"         # park at the first non-phi instruction of the loop head (state merging)
        fr.prev = fr.blk
        fr.blk = target
        fr.ip = 0

    def op_jump(self, st, fr, ins):
        self.goto(st, fr, fr.fn["blocks"][fr.blk]["succs"][0])

    def op_if(self, st, fr, ins):
        c = self.val(st, fr, ins["cond"])
        succs = fr.fn["blocks"][fr.blk]["succs"]
        outs = self.branch(st, c)
        forks = []
        for s, b in outs:
            f = s.top()
            self.goto(s, f, succs[0] if b else succs[1])
            if s is not st:
                forks.append(s)
        return forks

    def op_phi(self, st, fr, ins):
        # all phis of a block are evaluated in parallel w.r.t. the incoming edge
        blk = fr.fn["blocks"][fr.blk]
        idx = blk["preds"].index(fr.prev)
        ip = fr.ip - 1
        vals = []
        while ip < blk["ninstr"] and blk["ins"][ip]["op"] == "phi":
            p = blk["ins"][ip]
            vals.append((p["r"], self.val(st, fr, p["edges"][idx])))
            ip += 1
        for r, v in vals:
            fr.env[r] = v
        fr.ip = ip

    def op_return(self, st, fr, ins):
        res = [self.val(st, fr, r) for r in ins["results"]]
        self.do_return(st, fr, res)

    def do_return(self, st, fr, res):
        st.frames.pop()
        dest = fr.dest
        if not st.frames:
            st.status = "done"
            st.info = res
            return
        if dest is None:
            return
        if callable(dest):
            dest(st, res)
            return
        caller = st.top()
        if len(res) == 1:
            caller.env[dest] = res[0]
        else:
            caller.env[dest] = tuple(res)

    def op_rundefers(self, st, fr, ins):
        if not fr.defers:
            return
        # run deferred calls in LIFO order: re-enter this instruction until the list is empty
        d = fr.defers[-1]
        fr.defers = fr.defers[:-1]
        fr.ip -= 1
        return self.do_call(st, fr, d[0], d[1], None, ins)

    def op_defer(self, st, fr, ins):
        call = ins["call"]
        callee, args = self.resolve_call(st, fr, call)
        fr.defers = fr.defers + ((callee, args),)

    def op_panic(self, st, fr, ins):
        x = self.val(st, fr, ins["x"])
        self.oblige(st, False, "panic", "explicit panic(%r)" % (x,), ins.get("pos"))
        st.status = "dead"

    # ------------------------------------------------------------------ calls
    def resolve_call(self, st, fr, call):
        mode = call["mode"]
        args = [self.val(st, fr, a) for a in call["args"]]
        if mode == "static":
            return FuncV(call["fn"]), args
        if mode == "builtin":
            return FuncV("builtin:" + call["fn"]), args
        if mode == "closure":
            return self.val(st, fr, call["value"]), args
        if mode == "invoke":
            recv = self.val(st, fr, call["recv"])
            if not isinstance(recv, IfaceV):
                raise EngineError("invoke on non-interface %r" % (recv,))
            if recv.tid is None:
                self.oblige(st, False, "panic", "method call on nil interface", None)
                st.status = "dead"
                return None, None
            m = self.intr.invoke(self, st, recv, call["method"])
            if m is not None:
                return m, [recv.val] + args
            t = self.p.types.get(recv.tid, {})
            impl = t.get("methods_impl", {}).get(call["method"])
            if impl is None:
                raise EngineError("no method %s on dynamic type %s" % (call["method"], t.get("s", recv.tid)))
            return FuncV(impl), [recv.val] + args
        raise EngineError("call mode " + mode)

    def op_call(self, st, fr, ins):
        callee, args = self.resolve_call(st, fr, ins["call"])
        if callee is None:
            return
        return self.do_call(st, fr, callee, args, ins.get("r"), ins)

    def op_go(self, st, fr, ins):
        callee, args = self.resolve_call(st, fr, ins["call"])
        if callee is None:
            return
        h = self.intr.go_stmt(self, st, fr, callee, args, ins)
        if h is not None:
            return h or None
        # default: run the goroutine to completion at the go statement (stated assumption)
        return self.do_call(st, fr, callee, args, None, ins)

    def do_call(self, st, fr, callee, args, dest, ins):
        name = callee.name
        if name is None:
            self.oblige(st, False, "panic", "call of nil func", ins.get("pos"))
            st.status = "dead"
            return
        if name.startswith("builtin:"):
            r = self.builtin(st, fr, name[8:], args, ins)
            if dest is not None:
                fr.env[dest] = r
            return
        h = self.intr.lookup(name)
        if h is not None:
            out = h(self, st, fr, args, ins)
            # intrinsic returns: value | Forks([...(state, value)])
            if isinstance(out, Forks):
                forks = []
                for s, v in out.items:
                    if dest is not None:
                        s.top().env[dest] = v
                    if s is not st:
                        forks.append(s)
                return forks
            if dest is not None and st.status == "run" and type(out).__name__ != "_Redirect":
                fr.env[dest] = out
            return
        if name in self.merge_funcs and not self.merge_depth:
            return self.call_merged(st, fr, callee, args, dest, ins)
        fn = self.p.funcs.get(name)
        if fn is None:
            if name.endswith(".init"):
                return      # init of a package that is not lowered (its globals are modelled by intrinsics)
            raise EngineError("no body and no intrinsic for " + name)
        nfr = self.push_call(st, name, list(args), dest)
        if callee.bindings:
            for fv, b in zip(fn["freevars"], callee.bindings):
                nfr.env[fv["n"]] = b

    # ------------------------------------------------------------------ state merging
    def call_merged(self, st, fr, callee, args, dest, ins):
        """run a merge-enabled function as a sub-exploration: states are parked at loop heads and merged per
        iteration; returns the states that returned from the function (as forks of st)."""
        name = callee.name
        depth = len(st.frames)
        nfr = self.push_call(st, name, list(args), dest)
        fn = self.p.funcs[name]
        if callee.bindings:
            for fv, b in zip(fn["freevars"], callee.bindings):
                nfr.env[fv["n"]] = b
        self.merge_depth += 1
        active = [st]
        returned = []
        try:
            while active:
                parked = {}
                while active:
                    s = active.pop()
                    while s.status == "run" and len(s.frames) > depth:
                        forks = self.run_until(s, depth)
                        active.extend(forks)
                    if s.status == "parked":
                        f = s.frames[-1]
                        key = (len(s.frames), f.fn["name"], f.blk, f.ip, tuple(sorted((f.iters or {}).items())))
                        parked.setdefault(key, []).append(s)
                    elif s.status == "run":
                        returned.append(s)
                    elif s.status in ("done", "panic"):
                        returned.append(s)
                for key, group in parked.items():
                    for m in self.merge_group(group):
                        m.status = "run"
                        active.append(m)
        finally:
            self.merge_depth -= 1
        if self.opts.get("merge_returns", True) and len(returned) > 1:
            live = [s for s in returned if s.status == "run"]
            rest = [s for s in returned if s.status != "run"]
            returned = self.merge_group(live) + rest
        if st not in returned:
            st.status = "dead"
        return [s for s in returned if s is not st]

    def run_until(self, st, depth):
        """like run_state but stops as soon as the frame stack is back to `depth`"""
        while st.status == "run" and len(st.frames) > depth:
            fr = st.top()
            blk = fr.fn["blocks"][fr.blk]
            ins = blk["ins"][fr.ip]
            if fr.tag == "head" and ins["op"] != "phi":
                fr.tag = None
                st.status = "parked"
                return []
            fr.ip += 1
            self.steps += 1
            st.steps += 1
            h = getattr(self, "op_" + ins["op"], None)
            if h is None:
                raise EngineError("unsupported instruction " + ins["op"])
            forks = h(st, fr, ins)
            if forks:
                return forks
        return []

    def merge_group(self, group):
        out = []
        for s in group:
            done = False
            for i, acc in enumerate(out):
                m = self.try_merge(acc, s)
                if m is not None:
                    out[i] = m
                    done = True
                    self.merges += 1
                    break
            if not done:
                out.append(s)
        return out

    def regtype(self, fn, reg):
        rt = fn.get("_regt")
        if rt is None:
            rt = {}
            for p in fn["params"] + fn["freevars"]:
                rt[p["n"]] = p["t"]
            for b in fn["blocks"]:
                for i in b["ins"]:
                    if "r" in i and i.get("t"):
                        rt[i["r"]] = i["t"]
            fn["_regt"] = rt
        return rt.get(reg)

    def ite_typed(self, c, a, b, tid):
        """ite over values of a known type; raises EngineError when the two values cannot be merged"""
        if a is b:
            return a
        if type(tid) is tuple:      # ("arr", elem type)
            if len(a) != len(b):
                raise EngineError("merge: arrays of different length")
            return tuple(self.ite_typed(c, x, y, tid[1]) for x, y in zip(a, b))
        t = self.p.types[tid] if tid is not None else None
        k = t["k"] if t else None
        if k in ("int", "float"):
            if type(a) is int and type(b) is int and a == b:
                return a
            return z3.If(c, bv(a, t["bits"]), bv(b, t["bits"]))
        if k == "bool":
            if type(a) is bool and type(b) is bool and a == b:
                return a
            return z3.If(c, bl(a), bl(b))
        if k == "struct":
            return tuple(self.ite_typed(c, x, y, f["t"]) for x, y, f in zip(a, b, t["fields"]))
        if k == "array":
            return tuple(self.ite_typed(c, x, y, t["elem"]) for x, y in zip(a, b))
        if k == "tuple":
            return tuple(self.ite_typed(c, x, y, e) for x, y, e in zip(a, b, t["elems"]))
        if k == "iface" or isinstance(a, IfaceV):
            if a.tid == b.tid and (a.val is b.val or (isinstance(a.val, ErrV) and isinstance(b.val, ErrV) and a.val.ident == b.val.ident)):
                return a
            if a.tid is not None and a.tid == b.tid and not isinstance(a.val, ErrV):
                return IfaceV(a.tid, self.ite_typed(c, a.val, b.val, a.tid if a.tid in self.p.types else None))
            raise EngineError("merge: different interface values")
        if isinstance(a, (SliceV, StrV, PtrV)):
            return self.ite_val(c, a, b, 64)
        if isinstance(a, (MapV, ChanV)):
            if a.obj == b.obj:
                return a
            raise EngineError("merge: different map/chan")
        if isinstance(a, FuncV):
            if a.name == b.name and len(a.bindings) == len(b.bindings) and all(x is y for x, y in zip(a.bindings, b.bindings)):
                return a
            raise EngineError("merge: different closures")
        if a is None and b is None:
            return None
        if t is None:
            return self.ite_val(c, a, b, None)
        raise EngineError("merge: unsupported value kind %s" % k)

    def try_merge(self, a, b):
        """merge state b into a (same program point, same stack). Returns the merged state or None if refused."""
        try:
            if len(a.frames) != len(b.frames):
                return None
            if len(a.nondet) != len(b.nondet) or any(x[1] is not y[1] and not (type(x[1]) is int and x[1] == y[1]) for x, y in zip(a.nondet, b.nondet)):
                return None
            n = 0
            m = min(len(a.pc), len(b.pc))
            while n < m and a.pc[n] is b.pc[n]:
                n += 1
            ra, rb = a.pc[n:], b.pc[n:]
            ga = z3.And(ra) if len(ra) != 1 else ra[0]
            gb = z3.And(rb) if len(rb) != 1 else rb[0]
            if not ra or not rb:
                return None
            # frames below the top are untouched during the sub-exploration of the merged function's callees?  They may
            # differ if the merged function called (non-merged) callees that returned; only the top frame is live here.
            fa, fb = a.frames[-1], b.frames[-1]
            if fa.fn is not fb.fn or fa.blk != fb.blk or fa.ip != fb.ip:
                return None
            env = {}
            fn = fa.fn
            for r in set(fa.env) | set(fb.env):
                if r in fa.env and r in fb.env:
                    va, vb = fa.env[r], fb.env[r]
                    if va is vb:
                        env[r] = va
                    else:
                        env[r] = self.ite_typed(gb, vb, va, self.regtype(fn, r))
                else:
                    env[r] = fa.env.get(r, fb.env.get(r))
            for i in range(len(a.frames) - 1):
                xa, xb = a.frames[i], b.frames[i]
                if xa is xb:
                    continue
                if xa.fn is not xb.fn or xa.blk != xb.blk or xa.ip != xb.ip:
                    return None
                for r in set(xa.env) | set(xb.env):
                    if xa.env.get(r) is not xb.env.get(r):
                        va, vb = xa.env.get(r), xb.env.get(r)
                        if type(va) in (int, bool) and va == vb:
                            continue
                        return None
            mem = {}
            for k in set(a.mem) | set(b.mem):
                if k in a.mem and k in b.mem:
                    va, vb = a.mem[k], b.mem[k]
                    if va is vb:
                        mem[k] = va
                    else:
                        mem[k] = self.ite_typed(gb, vb, va, a.otype.get(k, b.otype.get(k)))
                else:
                    mem[k] = a.mem.get(k, b.mem.get(k))
            s = a.fork()
            s.mem = mem
            top = fa.copy(s.id)
            top.env = env
            its = dict(fa.iters or {})
            for k2, v2 in (fb.iters or {}).items():
                its[k2] = max(its.get(k2, 0), v2)
            top.iters = its or None
            s.frames[-1] = top
            s.pc = a.pc[:n] + [z3.Or(ga, gb)]
            s.nobj = max(a.nobj, b.nobj)
            ot = dict(b.otype)
            ot.update(a.otype)
            s.otype = ot
            s.reached = list(dict.fromkeys(a.reached + b.reached))
            s.steps = max(a.steps, b.steps)
            return s
        except EngineError:
            return None

    # ------------------------------------------------------------------ builtins
    def builtin(self, st, fr, name, args, ins):
        pos = ins.get("pos")
        if name == "len":
            x = args[0]
            if isinstance(x, (SliceV, StrV)):
                return x.len
            if isinstance(x, MapV):
                if x.obj is None:
                    return 0
                return self.intr.map_len(self, st, x)
            if isinstance(x, ChanV):
                return len(st.mem[x.obj].queue) if x.obj else 0
            if type(x) is tuple:
                return len(x)
            raise EngineError("len of %r" % (x,))
        if name == "cap":
            x = args[0]
            if isinstance(x, SliceV):
                return x.cap
            if isinstance(x, ChanV):
                return st.mem[x.obj].cap if x.obj else 0
            raise EngineError("cap of %r" % (x,))
        if name == "append":
            return self.bi_append(st, args[0], args[1], pos, ins)
        if name == "copy":
            return self.bi_copy(st, args[0], args[1], pos)
        if name == "delete":
            self.intr.map_delete(self, st, args[0], args[1])
            return None
        if name == "close":
            ch = args[0]
            cs = st.mem[ch.obj]
            if cs.closed:
                self.oblige(st, False, "panic", "close of closed channel", pos)
            st.mem[ch.obj] = ChanState(cs.cap, cs.queue, True)
            return None
        if name == "recover":
            return NILIFACE
        if name == "min" or name == "max":
            t = ins["call"]["argt"][0]
            tt = self.p.types[t]
            a = args[0]
            for b in args[1:]:
                lt = self.cmp_lt(a, b, tt)
                if name == "min":
                    a = self.ite_val(bl(lt), a, b, tt.get("bits")) if not type(lt) is bool else (a if lt else b)
                else:
                    a = self.ite_val(bl(lt), b, a, tt.get("bits")) if not type(lt) is bool else (b if lt else a)
            return a
        if name in ("print", "println"):
            return None
        if name == "ssa:wrapnilchk":
            return args[0]
        raise EngineError("builtin " + name)

    def cmp_lt(self, a, b, tt):
        bits = tt["bits"]
        if type(a) is int and type(b) is int:
            if tt.get("signed"):
                return signed(a, bits) < signed(b, bits)
            return a < b
        if tt["k"] == "float":
            return z3.fpLT(self.to_fp(a, bits), self.to_fp(b, bits))
        if tt.get("signed"):
            return bv(a, bits) < bv(b, bits)
        return z3.ULT(bv(a, bits), bv(b, bits))

    def bi_append(self, st, s, more, pos, ins):
        # more: SliceV or StrV (append([]byte, string...))
        n2 = self.need_int(st, more.len, pos, "append source length")
        if n2 == 0 and s.obj is not None:
            return s
        src = self.slice_read_all(st, more, pos) if n2 else []
        ln = s.len
        cp = s.cap
        if type(ln) is not int:
            ln = self.need_int(st, ln, pos, "append destination length")
        if type(cp) is not int:
            cp = self.need_int(st, cp, pos, "append destination capacity")
        if s.obj is not None and ln + n2 <= cp:
            off = self.need_int(st, s.off, pos, "append offset")
            arr = self.load_path(st.mem[s.obj], s.path, st, pos)
            arr = arr[:off + ln] + tuple(src) + arr[off + ln + n2:]
            st.mem[s.obj] = self.store_path(st.mem[s.obj], s.path, arr, st, pos)
            return SliceV(s.obj, s.path, off, ln + n2, cp)
        old = self.slice_read_all(st, SliceV(s.obj, s.path, s.off, ln, cp), pos) if (s.obj is not None and ln) else []
        newcap = self.intr.grow_cap(cp, ln + n2)
        et = self.p.types[ins["t"]]["elem"] if ins.get("t") else None
        z = self.p.zero(et) if et else 0
        elems = old + src + [z] * (newcap - ln - n2)
        oid = st.alloc(tuple(elems))
        return SliceV(oid, (), 0, ln + n2, newcap)

    def bi_copy(self, st, dst, src, pos):
        nd = self.need_int(st, dst.len, pos, "copy dst length")
        ns = self.need_int(st, src.len, pos, "copy src length")
        n = min(nd, ns)
        if n == 0:
            return 0
        vals = self.slice_read_all(st, SliceV(src.obj, src.path, src.off, n, n) if isinstance(src, SliceV) else StrV(src.obj, src.path, src.off, n), pos)
        off = self.need_int(st, dst.off, pos, "copy dst offset")
        arr = self.load_path(st.mem[dst.obj], dst.path, st, pos)
        arr = arr[:off] + tuple(vals) + arr[off + n:]
        st.mem[dst.obj] = self.store_path(st.mem[dst.obj], dst.path, arr, st, pos)
        return n

    # ------------------------------------------------------------------ data ops
    def op_alloc(self, st, fr, ins):
        oid = st.alloc(self.p.zero(ins["et"]), typ=ins["et"])
        fr.env[ins["r"]] = PtrV(oid, ())

    def op_store(self, st, fr, ins):
        addr = self.val(st, fr, ins["addr"])
        v = self.val(st, fr, ins["val"])
        self.store(st, addr, v, ins.get("pos"), self.p.types[ins["vt"]].get("bits") if ins.get("vt") else None)

    def _valbits(self, o):
        t = o.get("t")
        if t:
            tt = self.p.types[t]
            return tt.get("bits")
        return None

    def op_unop(self, st, fr, ins):
        o = ins["o"]
        x = self.val(st, fr, ins["x"])
        pos = ins.get("pos")
        if o == "*":
            v = self.deref(st, x, pos, self.p.types[ins["t"]].get("bits"))
            if st.status != "run":
                return
            fr.env[ins["r"]] = v
            return
        if o == "<-":
            return self.chan_recv(st, fr, x, ins)
        t = self.p.types[ins["t"]]
        if o == "!":
            fr.env[ins["r"]] = (not x) if type(x) is bool else z3.Not(x)
            return
        bits = t["bits"]
        if o == "-":
            if t["k"] == "float":
                fr.env[ins["r"]] = (x ^ (1 << (bits - 1))) if type(x) is int else x ^ z3.BitVecVal(1 << (bits - 1), bits)
            else:
                fr.env[ins["r"]] = ((-x) & M(bits)) if type(x) is int else -x
            return
        if o == "^":
            fr.env[ins["r"]] = (x ^ M(bits)) if type(x) is int else ~x
            return
        raise EngineError("unop " + o)

    def to_fp(self, x, bits):
        sort = z3.Float64() if bits == 64 else z3.Float32()
        return z3.fpBVToFP(bv(x, bits), sort)

    def op_binop(self, st, fr, ins):
        o = ins["o"]
        x = self.val(st, fr, ins["x"])
        y = self.val(st, fr, ins["y"])
        xt = self.p.types[ins["xt"]]
        r = self.binop(st, o, x, y, xt, self.p.types[ins["yt"]], ins)
        if st.status == "run":
            fr.env[ins["r"]] = r

    def binop(self, st, o, x, y, xt, yt, ins):
        k = xt["k"]
        pos = ins.get("pos")
        if k == "int":
            bits = xt["bits"]
            sg = xt["signed"]
            if o in ("<<", ">>"):
                return self.shift(st, o, x, y, bits, sg, yt, pos)
            if type(x) is int and type(y) is int:
                return self.int_binop_conc(st, o, x, y, bits, sg, pos)
            X = bv(x, bits)
            Y = bv(y, bits)
            if o == "+":
                return X + Y
            if o == "-":
                return X - Y
            if o == "*":
                return X * Y
            if o == "&":
                if type(y) is int and y == 0 or type(x) is int and x == 0:
                    return 0
                return X & Y
            if o == "|":
                return X | Y
            if o == "^":
                return X ^ Y
            if o == "&^":
                return X & ~Y
            if o in ("/", "%"):
                if not self.oblige(st, Y != 0, "panic", "integer divide by zero", pos):
                    return None
                if sg:
                    return X / Y if o == "/" else z3.SRem(X, Y)
                return z3.UDiv(X, Y) if o == "/" else z3.URem(X, Y)
            if o == "==":
                return X == Y
            if o == "!=":
                return X != Y
            if sg:
                return {"<": X < Y, "<=": X <= Y, ">": X > Y, ">=": X >= Y}[o]
            return {"<": z3.ULT(X, Y), "<=": z3.ULE(X, Y), ">": z3.UGT(X, Y), ">=": z3.UGE(X, Y)}[o]
        if k == "bool":
            if type(x) is bool and type(y) is bool:
                return {"==": x == y, "!=": x != y, "&&": x and y, "||": x or y}[o]
            X, Y = bl(x), bl(y)
            if o == "==":
                return X == Y
            if o == "!=":
                return X != Y
            raise EngineError("bool binop " + o)
        if k == "float":
            bits = xt["bits"]
            X, Y = self.to_fp(x, bits), self.to_fp(y, bits)
            if o in ("+", "-", "*", "/"):
                rm = z3.RNE()
                r = {"+": z3.fpAdd, "-": z3.fpSub, "*": z3.fpMul, "/": z3.fpDiv}[o](rm, X, Y)
                return simp(z3.fpToIEEEBV(r))
            r = {"==": z3.fpEQ, "!=": z3.fpNEQ, "<": z3.fpLT, "<=": z3.fpLEQ, ">": z3.fpGT, ">=": z3.fpGEQ}[o](X, Y)
            return simp(r)
        if k == "string":
            return self.string_binop(st, o, x, y, pos)
        if k in ("ptr", "unsafeptr"):
            eq = self.ptr_eq(x, y)
            return eq if o == "==" else self.not_(eq)
        if k == "iface":
            eq = self.iface_eq(st, x, y, pos)
            return eq if o == "==" else self.not_(eq)
        if k == "slice":
            # only comparison with nil is legal
            other = y if (isinstance(x, SliceV) and x.obj is not None) or not isinstance(y, SliceV) else x
            s = x if isinstance(x, SliceV) and x.obj is not None else y
            eq = s.obj is None
            return eq if o == "==" else not eq
        if k in ("map", "chan", "func"):
            a = x.obj if not isinstance(x, FuncV) else x.name
            b = y.obj if not isinstance(y, FuncV) else y.name
            eq = a == b
            return eq if o == "==" else not eq
        if k in ("struct", "array"):
            eq = self.agg_eq(st, x, y, xt, pos)
            return eq if o == "==" else self.not_(eq)
        raise EngineError("binop %s on %s" % (o, k))

    def not_(self, b):
        return (not b) if type(b) is bool else z3.Not(b)

    def agg_eq(self, st, x, y, t, pos):
        cs = []
        if t["k"] == "struct":
            for i, f in enumerate(t["fields"]):
                ft = self.p.types[f["t"]]
                cs.append(self.binop(st, "==", x[i], y[i], ft, ft, {"pos": pos}))
        else:
            et = self.p.types[t["elem"]]
            for a, b in zip(x, y):
                cs.append(self.binop(st, "==", a, b, et, et, {"pos": pos}))
        if all(type(c) is bool for c in cs):
            return all(cs)
        return z3.And([bl(c) for c in cs])

    def ptr_eq(self, x, y):
        if x.obj != y.obj:
            return False
        if len(x.path) != len(y.path):
            return False
        cs = []
        for a, b in zip(x.path, y.path):
            if type(a) is int and type(b) is int:
                if a != b:
                    return False
            else:
                cs.append(bv(a, 64) == bv(b, 64))
        if not cs:
            return True
        return z3.And(cs)

    def iface_eq(self, st, x, y, pos):
        if x.tid is None or y.tid is None:
            return x.tid is None and y.tid is None
        if x.tid != y.tid:
            return False
        a, b = x.val, y.val
        if isinstance(a, ErrV) and isinstance(b, ErrV):
            return a.ident == b.ident
        if isinstance(a, PtrV):
            return self.ptr_eq(a, b)
        t = self.p.types.get(x.tid)
        if t is None:
            return a is b
        return self.binop(st, "==", a, b, t, t, {"pos": pos})

    def int_binop_conc(self, st, o, x, y, bits, sg, pos):
        m = M(bits)
        if o == "+":
            return (x + y) & m
        if o == "-":
            return (x - y) & m
        if o == "*":
            return (x * y) & m
        if o == "&":
            return x & y
        if o == "|":
            return x | y
        if o == "^":
            return x ^ y
        if o == "&^":
            return x & ~y & m
        if o in ("/", "%"):
            if y == 0:
                self.oblige(st, False, "panic", "integer divide by zero", pos)
                return None
            if sg:
                a, b = signed(x, bits), signed(y, bits)
                q = abs(a) // abs(b)
                if (a < 0) != (b < 0):
                    q = -q
                r = a - q * b
                return (q if o == "/" else r) & m
            return x // y if o == "/" else x % y
        if sg and o in ("<", "<=", ">", ">="):
            x, y = signed(x, bits), signed(y, bits)
        return {"==": x == y, "!=": x != y, "<": x < y, "<=": x <= y, ">": x > y, ">=": x >= y}[o]

    def shift(self, st, o, x, y, bits, sg, yt, pos):
        ybits = yt["bits"]
        if yt.get("signed"):
            # negative shift count panics
            if type(y) is int:
                if y >> (ybits - 1):
                    self.oblige(st, False, "panic", "negative shift amount", pos)
                    return None
            else:
                if not self.oblige(st, bv(y, ybits) >= 0, "panic", "negative shift amount", pos):
                    return None
        if type(y) is int:
            if y >= bits:
                if o == "<<":
                    return 0
                if sg:
                    if type(x) is int:
                        return M(bits) if x >> (bits - 1) else 0
                    return z3.simplify(x >> (bits - 1))
                return 0
            if type(x) is int:
                if o == "<<":
                    return (x << y) & M(bits)
                if sg:
                    return (signed(x, bits) >> y) & M(bits)
                return x >> y
            if y == 0:
                return x
            if o == "<<":
                return x << y
            return (x >> y) if sg else z3.LShR(x, y)
        # symbolic count: Go semantics — count >= width gives 0 / sign fill
        X = bv(x, bits)
        if ybits < bits:
            Yx = z3.ZeroExt(bits - ybits, y)
        elif ybits > bits:
            Yx = z3.Extract(bits - 1, 0, y)
        else:
            Yx = y
        big = z3.UGE(y, z3.BitVecVal(bits, ybits))
        if o == "<<":
            return z3.If(big, z3.BitVecVal(0, bits), X << Yx)
        if sg:
            return z3.If(big, X >> (bits - 1), X >> Yx)
        return z3.If(big, z3.BitVecVal(0, bits), z3.LShR(X, Yx))

    def string_bytes(self, st, s, pos):
        return self.slice_read_all(st, s, pos)

    def string_binop(self, st, o, x, y, pos):
        if o == "+":
            a = self.string_bytes(st, x, pos)
            b = self.string_bytes(st, y, pos)
            oid = st.alloc(tuple(a + b))
            return StrV(oid, (), 0, len(a) + len(b))
        if o in ("==", "!="):
            lx, ly = x.len, y.len
            if type(lx) is int and type(ly) is int:
                if lx != ly:
                    return o == "!="
                a = self.string_bytes(st, x, pos)
                b = self.string_bytes(st, y, pos)
                cs = []
                for p, q in zip(a, b):
                    if type(p) is int and type(q) is int:
                        if p != q:
                            return o == "!="
                    else:
                        cs.append(bv(p, 8) == bv(q, 8))
                eq = True if not cs else simp(cs[0] if len(cs) == 1 else z3.And(cs))
                return eq if o == "==" else self.not_(eq)
            raise EngineError("string compare with symbolic length at %s" % pos)
        if o in ("<", "<=", ">", ">="):
            raise EngineError("string ordering not supported at %s" % pos)
        raise EngineError("string binop " + o)

    def op_convert(self, st, fr, ins):
        x = self.val(st, fr, ins["x"])
        ft = self.p.types[ins["xt"]]
        tt = self.p.types[ins["t"]]
        fr.env[ins["r"]] = self.convert(st, x, ft, tt, ins)

    def convert(self, st, x, ft, tt, ins):
        fk, tk = ft["k"], tt["k"]
        pos = ins.get("pos")
        if fk == "int" and tk == "int":
            fb, tb = ft["bits"], tt["bits"]
            if type(x) is int:
                if tb <= fb:
                    return x & M(tb)
                if ft["signed"]:
                    return signed(x, fb) & M(tb)
                return x
            if tb < fb:
                return z3.Extract(tb - 1, 0, x)
            if tb == fb:
                return x
            return z3.SignExt(tb - fb, x) if ft["signed"] else z3.ZeroExt(tb - fb, x)
        if fk == "int" and tk == "float":
            fb, tb = ft["bits"], tt["bits"]
            sort = z3.Float64() if tb == 64 else z3.Float32()
            X = bv(x, fb)
            r = z3.fpSignedToFP(z3.RNE(), X, sort) if ft["signed"] else z3.fpUnsignedToFP(z3.RNE(), X, sort)
            return simp(z3.fpToIEEEBV(r))
        if fk == "float" and tk == "int":
            return self.float_to_int(st, x, ft["bits"], tt["bits"], tt["signed"])
        if fk == "float" and tk == "float":
            if ft["bits"] == tt["bits"]:
                return x
            sort = z3.Float64() if tt["bits"] == 64 else z3.Float32()
            return simp(z3.fpToIEEEBV(z3.fpFPToFP(z3.RNE(), self.to_fp(x, ft["bits"]), sort)))
        if fk == "slice" and tk == "string":
            bs = self.slice_read_all(st, x, pos)
            if not bs:
                return EMPTYSTR
            oid = st.alloc(tuple(bs))
            return StrV(oid, (), 0, len(bs))
        if fk == "string" and tk == "slice":
            bs = self.slice_read_all(st, x, pos)
            oid = st.alloc(tuple(bs))
            return SliceV(oid, (), 0, len(bs), len(bs))
        if fk == "int" and tk == "string":
            # string(rune)
            c = self.need_int(st, x, pos, "rune to string")
            return self.const_string(st, list(chr(c).encode("utf-8")))
        if tk == "unsafeptr" or fk == "unsafeptr":
            return x
        if fk == tk:
            return x
        raise EngineError("convert %s -> %s at %s" % (fk, tk, pos))

    def float_to_int(self, st, x, fb, tb, sg):
        """amd64 semantics of Go's float->int conversion (cvttsd2si family)"""
        if fb != 64:
            raise EngineError("float32 -> int not modelled")
        X = self.to_fp(x, 64)
        rtz = z3.RTZ()
        indef = z3.BitVecVal(1 << 63, 64)
        two63 = z3.FPVal(9223372036854775808.0, z3.Float64())

        def cvt(F):
            inr = z3.And(z3.Not(z3.fpIsNaN(F)), z3.fpGEQ(F, z3.FPVal(-9223372036854775808.0, z3.Float64())), z3.fpLT(F, two63))
            return z3.If(inr, z3.fpToSBV(rtz, F, z3.BitVecSort(64)), indef)
        if sg or tb < 64:
            r = cvt(X)
        else:
            # uint64: x < 2^63 ? cvt(x) : cvt(x-2^63) ^ signbit     (NaN compares false -> second arm)
            small = z3.fpLT(X, two63)
            r = z3.If(small, cvt(X), cvt(z3.fpSub(z3.RNE(), X, two63)) ^ indef)
        r = simp(r)
        if tb < 64:
            r = (r & M(tb)) if type(r) is int else z3.Extract(tb - 1, 0, r)
        return r

    def op_changetype(self, st, fr, ins):
        fr.env[ins["r"]] = self.val(st, fr, ins["x"])

    def op_changeiface(self, st, fr, ins):
        fr.env[ins["r"]] = self.val(st, fr, ins["x"])

    def op_makeiface(self, st, fr, ins):
        fr.env[ins["r"]] = IfaceV(ins["xt"], self.val(st, fr, ins["x"]))

    def op_typeassert(self, st, fr, ins):
        x = self.val(st, fr, ins["x"])
        at = ins["at"]
        att = self.p.types[at]
        if att["k"] == "iface":
            ok = x.tid is not None   # method-set check is not modelled (only used for error/io ifaces)
            res = x
        else:
            ok = x.tid == at
            res = x.val if ok else self.p.zero(at)
        if ins["commaok"]:
            fr.env[ins["r"]] = (res, ok)
        else:
            if not ok:
                self.oblige(st, False, "panic", "interface conversion failed", ins.get("pos"))
                st.status = "dead"
                return
            fr.env[ins["r"]] = res

    def op_extract(self, st, fr, ins):
        fr.env[ins["r"]] = self.val(st, fr, ins["x"])[ins["i"]]

    def op_field(self, st, fr, ins):
        fr.env[ins["r"]] = self.val(st, fr, ins["x"])[ins["i"]]

    def op_fieldaddr(self, st, fr, ins):
        x = self.val(st, fr, ins["x"])
        if x.obj is None:
            self.oblige(st, False, "panic", "nil pointer dereference (field address)", ins.get("pos"))
            st.status = "dead"
            return
        fr.env[ins["r"]] = PtrV(x.obj, x.path + (ins["i"],))

    def idx_norm(self, st, idx, it):
        """index operand -> 64-bit unsigned-normalised (sign-extended if signed type)"""
        t = self.p.types[it]
        b = t["bits"]
        if type(idx) is int:
            if b < 64 and t["signed"]:
                return signed(idx, b) & M(64)
            return idx
        if b < 64:
            return z3.SignExt(64 - b, idx) if t["signed"] else z3.ZeroExt(64 - b, idx)
        return idx

    def op_indexaddr(self, st, fr, ins):
        x = self.val(st, fr, ins["x"])
        idx = self.idx_norm(st, self.val(st, fr, ins["idx"]), ins["it"])
        if type(idx) is not int:
            idx = simp(idx)
        pos = ins.get("pos")
        xt = self.p.types[ins["xt"]]
        if xt["k"] == "slice":
            p = self.slice_elem_ptr(st, x, idx, pos)
            if p is None:
                return
            fr.env[ins["r"]] = p
            return
        # pointer to array
        if x.obj is None:
            self.oblige(st, False, "panic", "nil pointer dereference (index address)", pos)
            st.status = "dead"
            return
        n = self.p.types[xt["elem"]]["len"]
        if not self.oblige(st, self.in_range(idx, n), "panic", "index out of range", pos):
            return
        fr.env[ins["r"]] = PtrV(x.obj, x.path + (idx,))

    def op_index(self, st, fr, ins):
        x = self.val(st, fr, ins["x"])
        idx = self.idx_norm(st, self.val(st, fr, ins["idx"]), ins["it"])
        pos = ins.get("pos")
        xt = self.p.types[ins["xt"]]
        if xt["k"] == "array":
            if not self.oblige(st, self.in_range(idx, len(x)), "panic", "index out of range", pos):
                return
            idx = simp(idx)
            fr.env[ins["r"]] = x[idx] if type(idx) is int else self.sym_index(x, idx, st, pos, self.p.types[ins["t"]].get("bits"))
            return
        if xt["k"] == "string":
            if not self.oblige(st, self.in_range(idx, x.len), "panic", "string index out of range", pos):
                return
            fr.env[ins["r"]] = self.deref(st, PtrV(x.obj, x.path + (self.add64(x.off, simp(idx)),)), pos, 8)
            return
        raise EngineError("index on " + xt["k"])

    def op_lookup(self, st, fr, ins):
        x = self.val(st, fr, ins["x"])
        idx = self.val(st, fr, ins["idx"])
        pos = ins.get("pos")
        xt = self.p.types[ins["xt"]]
        if xt["k"] == "string":
            idx = self.idx_norm(st, idx, ins["it"])
            if not self.oblige(st, self.in_range(idx, x.len), "panic", "string index out of range", pos):
                return
            v = self.deref(st, PtrV(x.obj, x.path + (self.add64(x.off, idx),)), pos, 8)
            fr.env[ins["r"]] = v
            return
        if xt["k"] == "map":
            v, ok = self.intr.map_lookup(self, st, x, idx, xt)
            fr.env[ins["r"]] = (v, ok) if ins["commaok"] else v
            return
        raise EngineError("lookup on " + xt["k"])

    def op_mapupdate(self, st, fr, ins):
        m = self.val(st, fr, ins["m"])
        if m.obj is None:
            self.oblige(st, False, "panic", "assignment to entry in nil map", ins.get("pos"))
            st.status = "dead"
            return
        self.intr.map_update(self, st, m, self.val(st, fr, ins["key"]), self.val(st, fr, ins["val"]))

    def op_makemap(self, st, fr, ins):
        oid = st.alloc(())
        fr.env[ins["r"]] = MapV(oid)

    def op_makeslice(self, st, fr, ins):
        pos = ins.get("pos")
        ln = self.val(st, fr, ins["len"])
        cp = self.val(st, fr, ins["cap"])
        lt = self.p.types[ins["lt"]]
        ln = self.idx_norm(st, ln, ins["lt"])
        cp = self.idx_norm(st, cp, ins["lt"])
        maxlen = int(self.opts.get("max_make", 1 << 20))
        # len must be 0 <= len <= cap <= max
        if type(ln) is not int:
            amax = self.opts.get("make_assume_max")
            if amax is not None:
                # precondition of the property under check: declared sizes are small enough to allocate
                if not self.assume(st, z3.ULE(bv(ln, 64), z3.BitVecVal(int(amax), 64))):
                    return
            elif not self.oblige(st, z3.ULE(bv(ln, 64), z3.BitVecVal(maxlen, 64)), "panic", "makeslice: len out of range (or beyond modelled maximum %d)" % maxlen, pos):
                return
            c = self.concretize(st, ln)
            if c is None:
                return self.fork_values(st, fr, ln, pos, "make length")
            ln = c
        if type(cp) is not int:
            c = self.concretize(st, cp)
            if c is None:
                raise EngineError("make with non-unique symbolic capacity at %s" % pos)
            cp = c
        if ln > maxlen or cp > maxlen or cp < ln:
            self.oblige(st, False, "panic", "makeslice: len/cap out of range (%d,%d)" % (ln, cp), pos)
            st.status = "dead"
            return
        et = self.p.types[ins["t"]]["elem"]
        oid = st.alloc((self.p.zero(et),) * cp, typ=("arr", et))
        fr.env[ins["r"]] = SliceV(oid, (), 0, ln, cp)

    def op_slice(self, st, fr, ins):
        x = self.val(st, fr, ins["x"])
        pos = ins.get("pos")
        xt = self.p.types[ins["xt"]]
        lo = self.val(st, fr, ins["low"]) if ins["low"] is not None else 0
        hi = self.val(st, fr, ins["high"]) if ins["high"] is not None else None
        mx = self.val(st, fr, ins["max"]) if ins["max"] is not None else None
        k = xt["k"]
        if k == "ptr":
            # pointer to array
            if x.obj is None:
                self.oblige(st, False, "panic", "nil pointer dereference (slice of *array)", pos)
                st.status = "dead"
                return
            n = self.p.types[xt["elem"]]["len"]
            base = SliceV(x.obj, x.path, 0, n, n)
        elif k == "string":
            base = SliceV(x.obj, x.path, x.off, x.len, x.len)
        else:
            base = x
        cap = base.cap
        if hi is None:
            hi = base.len
        bound = cap if k != "string" else base.len
        if mx is not None:
            ok = self.and_(self.ule(hi, mx), self.ule(mx, cap))
            if not self.oblige(st, ok, "panic", "slice bounds out of range (max)", pos):
                return
            bound = mx
        ok = self.and_(self.ule(lo, hi), self.ule(hi, bound))
        if not self.oblige(st, ok, "panic", "slice bounds out of range", pos):
            return
        lo = simp(lo)
        hi = simp(hi)
        for term, what in ((lo, "slice low bound"), (hi, "slice high bound")):
            if type(term) is not int:
                c = self.concretize(st, term)
                if c is None:
                    return self.fork_values(st, fr, term, pos, what)
        if type(lo) is not int:
            lo = self.concretize(st, lo)
        if type(hi) is not int:
            hi = self.concretize(st, hi)
        nl = self.sub64(hi, lo)
        if k == "string":
            fr.env[ins["r"]] = StrV(base.obj, base.path, self.add64(base.off, lo), nl)
            return
        nc = self.sub64(bound if mx is not None else cap, lo)
        if base.obj is None:
            fr.env[ins["r"]] = NILSLICE if k == "slice" else SliceV(None, (), 0, 0, 0)
            return
        fr.env[ins["r"]] = SliceV(base.obj, base.path, self.add64(base.off, lo), nl, nc)

    def ule(self, a, b):
        if type(a) is int and type(b) is int:
            return a <= b
        return z3.ULE(bv(a, 64), bv(b, 64))

    def and_(self, a, b):
        if a is True:
            return b
        if b is True:
            return a
        if a is False or b is False:
            return False
        return z3.And(a, b)

    def sub64(self, a, b):
        if type(a) is int and type(b) is int:
            return (a - b) & M(64)
        if type(b) is int and b == 0:
            return a
        return simp(bv(a, 64) - bv(b, 64))

    def op_slicetoarrayptr(self, st, fr, ins):
        x = self.val(st, fr, ins["x"])
        n = self.p.types[self.p.types[ins["t"]]["elem"]]["len"]
        if not self.oblige(st, self.ule(n, x.len), "panic", "slice to array pointer: length too short", ins.get("pos")):
            return
        raise EngineError("slicetoarrayptr not supported")

    def op_makeclosure(self, st, fr, ins):
        fr.env[ins["r"]] = FuncV(ins["fn"], tuple(self.val(st, fr, b) for b in ins["bindings"]))

    # range / next --------------------------------------------------------------------
    def op_range(self, st, fr, ins):
        x = self.val(st, fr, ins["x"])
        xt = self.p.types[ins["xt"]]
        if xt["k"] == "map":
            keys = self.intr.map_keys(self, st, x)
            fr.env[ins["r"]] = RangeIter("map", (x, keys), 0)
        elif xt["k"] == "string":
            fr.env[ins["r"]] = RangeIter("string", x, 0)
        else:
            raise EngineError("range over " + xt["k"])

    def op_next(self, st, fr, ins):
        it = self.val(st, fr, ins["iter"])
        if it.kind == "map":
            m, keys = it.x
            if it.pos >= len(keys):
                fr.env[ins["r"]] = (False, None, None)
                return
            k = keys[it.pos]
            v, ok = self.intr.map_lookup(self, st, m, k, None)
            fr.env[ins["iter"]["n"]] = RangeIter("map", it.x, it.pos + 1)
            fr.env[ins["r"]] = (True, k, v)
            return
        raise EngineError("next over " + it.kind)

    # channels --------------------------------------------------------------------------
    def op_makechan(self, st, fr, ins):
        size = self.need_int(st, self.val(st, fr, ins["size"]), ins.get("pos"), "channel size")
        oid = st.alloc(ChanState(size), "chan")
        fr.env[ins["r"]] = ChanV(oid)

    def op_send(self, st, fr, ins):
        ch = self.val(st, fr, ins["chan"])
        x = self.val(st, fr, ins["x"])
        h = self.intr.chan_send(self, st, fr, ch, x, ins)
        if h is not None:
            return h
        if ch.obj is None:
            self.oblige(st, False, "block", "send on nil channel blocks forever", ins.get("pos"))
            st.status = "dead"
            return
        cs = st.mem[ch.obj]
        if cs.closed:
            self.oblige(st, False, "panic", "send on closed channel", ins.get("pos"))
            st.status = "dead"
            return
        if len(cs.queue) >= cs.cap:
            self.oblige(st, False, "block", "send on full channel (cap %d) with no concurrent receiver: blocks forever" % cs.cap, ins.get("pos"))
            st.status = "dead"
            return
        st.mem[ch.obj] = ChanState(cs.cap, cs.queue + (x,), cs.closed)

    def chan_recv(self, st, fr, ch, ins):
        h = self.intr.chan_recv(self, st, fr, ch, ins)
        if h is not None:
            return h
        if ch.obj is None:
            self.oblige(st, False, "block", "receive on nil channel blocks forever", ins.get("pos"))
            st.status = "dead"
            return
        cs = st.mem[ch.obj]
        et = self.p.types[ins["t"]]
        if cs.queue:
            v = cs.queue[0]
            st.mem[ch.obj] = ChanState(cs.cap, cs.queue[1:], cs.closed)
            fr.env[ins["r"]] = (v, True) if ins.get("commaok") else v
            return
        if cs.closed:
            zt = ins["t"] if not ins.get("commaok") else et["elems"][0]
            z = self.p.zero(zt)
            fr.env[ins["r"]] = (z, False) if ins.get("commaok") else z
            return
        self.oblige(st, False, "block", "receive on empty channel with no concurrent sender: blocks forever", ins.get("pos"))
        st.status = "dead"

    def op_select(self, st, fr, ins):
        # only the forms used: single receive with default
        sts = ins["states"]
        if ins["blocking"] or len(sts) != 1 or sts[0]["dir"] != 2:
            h = self.intr.select_stmt(self, st, fr, ins)
            if h is not None:
                return h
            raise EngineError("select form not supported")
        ch = self.val(st, fr, sts[0]["chan"])
        tt = self.p.types[ins["t"]]
        elem_t = tt["elems"][2]
        if ch.obj is not None:
            cs = st.mem[ch.obj]
            if cs.queue:
                v = cs.queue[0]
                st.mem[ch.obj] = ChanState(cs.cap, cs.queue[1:], cs.closed)
                fr.env[ins["r"]] = (0, True, v)
                return
            if cs.closed:
                fr.env[ins["r"]] = (0, False, self.p.zero(elem_t))
                return
        fr.env[ins["r"]] = (M(64), False, self.p.zero(elem_t))


class Forks:
    def __init__(self, items):
        self.items = items
