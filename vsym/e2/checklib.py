"""Glue between check modules (vsym/props/Cxx.py) and the E2 engine."""
import json, os, time
from .. import common
from . import run as e2run


class Lemma:
    def __init__(self, name, entry, files, opts=None, splits=None, desc="", bound="", known=(), scale=None, stopfn=None,
                 stop=None, tags=None, intr=None, expect_reach=(), split_depth=0, replay_patches=(), abstract_witness=None):
        self.name = name
        self.entry = entry
        self.files = files            # harness file names (under /verif/harness)
        self.opts = opts or {}
        self.splits = splits          # list of {choice name: value} dicts -> one job each (parallel case split)
        self.desc = desc
        self.bound = bound
        self.known = known            # known-finding ids whose exclusion this lemma understands
        self.scale = scale
        self.stopfn = stopfn
        self.stop = stop
        self.tags = tags
        self.intr = intr
        self.expect_reach = expect_reach
        self.replay_patches = replay_patches
        # set (to the reason) for a lemma whose inputs include uninterpreted functions: a counterexample fixes values of those
        # functions that the real helpers need not take, so it is replayed natively first and, when it does not reproduce,
        # reported from the encoding (as the contract-precondition class is)
        self.abstract_witness = abstract_witness
        self.optional = False         # True: skipped (with a note) when its literal scaling cannot be applied to the current source
        self.split_depth = split_depth   # parallelise by the first k verifChoice calls


def active_known(ctx, lemmas_files_cache={}):
    """known findings (status 'finding') of this property whose concrete witness still fails natively.
    Prints the KNOWN-FINDING line for each. Returns the set of active ids."""
    act = set()
    for k in ctx.known:
        if k.get("status") != "finding":
            continue
        w = k.get("witness")
        if w is None:
            continue
        files = e2run.harness_files(w["files"])
        viol = {"entry": w["entry"], "replay": [(None, v) for v in w["vec"]], "kind": w["kind"], "msg": w.get("msg", "")}
        ok, line = e2run.replay(files, viol, known=())
        ctx.replays += 1
        if ok:
            act.add(k["id"])
            ctx.report_known(k)
            ctx.log("known finding %s: witness still fails natively (%s)" % (k["id"], line))
        else:
            ctx.log("known finding %s: witness no longer fails (%s) -> exclusion NOT applied" % (k["id"], line))
    return act


def run_lemmas(ctx, lemmas, procs=16):
    """lower once per distinct (files, scale, stop...) group, run every lemma's jobs on a pool, replay
    counterexamples, record everything in ctx."""
    if ctx.only:
        lemmas = [l for l in lemmas if l.name in ctx.only or any(l.name.startswith(o) for o in ctx.only)]
    known_active = active_known(ctx) if ctx.known else set()
    groups = {}
    for l in lemmas:
        key = (tuple(l.files), json.dumps(l.scale, sort_keys=True), tuple(l.stopfn or ()), tuple(l.stop or ()) if l.stop is not None else None, l.tags, l.intr)
        groups.setdefault(key, []).append(l)
    for key, ls in groups.items():
        files = e2run.harness_files(list(key[0]))
        entries = sorted(set(l.entry for l in ls))
        t0 = time.time()
        try:
            prog, info = e2run.lower(files, entries, stop=ls[0].stop, stopfn=ls[0].stopfn, scale=ls[0].scale, tags=ls[0].tags)
        except RuntimeError as e:
            if "scaled constant lit:" in str(e) and all(getattr(l, "optional", False) for l in ls):
                # the literal this lemma scales (e.g. the 8<<10 sync/async threshold) is no longer spelled that way in the source:
                # the lemma cannot be set up; coverage is reduced, nothing is claimed and nothing is alarmed
                for l in ls:
                    ctx.assume("lemma %s NOT RUN: the source literal it scales was not found (%s)" % (l.name, str(e).strip().splitlines()[-1][:160]))
                    ctx.add_lemma(l.name, "skipped", bound=l.bound, desc=l.desc)
                continue
            raise
        ctx.log("lowered %s: %s (%.1fs)" % (",".join(entries), info["msg"], time.time() - t0))
        if ls[0].scale:
            ctx.scaled.update(ls[0].scale)
        jobs = []
        owner = []
        for l in ls:
            base = dict(l.opts)
            base["known_findings"] = sorted(known_active)
            bases = []
            if l.splits:
                for sp in l.splits:
                    o = dict(base)
                    o["choices"] = dict(sp)
                    bases.append(o)
            else:
                bases.append(base)
            for o in bases:
                if l.split_depth:
                    if l.split_depth == "auto":
                        prefs = [((), False)]
                        tp = time.time()
                        for d in range(1, 16):
                            try:
                                nxt = e2run.probe_prefixes(prog, l.entry, o, d, ls[0].intr, deadline_s=max(1.0, 9 - (time.time() - tp)))
                            except e2run.EngineError:
                                break       # probe too expensive at this depth: keep the previous split
                            if len(nxt) == len(prefs) and d > 3 and all(ex for _, ex in nxt):
                                prefs = nxt
                                break       # every path already makes fewer choices than d
                            prefs = nxt
                            if len(prefs) >= 200 or time.time() - tp > 5:
                                break
                    else:
                        prefs = e2run.probe_prefixes(prog, l.entry, o, l.split_depth, ls[0].intr)
                    for ji, (pref, exact) in enumerate(prefs):
                        o2 = dict(o)
                        o2["choice_prefix"] = list(pref)
                        o2["choice_exact"] = exact
                        if ji >= 4:
                            o2["witnesses"] = 0      # one natively validated path per lemma is enough
                        jobs.append((l.entry, o2))
                        owner.append(l)
                else:
                    jobs.append((l.entry, o))
                    owner.append(l)
        results = e2run.run_many(prog, jobs, procs=procs, intr_factory=ls[0].intr)
        per = {}
        for l, r in zip(owner, results):
            per.setdefault(l.name, []).append(r)
        # translator validation replays (one completed path per lemma), in parallel
        from concurrent.futures import ThreadPoolExecutor
        todo = []
        for l in ls:
            ws = [w for r in per.get(l.name, []) for w in r.witnesses]
            if ws and not any(r.violations or r.error for r in per.get(l.name, [])):
                todo.append((l, ws[0]))

        def _tv(item):
            l, w = item
            v = {"entry": w["entry"], "replay": w["replay"], "kind": "clean", "msg": ""}
            ok, line = e2run.replay(files, v, known=sorted(known_active), patches=l.replay_patches, scaled_files=getattr(prog, 'scaled_files', None))
            return l.name, (ok, line, [x for _, x in w["replay"]])
        if todo:
            with ThreadPoolExecutor(8) as ex:
                ctx._tv = dict(getattr(ctx, "_tv", {}), **dict(ex.map(_tv, todo)))
        for l in ls:
            rs = per.get(l.name, [])
            finish_lemma(ctx, l, rs, files, known_active, prog)


def finish_lemma(ctx, l, rs, files, known_active, prog):
    paths = sum(r.paths for r in rs)
    queries = sum(r.queries for r in rs)
    nontriv = sum(r.nontrivial for r in rs)
    solver_s = sum(r.solver_s for r in rs)
    steps = sum(r.steps for r in rs)
    ctx.states += paths
    ctx.transitions += steps
    ctx.queries += queries
    ctx.nontrivial += nontriv
    ctx.solver_s += solver_s
    reach = {}
    for r in rs:
        for k, v in r.reach.items():
            reach[k] = reach.get(k, 0) + v
        for fn, n in r.funcs.items():
            f = prog.funcs.get(fn, {})
            ctx.functions[fn] = {"instrs": n, "file": f.get("file")}
        ctx.stubs.update(r.stubs)
    ctx.vacuity[l.name] = reach
    verdict = "unsat"
    errs = [r.error for r in rs if r.error]
    unk = [u for r in rs for u in r.unknowns]
    viols = [v for r in rs for v in r.violations]
    for e in errs:
        ctx.report_inconclusive("%s: %s" % (l.name, e))
        verdict = "error"
    for u in unk[:5]:
        ctx.report_inconclusive("%s: %s %s at %s" % (l.name, u["kind"], u["msg"], u["pos"]))
        verdict = "unknown"
    missing = [w for w in l.expect_reach if reach.get(w, 0) == 0]
    if not errs and (not reach or missing) and not viols:
        ctx.report_inconclusive("%s: vacuous (no reachability witness hit%s)" % (l.name, ": missing " + ",".join(missing) if missing else ""))
        verdict = "vacuous"
    # replay: one reproduced witness per distinct (kind, message, site) is enough; a signature none of whose
    # witnesses (up to 4 tried) reproduces is an engine problem and is reported as inconclusive
    by_sig = {}
    for v in viols:
        by_sig.setdefault((v["kind"], v["msg"], v["pos"]), []).append(v)
    for sig, vs in by_sig.items():
        reproduced = None
        last = None
        if sig[0] == "ub":
            # the Go caller breaks a precondition of an assembly routine's contract (out-of-bounds access inside the asm, or
            # scanner carries not handed over): the former is undefined behaviour that a native run does not observe, the
            # latter needs message bytes the harness abstracts; reported from the encoding, triaged by reading
            v = vs[0]
            verdict = "sat"
            ctx.sample({"lemma": l.name, "counterexample": v["replay"], "kind": v["kind"], "msg": v["msg"], "pos": v["pos"], "native": "not observable natively"})
            ctx.report_violation("%s: precondition of an assembly routine's contract violated by its Go caller: %s (at %s); "
                                 "not observable in a native run, reported from the encoding" % (l.name, v["msg"], v["pos"]),
                                 {"lemma": l.name, "entry": v["entry"], "files": [os.path.basename(f) for f in files],
                                  "vec": [x for _, x in v["replay"]], "names": [n for n, _ in v["replay"]], "kind": v["kind"], "msg": v["msg"]})
            continue
        for v in vs[:4]:
            ok, line = e2run.replay(files, v, known=sorted(known_active), patches=l.replay_patches, scaled_files=getattr(prog, 'scaled_files', None))
            ctx.replays += 1
            last = (v, line)
            if ok:
                reproduced = (v, line)
                break
        if reproduced is None and l.abstract_witness:
            v, line = last
            verdict = "sat"
            ctx.sample({"lemma": l.name, "counterexample": v["replay"], "kind": v["kind"], "msg": v["msg"], "pos": v["pos"], "native": "abstract witness: " + line})
            ctx.report_violation("%s: %s: %s (at %s); reported from the encoding: %s (native run on the model's inputs: %s)" % (
                                 l.name, v["kind"], v["msg"], v["pos"], l.abstract_witness, line),
                                 {"lemma": l.name, "entry": v["entry"], "files": [os.path.basename(f) for f in files],
                                  "vec": [x for _, x in v["replay"]], "names": [n for n, _ in v["replay"]], "kind": v["kind"], "msg": v["msg"],
                                  "scale": l.scale, "patches": list(l.replay_patches),
                                  "abstract_witness": l.abstract_witness})
            continue
        if reproduced is None:
            v, line = last
            ctx.report_inconclusive("%s: counterexample did not reproduce natively (%s) for %s %s at %s vec=%s" % (
                l.name, line, v["kind"], v["msg"], v["pos"], [x for _, x in v["replay"]]))
            if verdict != "sat":
                verdict = "error"
            continue
        v, line = reproduced
        verdict = "sat"
        ctx.sample({"lemma": l.name, "counterexample": v["replay"], "kind": v["kind"], "msg": v["msg"], "pos": v["pos"], "native": line})
        ctx.report_violation("%s: %s: %s (at %s); native replay: %s" % (l.name, v["kind"], v["msg"], v["pos"], line),
                             {"lemma": l.name, "entry": v["entry"], "files": [os.path.basename(f) for f in files],
                              "vec": [x for _, x in v["replay"]], "names": [n for n, _ in v["replay"]], "kind": v["kind"], "msg": v["msg"],
                                  "scale": l.scale, "patches": list(l.replay_patches),
                              "paths_with_this_violation": len(vs)})
    # translator validation: a completed symbolic path of this lemma, run natively on the model's inputs, must pass every
    # assumption and assertion of the harness (the executor and the real build agree on that path); replays were run
    # concurrently by run_lemmas
    if verdict == "unsat":
        tv = getattr(ctx, "_tv", {}).get(l.name)
        if tv is not None:
            ok, line, vec = tv
            ctx.replays += 1
            if not ok:
                ctx.report_inconclusive("%s: translator validation failed: a completed symbolic path does not replay cleanly on the real build (%s) vec=%s" % (
                    l.name, line, vec[:40]))
                verdict = "error"
    ctx.bounds[l.name] = l.bound
    ctx.add_lemma(l.name, verdict, paths=paths, queries=queries, solver_s=round(solver_s, 2), bound=l.bound, desc=l.desc,
                  jobs=len(rs), wall_s=round(max([r.wall_s for r in rs] or [0]), 2), obligation_sites=sum(r.sites for r in rs))
    if verdict == "unsat":
        ctx.sample({"lemma": l.name, "entry": l.entry, "paths": paths, "queries": queries, "reach": reach, "bound": l.bound})
