"""Intrinsics for the float-printing lemmas R1/R2 (C18, C10)."""
import z3
from .values import *
from .intrinsics import Intrinsics, PKG
from .engine import Forks, EngineError
from .intr_chunks import _bytes_le


class FloatIntrinsics(Intrinsics):
    """R2: the two digit formatters are opaque chunks. 'f' chunk: marker + the 8 bytes of the float (injective);
    'e' chunk: marker + 8 bytes + a 4-byte exponent tail that is an uninterpreted function of the float, so the
    e-0N clean-up is exercised for every possible tail."""

    def _tail(self, f):
        fs = self.uf.get("ETAIL")
        if fs is None:
            fs = [z3.Function("ETAIL%d" % i, z3.BitVecSort(64), z3.BitVecSort(8)) for i in range(4)]
            self.uf["ETAIL"] = fs
        return [g(bv(f, 64)) for g in fs]

    def _register(self):
        super()._register()
        reg = self.reg
        H = PKG + "."

        def append_chunk(eng, st, dst, chunk, ins):
            src = eng.mk_slice(st, chunk, label="chunk")
            return eng.bi_append(st, dst, src, ins.get("pos"), {"t": None})

        @reg(H + "appendFloatF")
        def append_float_f(eng, st, fr, args, ins):
            return append_chunk(eng, st, args[0], [0x46] + _bytes_le(args[1], 8), ins)

        @reg("strconv.AppendFloat")
        def strconv_append_float(eng, st, fr, args, ins):
            dst, f, fmt, prec, bits = args
            fmt = eng.need_int(st, fmt, ins.get("pos"), "AppendFloat fmt")
            if fmt == ord('f'):
                return append_chunk(eng, st, dst, [0x46] + _bytes_le(f, 8), ins)
            if fmt == ord('e'):
                return append_chunk(eng, st, dst, [0x45] + _bytes_le(f, 8) + self._tail(f), ins)
            raise EngineError("AppendFloat fmt %c not modelled" % fmt)


class RyuStubIntrinsics(Intrinsics):
    """R1bc: ryuFtoaShortest (the repository's and strconv's) = the same opaque digit generator: digits DIG_i(mant,exp),
    count ND, decimal point DP, with the generator's contract 0 <= nd <= 17, digits in '0'..'9'."""

    def _gen(self, eng, st, args, ins, which):
        d, mant, exp = args[:3]      # strconv's variant takes a 4th argument (*floatInfo, float64 here)
        pos = ins.get("pos")
        key = "RYU"
        if key not in self.uf:
            S64 = z3.BitVecSort(64)
            self.uf[key] = ([z3.Function("DIG%d" % i, S64, S64, z3.BitVecSort(8)) for i in range(17)],
                            z3.Function("ND", S64, S64, S64), z3.Function("DP", S64, S64, S64))
        digs, ND, DP = self.uf[key]
        m, e = bv(mant, 64), bv(exp, 64)
        nd, dp = ND(m, e), DP(m, e)
        ds = [g(m, e) for g in digs]
        # contract of the digit generator (assumption, stated in the evidence)
        st.pc.append(z3.And(nd >= 0, nd <= 17, dp >= -5, dp <= 21))
        st.pc.append(z3.And([z3.And(z3.UGE(x, 0x30), z3.ULE(x, 0x39)) for x in ds]))
        # no digits exactly for a zero mantissa; otherwise the first digit is not '0' (ryuDigits trims leading zeros)
        st.pc.append(z3.And((nd == 0) == (m == 0), z3.Or(nd == 0, ds[0] != 0x30), z3.Or(m != 0, dp == 0)))
        cur = eng.deref(st, d, pos)
        t = None
        # locate fields d / nd / dp by the struct type of *d
        ptr_t = None
        for p in ins["call"].get("args", []):
            pass
        fields = self._fields(eng, ins, which)
        dsl = cur[fields["d"]]
        n = eng.need_int(st, dsl.len, pos, "digit buffer length")
        arr = eng.load_path(st.mem[dsl.obj], dsl.path, st, pos)
        off = eng.need_int(st, dsl.off, pos, "digit buffer offset")
        arr = arr[:off] + tuple(ds[:min(17, n)]) + arr[off + min(17, n):]
        st.mem[dsl.obj] = eng.store_path(st.mem[dsl.obj], dsl.path, arr, st, pos)
        new = list(cur)
        new[fields["nd"]] = nd
        new[fields["dp"]] = dp
        eng.store(st, d, tuple(new), pos)
        return None

    def _fields(self, eng, ins, which):
        cache = self.uf.setdefault("fields", {})
        if which in cache:
            return cache[which]
        name = "%s.decimalSlice" % which
        for tid, t in eng.p.types.items():
            if t.get("name") == name and t.get("k") == "struct":
                f = {fl["name"]: i for i, fl in enumerate(t["fields"])}
                cache[which] = f
                return f
        raise EngineError("decimalSlice type of %s not found" % which)

    def _register(self):
        super()._register()
        self.table[PKG + ".ryuFtoaShortest"] = lambda eng, st, fr, args, ins: self._gen(eng, st, args, ins, PKG)
        self.table["strconv.ryuFtoaShortest"] = lambda eng, st, fr, args, ins: self._gen(eng, st, args, ins, "strconv")


class RyuPairIntrinsics(Intrinsics):
    """R1a: ryuDigits (the repository's and strconv's) = an injective recorder of its arguments in the digit buffer;
    the harness's linkname stub for strconv.ryuFtoaShortest is redirected to strconv's lowered body."""

    def _register(self):
        super()._register()
        H = PKG + "."

        def record(which):
            def h(eng, st, fr, args, ins):
                d, lower, central, upper, c0, cup = args
                pos = ins.get("pos")
                cur = eng.deref(st, d, pos)
                dsl = cur[0]
                off = eng.need_int(st, dsl.off, pos, "digit buffer offset")
                n = eng.need_int(st, dsl.len, pos, "digit buffer length")
                if n < 24:
                    raise EngineError("digit buffer shorter than 24 bytes")
                arr = eng.load_path(st.mem[dsl.obj], dsl.path, st, pos)
                rec = _bytes_le(lower, 8) + _bytes_le(central, 8) + _bytes_le(upper, 8)
                arr = arr[:off] + tuple(rec) + arr[off + 24:]
                st.mem[dsl.obj] = eng.store_path(st.mem[dsl.obj], dsl.path, arr, st, pos)
                flags = z3.If(bl(c0), z3.BitVecVal(1, 64), z3.BitVecVal(0, 64)) | z3.If(bl(cup), z3.BitVecVal(2, 64), z3.BitVecVal(0, 64))
                new = list(cur)
                new[1] = simp(flags)      # nd
                new[2] = 0                # dp (the caller subtracts q afterwards)
                eng.store(st, d, tuple(new), pos)
                return None
            return h
        self.table[H + "ryuDigits"] = record(PKG)
        self.table["strconv.ryuDigits"] = record("strconv")

        @self.reg(H + "verifStrconvRyu")
        def redirect(eng, st, fr, args, ins):
            eng.push_call(st, "strconv.ryuFtoaShortest", list(args), ins.get("r"))
            return None


class RyuHelperIntrinsics(Intrinsics):
    """R1f: calls to the harness's linkname stubs verifS_<name> run the lowered body of strconv.<name>"""

    def lookup(self, name):
        pre = PKG + ".verifS_"
        if name.startswith(pre):
            target = "strconv." + name[len(pre):]
            self.used.add("redirect:" + target)

            def h(eng, st, fr, args, ins, target=target):
                eng.push_call(st, target, list(args), ins.get("r"))
                return RedirectMarker
            return h
        return super().lookup(name)


class _Redirect:
    pass


RedirectMarker = _Redirect()


class RyuTopIntrinsics(RyuPairIntrinsics):
    """R1t: the glue of ryuFtoaShortest (exact-integer shortcut, bounds, choice of q, exactness flags, admissibility of the
    lower/upper bound incl. the mantissa-parity terms, rounding hint, decimal exponent) = strconv's, with every helper
    (computeBounds, mulByLog2Log10, mult128bitPow10, divisibleByPower5) the SAME uninterpreted function on both sides
    (R1f shows the repository's helpers are strconv's) and ryuDigits the injective recorder of its arguments."""

    def _register(self):
        super()._register()
        H = PKG + "."
        B = z3.BitVecSort(64)
        uf = {
            "cb": [z3.Function("ryu.cb.%d" % i, B, B, B) for i in range(4)],
            "log": z3.Function("ryu.log2log10", B, B),
            "mul": [z3.Function("ryu.mul.m", B, B, B, B), z3.Function("ryu.mul.e", B, B, B, B), z3.Function("ryu.mul.x", B, B, B, z3.BoolSort())],
            "div5": z3.Function("ryu.div5", B, B, z3.BoolSort()),
        }

        def compute_bounds(eng, st, fr, args, ins):
            m, e = bv(args[0], 64), bv(args[1], 64)
            self.used.add("uf:computeBounds (same function on both sides; R1f.computeBounds)")
            return tuple(f(m, e) for f in uf["cb"])

        def mul_log(eng, st, fr, args, ins):
            self.used.add("uf:mulByLog2Log10 (R1f)")
            return uf["log"](bv(args[0], 64))

        def mult128(eng, st, fr, args, ins):
            m, e2, q = (bv(a, 64) for a in args[:3])
            self.used.add("uf:mult128bitPow10 (R1f); assumed: returns a negative exponent (the panic guard that follows it in both copies is not decided here)")
            re = uf["mul"][1](m, e2, q)
            st.pc.append(re < 0)
            return (uf["mul"][0](m, e2, q), re, uf["mul"][2](m, e2, q))

        def div5(eng, st, fr, args, ins):
            self.used.add("uf:divisibleByPower5 (R1f)")
            return uf["div5"](bv(args[0], 64), bv(args[1], 64))

        for pre in (H, "strconv."):
            self.table[pre + "computeBounds"] = compute_bounds
            self.table[pre + "mulByLog2Log10"] = mul_log
            self.table[pre + "mult128bitPow10"] = mult128
            self.table[pre + "divisibleByPower5"] = div5
