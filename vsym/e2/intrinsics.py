"""Intrinsics / stubs for E2. Every stub used in a run is recorded (engine.stubs_used) and becomes
part of the claim (listed in the evidence)."""
import z3
from .values import *
from .engine import EngineError, Forks

PKG = "github.com/minio/simdjson-go"


class Intrinsics:
    def __init__(self):
        self.table = {}
        self.used = set()
        self.err_n = 0
        self.uf = {}
        self.maps_eq = None
        self._register()

    # -------------------------------------------------------------- plumbing
    def lookup(self, name):
        h = self.table.get(name)
        if h is not None:
            self.used.add(name)
        return h

    def reg(self, *names):
        def deco(f):
            for n in names:
                self.table[n] = f
            return f
        return deco

    def new_err(self, kind, wraps=None):
        self.err_n += 1
        return IfaceV("error:" + kind, ErrV(kind, "%s#%d" % (kind, self.err_n), wraps))

    def foreign_global(self, eng, st, name, g):
        t = eng.p.types[g["t"]]
        if name in eng.p.globals and g.get("pkg") in eng.opts.get("lowered_pkgs", ()):
            return eng.p.zero(g["t"])
        if t["k"] == "iface":
            # sentinel error values of packages whose init is not executed (io.EOF, strconv.ErrRange, ...)
            if g.get("pkg") != eng.p.main:
                return IfaceV("error:global", ErrV("global", name))
        return eng.p.zero(g["t"])

    def invoke(self, eng, st, recv, method):
        if isinstance(recv.val, ErrV):
            if method == "Error":
                return FuncV("verif:err.Error")
            if method == "Unwrap":
                return FuncV("verif:err.Unwrap")
        return None

    def go_stmt(self, eng, st, fr, callee, args, ins):
        return None

    def chan_send(self, eng, st, fr, ch, x, ins):
        return None

    def chan_recv(self, eng, st, fr, ch, ins):
        return None

    def select_stmt(self, eng, st, fr, ins):
        return None

    def grow_cap(self, oldcap, need):
        """capacity chosen by append when growing (allocator behaviour is outside every claim:
        harnesses must not depend on it beyond cap >= need)"""
        c = max(2 * oldcap, need)
        return c

    # -------------------------------------------------------------- maps (association lists)
    # map object value: tuple of (key, val) pairs, keys compared structurally; symbolic keys allowed
    def _key_eq(self, eng, st, a, b):
        if isinstance(a, StrV):
            return eng.string_binop(st, "==", a, b, None)
        if type(a) is int and type(b) is int:
            return a == b
        if type(a) is tuple:
            cs = [self._key_eq(eng, st, x, y) for x, y in zip(a, b)]
            if all(type(c) is bool for c in cs):
                return all(cs)
            return z3.And([bl(c) for c in cs])
        return bv(a, a.size() if not type(a) is int else b.size()) == bv(b, a.size() if not type(a) is int else b.size())

    def _decide(self, eng, st, c):
        """True / False when the path condition decides c, else None"""
        c = simp(c)
        if type(c) is bool:
            return c
        if eng.check(st, c) == "unsat":
            return False
        if eng.check(st, z3.Not(c)) == "unsat":
            return True
        return None

    def map_lookup(self, eng, st, m, key, mt):
        zero = eng.p.zero(mt["elem"]) if mt else None
        if m.obj is None:
            return zero, False
        res_val, res_ok = zero, False
        for k, v in st.mem[m.obj]:
            eq = self._decide(eng, st, self._key_eq(eng, st, k, key))
            if eq is True:
                return v, True
            if eq is False:
                continue
            c = simp(self._key_eq(eng, st, k, key))
            res_val = v if res_val is None else eng.ite_val(c, v, res_val, None)
            res_ok = z3.Or(c, bl(res_ok))
        return res_val, res_ok

    def map_update(self, eng, st, m, key, val):
        out = []
        replaced = False
        for k, v in st.mem[m.obj]:
            eq = self._decide(eng, st, self._key_eq(eng, st, k, key))
            if eq is True:
                out.append((k, val))
                replaced = True
            elif eq is False:
                out.append((k, v))
            else:
                raise EngineError("map update with ambiguous symbolic key equality (harness must make keys distinct or case-split)")
        if not replaced:
            out.append((key, val))
        st.mem[m.obj] = tuple(out)

    def map_delete(self, eng, st, m, key):
        if m.obj is None:
            return
        out = []
        for k, v in st.mem[m.obj]:
            eq = self._decide(eng, st, self._key_eq(eng, st, k, key))
            if eq is True:
                continue
            if eq is False:
                out.append((k, v))
                continue
            raise EngineError("map delete with ambiguous symbolic key equality")
        st.mem[m.obj] = tuple(out)

    def map_len(self, eng, st, m):
        return len(st.mem[m.obj])

    def map_keys(self, eng, st, m):
        if m.obj is None:
            return []
        return [k for k, v in st.mem[m.obj]]

    # -------------------------------------------------------------- registrations
    def _register(self):
        reg = self.reg
        H = PKG + "."

        # ---- harness API -------------------------------------------------------------
        def name_of(eng, st, s):
            bs = eng.slice_read_all(st, s, None)
            return bytes(bs).decode()

        def nondet(bits, isbool=False):
            def h(eng, st, fr, args, ins):
                nm = name_of(eng, st, args[0])
                if isbool:
                    t = eng.fresh_bool(nm)
                else:
                    t = eng.fresh(nm, bits)
                st.nondet.append((nm, t, 1 if isbool else bits))
                return t
            return h
        self.table[H + "nondetU64"] = nondet(64)
        self.table[H + "nondetI64"] = nondet(64)
        self.table[H + "nondetInt"] = nondet(64)
        self.table[H + "nondetU32"] = nondet(32)
        self.table[H + "nondetU8"] = nondet(8)
        self.table[H + "nondetBool"] = nondet(1, True)
        self.table[H + "nondetF64"] = nondet(64)

        @reg(H + "nondetBytes")
        def nondet_bytes(eng, st, fr, args, ins):
            nm = name_of(eng, st, args[0])
            n = eng.need_int(st, args[1], ins.get("pos"), "nondetBytes length")
            elems = []
            for i in range(n):
                t = eng.fresh("%s[%d]" % (nm, i), 8)
                st.nondet.append(("%s[%d]" % (nm, i), t, 8))
                elems.append(t)
            return eng.mk_slice(st, elems, label="nd")

        @reg(H + "verifChoice")
        def choice(eng, st, fr, args, ins):
            nm = name_of(eng, st, args[0])
            n = eng.need_int(st, args[1], ins.get("pos"), "verifChoice arity")
            if n == 0:
                st.status = "dead"      # no alternative: like verifAssume(false)
                return 0
            if nm in eng.choice_fix:
                v = eng.choice_fix[nm]
                if v >= n:
                    st.status = "dead"
                    return 0
                st.nondet.append((nm, v, 64))
                return v
            k = len(st.choices)
            if eng.probe_depth is not None and k >= eng.probe_depth:
                eng.probe_out.append(list(st.choices))
                st.status = "dead"
                return 0
            if k < len(eng.choice_prefix):
                v = eng.choice_prefix[k]
                if v >= n:
                    st.status = "dead"
                    return 0
                st.choices = st.choices + (v,)
                st.nondet.append((nm, v, 64))
                return v
            if eng.opts.get("choice_exact"):
                st.status = "dead"      # this job covers only the path(s) that make exactly the prescribed choices
                return 0
            items = []
            base = st.choices
            for i in range(n):
                s = st if i == n - 1 else st.fork()
                s.nondet.append((nm, i, 64))
                s.choices = base + (i,)
                items.append((s, i))
            return Forks(items)

        @reg(H + "verifAssume")
        def assume(eng, st, fr, args, ins):
            eng.assume(st, args[0])
            return None

        @reg(H + "verifAssert")
        def vassert(eng, st, fr, args, ins):
            msg = name_of(eng, st, args[1])
            eng.oblige(st, args[0], "assert", msg, ins.get("pos"))
            return None

        @reg(H + "verifReach")
        def reach(eng, st, fr, args, ins):
            st.reached.append(name_of(eng, st, args[0]))
            return None

        @reg(H + "verifKnownFinding")
        def known(eng, st, fr, args, ins):
            return name_of(eng, st, args[0]) in eng.known

        @reg(H + "verifSymbolic")
        def issym(eng, st, fr, args, ins):
            return True

        @reg(H + "verifNote")
        def note(eng, st, fr, args, ins):
            return None

        # ---- errors / fmt --------------------------------------------------------------
        @reg("errors.New")
        def errors_new(eng, st, fr, args, ins):
            return self.new_err("errors.New@%s" % ins.get("pos"))

        @reg("fmt.Errorf")
        def fmt_errorf(eng, st, fr, args, ins):
            # %w wrapping: remember a wrapped error operand if any
            wraps = None
            if isinstance(args[1], SliceV) and args[1].obj is not None:
                for a in eng.slice_read_all(st, args[1], None):
                    if isinstance(a, IfaceV) and isinstance(a.val, ErrV):
                        wraps = a
            return self.new_err("fmt.Errorf@%s" % ins.get("pos"), wraps)

        @reg("fmt.Sprintf", "fmt.Sprint", "fmt.Sprintln")
        def fmt_sprintf(eng, st, fr, args, ins):
            return eng.const_string(st, list(b"<fmt>"))

        @reg("fmt.Println", "fmt.Printf", "fmt.Print")
        def fmt_println(eng, st, fr, args, ins):
            return (0, NILIFACE)

        @reg("verif:err.Error")
        def err_error(eng, st, fr, args, ins):
            return eng.const_string(st, list(b"<error>"))

        @reg("errors.Is")
        def errors_is(eng, st, fr, args, ins):
            e, target = args
            while True:
                if e.tid is None:
                    return False
                if target.tid is not None and isinstance(e.val, ErrV) and isinstance(target.val, ErrV) and e.val.ident == target.val.ident:
                    return True
                w = e.val.wraps if isinstance(e.val, ErrV) else None
                if w is None:
                    return False
                e = w

        @reg("strconv.Itoa", "strconv.FormatInt", "strconv.FormatUint", PKG + ".Tag.String", "(%s.Tag).String" % PKG,
             "(%s.Type).String" % PKG)
        def fmt_opaque(eng, st, fr, args, ins):
            return eng.const_string(st, list(b"<str>"))

        @reg(H + "floatToString")
        def float_to_string(eng, st, fr, args, ins):
            return (eng.const_string(st, list(b"<float>")), NILIFACE)

        # ---- math ------------------------------------------------------------------------
        @reg("math.Float64bits", "math.Float64frombits", "math.Float32bits", "math.Float32frombits")
        def ident(eng, st, fr, args, ins):
            return args[0]

        @reg("math.Abs")
        def mabs(eng, st, fr, args, ins):
            x = args[0]
            return (x & M(63)) if type(x) is int else x & z3.BitVecVal(M(63), 64)

        @reg("math.IsNaN")
        def isnan(eng, st, fr, args, ins):
            return simp(z3.fpIsNaN(eng.to_fp(args[0], 64)))

        @reg("math.IsInf")
        def isinf(eng, st, fr, args, ins):
            f, sign = args
            F = eng.to_fp(f, 64)
            inf = z3.fpIsInf(F)
            sg = eng.need_int(st, sign, None, "IsInf sign")
            sg = signed(sg, 64)
            if sg > 0:
                inf = z3.And(inf, z3.Not(z3.fpIsNegative(F)))
            elif sg < 0:
                inf = z3.And(inf, z3.fpIsNegative(F))
            return simp(inf)

        # ---- math/bits: real bodies are executed (pure Go fallbacks exist) except these ----
        @reg("math/bits.TrailingZeros64")
        def tz64(eng, st, fr, args, ins):
            x = args[0]
            if type(x) is int:
                if x == 0:
                    return 64
                return (x & -x).bit_length() - 1
            r = z3.BitVecVal(64, 64)
            for i in range(63, -1, -1):
                r = z3.If(z3.Extract(i, i, x) == 1, z3.BitVecVal(i, 64), r)
            return r

        @reg("math/bits.LeadingZeros64")
        def lz64(eng, st, fr, args, ins):
            x = args[0]
            if type(x) is int:
                return 64 - x.bit_length()
            r = z3.BitVecVal(64, 64)
            for i in range(0, 64):
                r = z3.If(z3.Extract(i, i, x) == 1, z3.BitVecVal(63 - i, 64), r)
            return r

        @reg("math/bits.Len64")
        def len64(eng, st, fr, args, ins):
            x = args[0]
            if type(x) is int:
                return x.bit_length()
            r = z3.BitVecVal(0, 64)
            for i in range(0, 64):
                r = z3.If(z3.Extract(i, i, x) == 1, z3.BitVecVal(i + 1, 64), r)
            return r

        @reg("math/bits.Mul64")
        def mul64(eng, st, fr, args, ins):
            x, y = args
            if type(x) is int and type(y) is int:
                p = x * y
                return (p >> 64, p & M(64))
            X = z3.ZeroExt(64, bv(x, 64))
            Y = z3.ZeroExt(64, bv(y, 64))
            p = X * Y
            return (z3.Extract(127, 64, p), z3.Extract(63, 0, p))

        @reg("math/bits.Add64")
        def add64(eng, st, fr, args, ins):
            x, y, c = args
            if all(type(a) is int for a in args):
                s = x + y + c
                return (s & M(64), s >> 64)
            s = z3.ZeroExt(1, bv(x, 64)) + z3.ZeroExt(1, bv(y, 64)) + z3.ZeroExt(1, bv(c, 64))
            return (z3.Extract(63, 0, s), z3.ZeroExt(63, z3.Extract(64, 64, s)))

        # ---- sync --------------------------------------------------------------------------
        @reg("(*sync.WaitGroup).Add", "(*sync.WaitGroup).Done", "(*sync.WaitGroup).Wait",
             "(*sync.Mutex).Lock", "(*sync.Mutex).Unlock")
        def wg_nop(eng, st, fr, args, ins):
            return None

        @reg("(*sync.Once).Do")
        def once_do(eng, st, fr, args, ins):
            return None

        # ---- unsafe glue of the repo ---------------------------------------------------------
        @reg(H + "unsafeBytesToString")
        def b2s(eng, st, fr, args, ins):
            b = args[0]
            return StrV(b.obj, b.path, b.off, b.len)

        @reg("bytes.Equal")
        def bytes_equal(eng, st, fr, args, ins):
            a, b = args
            return eng.string_binop(st, "==", StrV(a.obj, a.path, a.off, a.len), StrV(b.obj, b.path, b.off, b.len), ins.get("pos"))

        @reg("github.com/klauspost/cpuid/v2.CPUInfo.Has", "(github.com/klauspost/cpuid/v2.CPUInfo).Has",
             "(*github.com/klauspost/cpuid/v2.CPUInfo).Has")
        def cpu_has(eng, st, fr, args, ins):
            return eng.fresh_bool("cpuid.Has")      # both kernel families (not replay-controlled: the host decides natively)

        @reg("(github.com/klauspost/cpuid/v2.CPUInfo).HasAll", "(*github.com/klauspost/cpuid/v2.CPUInfo).HasAll",
             H + "SupportedCPU")
        def cpu_hasall(eng, st, fr, args, ins):
            return True

        @reg("github.com/klauspost/cpuid/v2.CombineFeatures")
        def combine(eng, st, fr, args, ins):
            return eng.p.zero(ins["t"])


def uf_bv(cache, name, *sorts):
    f = cache.get(name)
    if f is None:
        f = z3.Function(name, *sorts)
        cache[name] = f
    return f
