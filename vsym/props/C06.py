"""C06 — AVX2 ≡ AVX-512 (DESIGN §5.6): lemma A8 on the machine code of both kernel families, lifted from the test
binary on this run.  quick: tails {0,1,31,32,33,63}; thorough: every tail 0..63; blocks {0,1,2} in both."""
from .. import lemmas_e1 as LM
from ..e1 import tv
from ..e2.checklib import run_lemmas
from .. import lemmas_stage2


def run(ctx):
    tails = LM.tails_for(ctx)
    cases = [(nb, r) for nb in (0, 1, 2) for r in tails]
    chunk = 3 if ctx.tier == "quick" else 8
    jobs = [("A8", ([k],)) for k in ("A1", "A2", "A3", "A4", "A5")]
    for i in range(0, len(cases), chunk):
        jobs.append(("A8", (["A7"], cases[i:i + chunk])))
    if getattr(ctx, "only", None):
        jobs = [j for j in jobs if any(("A8." + p) in ctx.only or p in ctx.only or "A8" in ctx.only for p in j[1][0])]
    ctx.bounds["C06"] = {"block": "64 bytes, all contents, any carry-in (inductive in the carry)",
                         "slice": "blocks in {0,1,2} x tail lengths %s" % LM._ranges(tails), "ndjson": "symbolic (Parse and ParseND)"}
    ctx.assume("apart from findStructuralIndices, which selects the kernel family and has one call site per family (decided by the U3 "
               "lemmas below: with the CPU-feature test nondeterministic both branches are executed against the same kernel contract, "
               "which includes the ndjson flag, the carries and the index-buffer arguments), the rest of Parse/ParseND is code shared by "
               "both families, so identical stage-1 output (index buffers, error mask, carries, processed) implies identical tape/strings/error")
    ctx.assume("induction over the blocks of a message from the one-step equivalences is the composition rule (not a solver inference)")
    LM.run_parallel(ctx, jobs, tv.STAGE1_OPS)
    if not getattr(ctx, "only", None) or any(o.startswith("U3") for o in ctx.only):
        run_lemmas(ctx, lemmas_stage2.u3_lemmas(ctx.tier))
