"""C11 — Serialize/Deserialize round-trips every tape (DESIGN §5.11: Z1, Z3, Z4)."""
import json, os
from .. import common
from ..e2.checklib import Lemma, run_lemmas
from ..lemmas_tape import multi_root_lemmas
from ..e2.intr_chunks import ChunkIntrinsics
from ..e2 import run as e2run

FZ = ["zz_verif_tape.go", "zz_verif_wf.go", "zz_verif_t1.go", "zz_verif_edit.go", "zz_verif_ser.go"]
SCALE = {"stringBits": "2", "tagBufSize": "4", "valBufSize": "16"}


def z1_lemmas(tier, sizes=None):
    if sizes is None:
        sizes = range(4, 8) if tier == "quick" else range(4, 9)
    ls = []
    for T in ((8, 10) if tier == "quick" else (8, 10)):
        ls.append(Lemma("Z1.RoundTrip.strings.T%d" % T, "verifHarness_Z1_RoundTrip", FZ, splits=[{"T": T - 4, "cfg": 1}],
                        split_depth="auto", intr=ChunkIntrinsics, scale=SCALE, replay_patches=("memhash",),
                        desc="as Z1.RoundTrip on flat arrays of up to %d strings of length 0..2 (equal, prefix-related, hash-colliding by "
                             "the solver's choice) and NOP runs" % ((T - 4) // 2),
                        bound="tape = %d words: up to %d strings of <= 2 bytes; string table scaled to 4 buckets" % (T, (T - 4) // 2),
                        expect_reach=["Z1.roundtrip"]))
    for T in sizes:
        ls.append(Lemma("Z1.RoundTrip.T%d" % T, "verifHarness_Z1_RoundTrip", FZ, splits=[{"T": T - 4, "cfg": 0}],
                        split_depth=("auto" if T >= 6 else 0), intr=ChunkIntrinsics, scale=SCALE, replay_patches=("memhash",),
                        desc="Deserialize(Serialize(tape)) for every well-formed tape of %d words (NOP runs, strings in Strings.B or in "
                             "Message, lengths 0/1): the result obeys the tape format (strict NOP runs) and every traversal API reads "
                             "the same abstract document incl. number tags and float flags; Serializer/destination either fresh or "
                             "with arbitrary (havoc'd) leftovers; deserializing Serializer same or fresh with another mode; memhash "
                             "uninterpreted (solver picks bucket collisions)" % T,
                        bound="tape = %d words; <= 3 distinct strings of <= 1 byte; CompressNone arms; flush constants scaled "
                              "(tagBufSize 64Ki->4, valBufSize 64Ki->16, stringBits 14->2)" % T,
                        expect_reach=["Z1.roundtrip"]))
    return ls


def z3_noasm_identical(ctx):
    """Z3: the Deserialize code is the same SSA with and without -tags noasm (so Z1's deserialize half covers both builds)."""
    files = e2run.harness_files(["zz_verif_tape.go", "zz_verif_wf.go", "zz_verif_noasm.go"])
    want = ["(*%s.Serializer).Deserialize" % common.PKG, "(*%s.Serializer).decBlock" % common.PKG]
    progs = {}
    for tags in (None, "noasm"):
        prog, info = e2run.lower(files, ["verifHarness_NoasmAnchor"], tags=tags)
        progs[tags] = prog
    diffs = []
    for fn in want:
        a = progs[None].funcs.get(fn)
        b = progs["noasm"].funcs.get(fn)
        if a is None or b is None:
            diffs.append("%s missing in one build" % fn)
            continue
        sa = json.dumps([[(i["op"], i.get("o"), i.get("pos")) for i in blk["ins"]] for blk in a["blocks"]])
        sb = json.dumps([[(i["op"], i.get("o"), i.get("pos")) for i in blk["ins"]] for blk in b["blocks"]])
        if sa != sb:
            diffs.append("%s differs between default and noasm builds" % fn)
        ctx.functions[fn + " [noasm]"] = {"instrs": b["ninstr"], "file": b.get("file")}
    if diffs:
        ctx.report_inconclusive("Z3: " + "; ".join(diffs) + " (Z1's deserialize half would have to be re-run on the noasm build)")
        ctx.add_lemma("Z3.noasm-identical", "error")
    else:
        ctx.add_lemma("Z3.noasm-identical", "holds", bound="instruction-identical SSA of Deserialize+decBlock under -tags noasm",
                      desc="syntactic comparison of the lowered SSA of both builds")
        ctx.transitions += sum(progs[None].funcs[f]["ninstr"] for f in want)


def run(ctx):
    ctx.assume("S2/zstd arms of encBlock/decBlock are third-party code outside reach: contract dec(enc(x)) = x, no other effect (trusted); "
               "only the mode-independent framing and the Uncompressed arms are executed")
    ctx.assume("the three `go func(){...}()` in Serialize are run to completion at the go statement (they write disjoint fields)")
    ctx.assume("Deserialize never reads the Serializer's comp*/fasterComp fields (so its own mode is irrelevant): checked by running it on a fresh default-mode Serializer")
    run_lemmas(ctx, multi_root_lemmas(ctx.tier) + z1_lemmas(ctx.tier))
    if not ctx.only:
        z3_noasm_identical(ctx)
