"""C04 — string escapes (DESIGN §5.4): S1–S4 on the opcode bytes of parse_string_amd64.s (lifted from the test binary on
this run) + A1/A2 for the quote/backslash carry across 64-byte blocks, both kernel families.
quick: whole-function runs (S2) up to 2 decoder iterations; thorough: up to 3."""
from .. import lemmas_e1 as LM
from .. import lemma_sets_e1 as LS
from ..e1 import tv

# ---- hook for E2 lemmas (S6: the Go wrapper parseString: padding >= maxStringSize+64, Strings.B slack 32, STRINGBUFBIT) ----
E2_LEMMAS = []      # filled in run(): lemmas_stage2.p3_escape_lemmas (S6: wrapper glue, copy decision, exposed bytes)


def run(ctx):
    from .. import lemmas_stage2
    E2_LEMMAS[:] = lemmas_stage2.p3_escape_lemmas(ctx.tier) + lemmas_stage2.s6_lemmas(ctx.tier)
    jobs = LS.string_jobs(ctx, ctx.tier)
    jobs += [(a, (fam,)) for a in ("A1", "A2") for fam in LM.FAMILIES]
    only = getattr(ctx, "only", None)
    if only:
        jobs = [j for j in jobs if j[0] in only]
    ctx.bounds["C04"] = {"S1/S3/S4": "one decoder iteration from an arbitrary cursor, 44 symbolic window bytes (inductive: every length 0..4096 "
                                     "and every start offset, the cursor being symbolic)",
                         "S2": "whole function, strings needing <= %d iterations, maxStringSize symbolic" % (2 if ctx.tier == "quick" else 3),
                         "A1/A2": "one 64-byte block, any carry-in"}
    ctx.assume("C04: composition of the one-iteration lemmas over the iterations of a string, and of the per-block lemmas over the blocks "
               "of a message, is by induction (not a solver inference)")
    ctx.assume("C04: S5/S6 (the Go wrapper establishes maxStringSize+64 readable bytes and 32 bytes of destination slack) is an E2 lemma")
    LM.run_parallel(ctx, jobs, tv.STRING_OPS + ["oe", "qm"])
    if E2_LEMMAS:
        from ..e2.checklib import run_lemmas
        run_lemmas(ctx, E2_LEMMAS)
