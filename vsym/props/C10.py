"""C10 — MarshalJSON emits valid JSON denoting the same document (DESIGN §5.10: T6, E-esc, R1/R2)."""
from ..e2.checklib import Lemma, run_lemmas
from ..lemmas_tape import multi_root_lemmas
from ..e2.intr_chunks import ChunkIntrinsics
from ..e2.intr_float import RyuStubIntrinsics

F6 = ["zz_verif_tape.go", "zz_verif_wf.go", "zz_verif_t1.go", "zz_verif_edit.go", "zz_verif_t6.go"]


def lemmas(tier):
    ls = []
    roots = range(4, 9) if tier == "quick" else range(4, 11)
    inner = range(4, 8) if tier == "quick" else range(4, 10)
    for T in roots:
        ls.append(Lemma("T6.MarshalRoot.T%d" % T, "verifHarness_T6_MarshalRoot", F6, splits=[{"T": T - 4}],
                        split_depth=("auto" if T >= 8 else 0), intr=ChunkIntrinsics,
                        desc="Iter.MarshalJSONBuffer from a fresh iterator over every well-formed tape of %d words (NOP runs incl.) = "
                             "REF-RENDER(abstract document) byte for byte at chunk level; non-finite float => error" % T,
                        bound="tape = %d words; number/string chunks opaque+injective (E-esc, R1, R2 cover the callees)" % T,
                        expect_reach=["T6.root"]))
    for T in inner:
        ls.append(Lemma("T6.MarshalInner.T%d" % T, "verifHarness_T6_MarshalInner", F6, splits=[{"T": T - 4}],
                        split_depth=("auto" if T >= 7 else 0), intr=ChunkIntrinsics,
                        desc="Array.MarshalJSON, Elements.MarshalJSON and MarshalJSON of element/member iterators (AdvanceIter, "
                             "NextElementBytes) for every container of every well-formed tape of %d words" % T,
                        bound="tape = %d words" % T, expect_reach=["T6.inner"]))
    for n in (range(0, 4) if tier == "quick" else range(0, 5)):
        ls.append(Lemma("Eesc.len%d" % n, "verifHarness_Esc", ["zz_verif_tape.go", "zz_verif_esc.go"], splits=[{"len": n}],
                        split_depth=("auto" if n >= 3 else 0),
                        desc="escapeBytes on %d fully symbolic bytes (with and without a non-empty destination) = per-byte JSON "
                             "escaping; result decodes back to the input; source untouched" % n,
                        bound="source length = %d bytes, every byte value" % n, expect_reach=["Esc"]))
    ls.append(Lemma("FP.floattext", "verifHarness_FP_FloatText", ["zz_verif_tape.go", "zz_verif_r.go"], intr=RyuStubIntrinsics, known=("F10",),
                    desc="fixed point: every float printed in 'f' format without a fraction is a canonical integer literal (so that its "
                         "re-parsed integer prints the same text); real appendFloatF/fmtF, digit generator opaque under its contract",
                    bound="all float64 with 1e-6 <= |x| < 1e21 or x = 0; generator contract: nd = 0 iff mantissa = 0, first digit non-zero, nd <= 17, -5 <= dp <= 21",
                    expect_reach=["FP.floattext"]))
    return ls


def run(ctx):
    ctx.assume("T6 compares at chunk level: strconv.AppendInt/AppendUint, appendFloat and escapeBytes are the same injective opaque "
               "chunk on the implementation and the reference side; their own lemmas: E-esc (here), R1/R2 (C18)")
    ctx.assume("fixed point (parse(text) marshals to text) is derived: text = REF-RENDER(d) and C01-C04; the only chunk whose re-typed "
               "value renders differently is -0.0 -> '-0' -> int64 0 -> '0' (known finding F10, lemma FP.floattext)")
    ctx.assume("numerically equal numbers: float text = the shortest-round-trip text strconv computes; the repository's printer against "
               "strconv (R2, R1.formatF, R1f helpers) are C18's lemmas, run here under this id as well")
    from .. import lemmas_stage2
    from . import C18
    run_lemmas(ctx, multi_root_lemmas(ctx.tier) + lemmas(ctx.tier) + lemmas_stage2.deep_lemmas(ctx.tier) + C18.lemmas(ctx.tier))
