"""C01 — Parse accepts exactly the JSON grammar (object or array at the root). DESIGN §5.1 / §10.4:
stage 1 = REF-SCAN (E1: A1-A7), string decoder verdict (E1: S1, S2), number grammar (P2), stage 2 = reference parser
(P3 tiers (i)+(ii)), the whole synchronous parseMessage incl. the Go driver of stage 1 (U1), that driver alone on free layouts (U3)."""
from ..e2.checklib import run_lemmas
from .. import lemmas_stage2, lemma_sets_e1
from . import C03


def run(ctx):
    ctx.assume("composition: stage 1 = REF-SCAN for any number of blocks follows from the one-block lemmas by induction on the carry; "
               "the stage-1 kernel contract used in U1 is exactly what A1-A7 establish; parseNumber's summary in P3/U1 is what P2 establishes; "
               "the escape-free string model in P3/U1 is the restriction of REF-STR that S1-S4 establish for the assembly")
    ctx.assume("outside the claim (statement): ill-formed surrogate escapes, bytes >= 0x80 inside strings (passed through), \\v \\f and bytes >= 0x80 at the trimmed edges")
    lemma_sets_e1.stage1_lemmas(ctx, ctx.tier)
    lemma_sets_e1.string_lemmas(ctx, "quick")      # the deeper runs (3 decoder iterations) are C04's thorough tier
    ls = []
    ls += C03.p2_lemmas(ctx.tier, lengths=(list(range(2, 9)) if ctx.tier == "quick" else None), with_long=True)
    ls += lemmas_stage2.p3_lemmas(ctx.tier, ndjson=(0,))
    ls += lemmas_stage2.p3_skeleton_lemmas(ctx.tier, ndjson=(0,))
    ls += lemmas_stage2.u1_lemmas(ctx.tier, ndjson=(0,), havoc=(0,))
    ls += lemmas_stage2.u3_lemmas(ctx.tier, ndjson=(0,))
    ls += lemmas_stage2.deep_lemmas(ctx.tier)
    run_lemmas(ctx, ls)
