"""C15 — reusing a ParsedJson or Serializer never leaks earlier state (DESIGN §5.15): one call from an arbitrary (havoc'd)
prior state satisfying the representation invariant, which every exit re-establishes => any history."""
from ..e2.checklib import Lemma, run_lemmas
from .. import lemmas_stage2
from . import C11


def run(ctx):
    ctx.assume("representation invariant of a reused internalParsedJson: indexChans nil or an empty channel of the capacity parseMessage gives it; "
               "U1 asserts the channel is empty again on every exit (success, stage-1 failure, stage-2 failure), so the invariant holds after any history")
    ctx.assume("asynchronous path (> 8 KiB): receive count = send count is part of C07")
    ls = lemmas_stage2.u1_lemmas(ctx.tier, havoc=(1,))
    ls.append(Lemma("U2.Options", "verifHarness_U2_Options", ["zz_verif_u2.go"],
                    desc="newInternalParsedJson with a reused object whose internal state is arbitrary: this call's options decide",
                    bound="all option lists of <= 2 WithCopyStrings", expect_reach=["U2.options"]))
    ls += C11.z1_lemmas(ctx.tier, sizes=(range(4, 7) if ctx.tier == "quick" else range(4, 9)))
    for nt, nv in ([(0, 0), (1, 0), (1, 1), (2, 1)] if ctx.tier == "quick" else [(0, 0), (1, 0), (0, 1), (1, 1), (2, 0), (2, 1), (1, 2)]):
        ls.append(Lemma("Z4.DstIndependence.tags%d.vals%d" % (nt, nv), "verifHarness_Z4_DstIndependence", C11.FZ + ["zz_verif_z2.go"],
                        splits=[{"ntags": nt, "nvals": nv}], split_depth=("auto" if nt >= 2 else 0), intr=C11.ChunkIntrinsics, scale=C11.SCALE,
                        replay_patches=("memhash",),
                        desc="Deserialize of the same framed blob (%d symbolic tags, %d symbolic value words, well-formed or corrupt) with fresh objects "
                             "and with a havoc'd Serializer and destination: same verdict, same tape and string table" % (nt, nv),
                        bound="tags=%d, value words=%d, declared tape <= 5 words" % (nt, nv), expect_reach=["Z4.both"]))
    run_lemmas(ctx, ls)
