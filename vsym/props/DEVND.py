from .. import lemma_sets_e1 as LS
def run(ctx):
    LS.ndjson_lemmas(ctx)
