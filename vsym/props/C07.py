"""C07 — the concurrent two-stage pipeline is schedule independent (DESIGN §5.7, lemma Q1; G2 for the sync path).

Engine E3: the goroutine bodies of parseMessage's async branch are executed from the SSA of the working tree with channel
operations, atomic adds, WaitGroup operations turned into events and memory accesses summarised per segment
(vsym/e3/extract.py); the interleavings are an integer-timestamp partial-order SMT problem (vsym/e3/po.py).

  Q1.side   syntactic side conditions on the SSA (stage 2 receives only in updateChar, reads the held buffer only in
            updateChar/peekSize)                                              -> violated = INCONCLUSIVE
  Q1.step   E2: one real updateChar/peekSize call from an arbitrary state with index < length: no receive, held buffer
            unchanged, index+1 (the inductive step behind the driver's "skip")
  Q1.a      no ring slot is written by the producer while the consumer may still read its previous occupant
  Q1.b      structural FIFO conditions (one sending thread, one receiving thread per channel; ring slot of buffer k not
            written between send k and the consumer's last read of k); every receive took its value from the send of equal ordinal
  Q1.race   no other location is accessed concurrently by both goroutines with a write
  Q1.c      no reachable stuck configuration, for every (stage-1 outcome x stage-2 outcome) scenario
  G2        sync path: for every message length <= threshold the sends of findStructuralIndices fit the channel capacity
            (integer arithmetic over constants read from the SSA + the real sync branch executed with the kernel contract)
"""
import multiprocessing as mp, os, time, traceback
import z3
from .. import common
from ..e2 import run as e2run
from ..e2.checklib import Lemma, run_lemmas
from ..e3 import extract as X, po as PO, replay as RP

PKG = common.PKG
IPJ = "(*%s.internalParsedJson)." % PKG
F_PARSE = IPJ + "parseMessage"
F_STAGE1 = IPJ + "findStructuralIndices"
F_STAGE2 = IPJ + "unifiedMachine"
F_UPD = PKG + ".updateChar"
F_PEEK = PKG + ".peekSize"
HFILES = ["zz_verif_e3.go"]


# ---------------------------------------------------------------------------------------------------------------
# constants and side conditions, read from the SSA of this run

def _ins(fn):
    for b in fn["blocks"]:
        for i in b["ins"]:
            yield b, i


def _defs(fn):
    d = {}
    for b, i in _ins(fn):
        if "r" in i:
            d[i["r"]] = i
    return d


def read_constants(prog):
    c = {}
    pm = prog.funcs.get(F_PARSE)
    s1 = prog.funcs.get(F_STAGE1)
    if pm is None or s1 is None:
        raise common.Inconclusive("parseMessage / findStructuralIndices not found in the lowered program")
    defs = _defs(pm)
    caps = [i for b, i in _ins(pm) if i["op"] == "makechan"]
    if len(caps) != 1 or caps[0]["size"].get("k") != "c":
        raise common.Inconclusive("expected exactly one make(chan ...) with constant capacity in parseMessage, found %d" % len(caps))
    c["cap"] = int(caps[0]["size"]["v"])
    c["cap_pos"] = caps[0].get("pos")
    thr = []
    for b, i in _ins(pm):
        if i["op"] == "binop" and i["o"] in (">", ">=", "<", "<="):
            for a, o in (("x", "y"), ("y", "x")):
                if i[o].get("k") == "c" and i[a].get("k") == "r":
                    d = defs.get(i[a]["n"])
                    if d is not None and d["op"] == "call" and d["call"].get("mode") == "builtin" and d["call"].get("fn") == "len":
                        thr.append((b, i, a, int(i[o]["v"])))
    if len(thr) != 1:
        raise common.Inconclusive("expected exactly one comparison of len(...) with a constant in parseMessage (the async threshold), found %d" % len(thr))
    b, i, side, v = thr[0]
    op = i["o"]
    if side == "y":
        op = {">": "<", "<": ">", ">=": "<=", "<=": ">="}[op]
    # which successor holds the `go`?
    blocks = pm["blocks"]
    nxt = blocks[b["i"]]["succs"]
    tgo = any(x["op"] == "go" for x in blocks[nxt[0]]["ins"])
    fgo = any(x["op"] == "go" for x in blocks[nxt[1]]["ins"])
    if tgo == fgo:
        raise common.Inconclusive("cannot tell which branch of the threshold test is the async one")
    if not tgo:
        op = {">": "<=", ">=": "<", "<": ">=", "<=": ">"}[op]
    if op not in (">", ">="):
        raise common.Inconclusive("async branch is taken for SHORT messages (%s %d): unexpected shape" % (op, v))
    c["threshold"] = v
    c["min_async"] = v + 1 if op == ">" else v
    c["max_sync"] = c["min_async"] - 1
    c["threshold_pos"] = i.get("pos")
    # ring geometry from the type of the `buffers` field
    for tid, t in prog.types.items():
        if t.get("name") == PKG + ".internalParsedJson" and t.get("k") == "struct":
            for f in t["fields"]:
                if f["name"] == "buffers":
                    at = prog.types[f["t"]]
                    c["slots"] = at["len"]
                    c["index_size"] = prog.types[at["elem"]]["len"]
    if "slots" not in c:
        raise common.Inconclusive("field internalParsedJson.buffers not found")
    blk = set()
    for b, i in _ins(s1):
        if i["op"] == "binop" and i["o"] in ("&", "&^") and i["y"].get("k") == "c":
            v = int(i["y"]["v"])
            blk.add(-v if i["o"] == "&" and v < 0 else v + 1)
    if len(blk) != 1:
        raise common.Inconclusive("block size mask not found exactly once in findStructuralIndices: %s" % sorted(blk))
    c["block"] = blk.pop()
    lim = set()
    for name in (PKG + ".find_structural_bits_in_slice", PKG + ".find_structural_bits_in_slice_avx512"):
        fn = prog.funcs.get(name)
        if fn is None:
            continue
        for b, i in _ins(fn):
            if i["op"] == "call" and i["call"].get("mode") == "static" and "_find_structural_bits_in_slice" in i["call"].get("fn", ""):
                for a in i["call"]["args"]:
                    if a.get("k") == "c" and prog.types[a["t"]]["k"] == "int" and a["v"] is not None and int(a["v"]) > 64:
                        lim.add(int(a["v"]))
    if len(lim) != 1:
        raise common.Inconclusive("early-exit limit passed to the kernels not found / not unique: %s" % sorted(lim))
    c["limit"] = lim.pop()
    return c


def reachable(prog, root):
    seen = set()
    work = [root]
    while work:
        n = work.pop()
        if n in seen or n not in prog.funcs:
            continue
        seen.add(n)
        for b, i in _ins(prog.funcs[n]):
            if i["op"] in ("call", "go", "defer") and i["call"].get("mode") == "static":
                work.append(i["call"]["fn"])
            if i["op"] == "makeclosure":
                work.append(i["fn"])
    return seen


def side_conditions(ctx, prog):
    """inside stage 2 channels are touched only by updateChar; indexesChan is touched only by updateChar/peekSize"""
    ipj = None
    for tid, t in prog.types.items():
        if t.get("name") == PKG + ".internalParsedJson" and t.get("k") == "struct":
            names = [f["name"] for f in t["fields"]]
            ipj = (names.index("indexChans"), names.index("indexesChan"), names.index("buffers"), names.index("buffersOffset"))
    if ipj is None or F_STAGE2 not in prog.funcs:
        raise common.Inconclusive("stage 2 not found in the lowered program")
    bad = []
    fns = reachable(prog, F_STAGE2)
    ninstr = 0
    for n in sorted(fns):
        fn = prog.funcs[n]
        rt = {}
        for p in fn["params"] + fn["freevars"]:
            rt[p["n"]] = p["t"]
        for b, i in _ins(fn):
            if "r" in i and i.get("t"):
                rt[i["r"]] = i["t"]
        for b, i in _ins(fn):
            ninstr += 1
            if i["op"] in ("send", "select", "makechan", "go") or (i["op"] == "unop" and i["o"] == "<-") or \
                    (i["op"] == "call" and i["call"].get("mode") == "builtin" and i["call"].get("fn") == "close"):
                if n != F_UPD:
                    bad.append("%s performs a channel operation / go at %s" % (n, i.get("pos")))
            if i["op"] == "fieldaddr":
                xt = rt.get(i["x"].get("n")) if i["x"].get("k") == "r" else None
                t = prog.types.get(xt, {})
                if t.get("k") == "ptr" and prog.types[t["elem"]].get("name") == PKG + ".internalParsedJson":
                    if i["i"] in (ipj[0], ipj[1], ipj[2], ipj[3]) and n not in (F_UPD, F_PEEK):
                        bad.append("%s touches internalParsedJson.%s at %s" % (n, ["indexChans", "indexesChan", "buffers", "buffersOffset"][ipj.index(i["i"])], i.get("pos")))
            if i["op"] == "call" and i["call"].get("mode") == "static" and i["call"]["fn"].startswith("sync"):
                bad.append("%s calls %s at %s" % (n, i["call"]["fn"], i.get("pos")))
    ctx.transitions += ninstr
    if bad:
        for m in bad[:4]:
            ctx.report_inconclusive("Q1.side: " + m + " (the stage-2 driver abstraction is not justified)")
        ctx.add_lemma("Q1.side", "error", bound="%d functions reachable from unifiedMachine, %d instructions" % (len(fns), ninstr))
        return False
    ctx.add_lemma("Q1.side", "holds", bound="%d functions reachable from unifiedMachine, %d instructions scanned" % (len(fns), ninstr),
                  desc="inside stage 2 every channel operation is in updateChar and the fields indexChans/indexesChan/buffers/buffersOffset are "
                       "touched only by updateChar and peekSize (syntactic scan of this run's SSA)")
    return True


# ---------------------------------------------------------------------------------------------------------------
# async region

def region_opts(c, n_buffers, msglen, kernel_mode="cover"):
    return {"choices": {"e3.msglen": msglen}, "e3_alias": {F_STAGE2: PKG + ".verifE3Stage2"},
            "merge_funcs": [F_STAGE1, F_PEEK], "e3_max_atomic": n_buffers,
            "e3_abstract": {PKG + ".indexChan": [("length", 0, c["index_size"] - 1)]},
            "e3_havoc_fields": [(PKG + ".internalParsedJson", "buffers")], "e3_widen": [F_STAGE1],
            "timeout_ms": 60000}


def p_label(t):
    acq = len([e for e in t.events if e.kind == "atomic"])
    sent = len([e for e in t.events if e.kind == "send"])
    return "stage1: %d buffers acquired, %d sent + terminator%s" % (acq, sent - 1, "" if sent - 1 == acq else " (last one abandoned: stage-1 failure)")


def c_label(t):
    names = [n for n, _, _ in t.nondet if n.startswith("e3.s2.")]
    nrecv = names.count("e3.s2.failAfterRecv")
    if not names:
        return "stage2: terminator at first receive"
    if names[-1] == "e3.s2.okAtEnd":
        return "stage2: consumed all %d buffers and the terminator (verdict arbitrary)" % nrecv
    if names[-1] == "e3.s2.failAfterRecv":
        return "stage2: fails right after receiving buffer %d" % nrecv
    return "stage2: fails at some index of buffer %d" % nrecv


_G = {}


def _ring_filter(trs, ringkey):
    def f(obj, path):
        return (obj, path[0] if path else None) == ringkey
    return f


def find_ring(P):
    """(object id, field index) of internalParsedJson.buffers in this run"""
    for (seg, kind, obj, path) in P.acc:
        tid = P.otype.get(obj)
        if tid is None:
            continue
        t = _G["prog"].types.get(tid, {})
        if t.get("name") == PKG + ".internalParsedJson":
            return obj, [f["name"] for f in t["fields"]].index("buffers")
    return None


def analyse_pair(P, C, want_replay=True):
    """all queries of one scenario; returns a picklable summary"""
    out = {"p": p_label(P), "c": c_label(C), "c_alts": sorted(set(c_label(a) for a in C.alts)), "events": len(P.events) + len(C.events),
           "status": C.status, "q": {}, "witness": {}}
    sc = PO.Scenario([P, C])
    enc = PO.PO(sc, timeout_ms=60000)
    out["unsupported"] = list(enc.unsupported)

    def pick_alt(kind):
        """the alternative of C (same events up to source positions) that a crafted document can hit exactly"""
        labs = [(c_label(a), a) for a in C.alts]
        if kind == "stuck":
            pref = [x for x in labs if "fails at some index" in x[0]] or [x for x in labs if "terminator" in x[0]] or labs
        else:
            pref = [x for x in labs if "consumed all" in x[0]] or labs
        lab, a = pref[0]
        return lab, {(e.tid, e.i): a.events[e.i].pos for e in C.events if e.i < len(a.events)}
    pcs = X.relevant_pc(C.pc, X.payload_terms(P) + X.payload_terms(C))
    ring = find_ring(P)
    r, m = enc.feasible(pcs)
    out["q"]["feasible"] = r
    # translator validation candidate: a complete schedule of the plain success scenario, to be forced natively
    nacq = len([e for e in P.events if e.kind == "atomic"])
    if want_replay and r == "sat" and nacq == _G.get("validate_k") and "abandoned" not in out["p"] and any("consumed all" in a for a in out["c_alts"]):
        lab, pos_of = pick_alt("ok")
        sch = RP.build_schedule(enc, enc.schedule(m), pos_of=pos_of)
        out["validation"] = {"kind": "benign", "c_pick": lab, "replay": {"steps": sch.steps, "slots": sch.slots, "pre_only": sch.pre_only,
                             "event_sites": sorted(sch.event_sites), "sites": sorted(sch.sites), "alias": sch.alias, "text": sch.text}}
    confl = enc.conflicts()
    ringp = [p for p in confl if ring is not None and (p[0][3], p[0][4][0] if p[0][4] else None) == ring]
    other = [p for p in confl if p not in ringp]
    out["npairs"] = (len(ringp), len(other))
    # (b) structural: every receive took the send of equal ordinal from the single sending thread
    fifo_bad = []
    for ch, rs in enc.recvs.items():
        if len(enc.sender_threads.get(ch, ())) > 1 or len(enc.recv_threads.get(ch, ())) > 1:
            fifo_bad.append("channel %s has %d sending / %d receiving threads" % (ch, len(enc.sender_threads.get(ch, ())), len(enc.recv_threads.get(ch, ()))))
        for r_ in rs:
            if isinstance(r_.src, tuple):
                s_ = enc.ev(r_.src)
                if s_.k != r_.k or s_.val is not r_.val:
                    fifo_bad.append("receive #%d on %s took send #%d" % (r_.k, ch, s_.k))
    out["fifo_bad"] = fifo_bad
    for name, pairs in (("ring", ringp), ("other", other)):
        r, w, m = enc.race_query(pairs, pcs)
        out["q"][name] = r
        if r == "sat":
            wa, ra_ = w[0], w[1]
            # orient: writer = producer side
            wpos = sc.traces[wa[0]].accpos.get((wa[1], wa[2], wa[3], wa[4]))
            rpos = sc.traces[ra_[0]].accpos.get((ra_[1], ra_[2], ra_[3], ra_[4]))
            before = [e for t, seg in ((wa[0], wa[1]), (ra_[0], ra_[1])) for e in sc.traces[t].events[:seg]]
            order = {id(e): k for k, e in enumerate(enc.schedule(m))}
            before.sort(key=lambda e: order[id(e)])
            wit = {"kind": name, "writer": {"thread": wa[0], "segment": wa[1], "loc": repr((wa[3], wa[4])), "pos": wpos},
                   "reader": {"thread": ra_[0], "segment": ra_[1], "access": ra_[2], "loc": repr((ra_[3], ra_[4])), "pos": rpos},
                   "schedule_prefix": ["t%s %s %s k=%s" % (e.tid, e.kind, e.pos, e.k) for e in before]}
            if want_replay and rpos:
                # the writer's segment ends at its next event: once that event's hook is reached the write has happened; the
                # reader is then released at its second access of the segment (it had been held there mid-buffer)
                wevs = sc.traces[wa[0]].events
                # any of the reader's statements touching this object in that segment will do
                rsites = sorted({p_ for k_, p_ in sc.traces[ra_[0]].accpos.items() if k_[0] == ra_[1] and k_[2] == ra_[3] and k_[3][:2] == ra_[4][:2]} | {rpos})
                acc_steps = [(ra_[0], ra_[1], rsites, 2 if ra_[2] == "r" else 1)]
                reach = []
                if wa[1] < len(wevs):
                    before = before + [wevs[wa[1]]]
                    reach = [wevs[wa[1]]]
                elif wpos:
                    acc_steps = [(wa[0], wa[1], wpos, 1)] + acc_steps
                lab, pos_of = pick_alt(name)
                wit["c_pick"] = lab
                sch = RP.build_schedule(enc, before, acc_steps, reach_only=reach, pos_of=pos_of)
                wit["replay"] = {"steps": sch.steps, "slots": sch.slots, "pre_only": sch.pre_only, "event_sites": sorted(sch.event_sites),
                                 "sites": sorted(sch.sites), "alias": sch.alias, "text": sch.text}
            out["witness"][name] = wit
    r, desc, mm = enc.stuck(pcs)
    out["q"]["stuck"] = r
    if r == "sat":
        m, cut = mm
        evs = enc.schedule(m, cut)
        wit = {"kind": "stuck", "config": desc, "schedule": ["t%s %s %s k=%s out=%s" % (e.tid, e.kind, e.pos, e.k, e.out) for e in evs]}
        if want_replay:
            lab, pos_of = pick_alt("stuck")
            wit["c_pick"] = lab
            sch = RP.build_schedule(enc, evs, pos_of=pos_of)
            wit["replay"] = {"steps": sch.steps, "slots": sch.slots, "pre_only": sch.pre_only, "event_sites": sorted(sch.event_sites),
                             "sites": sorted(sch.sites), "alias": sch.alias, "text": sch.text}
        out["witness"]["stuck"] = wit
    out["queries"] = enc.queries
    out["solver_s"] = enc.solver_s
    return out


def _work(i):
    try:
        reg, mains = _G["reg"], _G["mains"]
        P = mains[i]
        t0 = time.time()
        res = []
        if not P.spawns:
            return {"i": i, "error": "main-thread trace without a goroutine: " + p_label(P)}
        cs = reg.run_child(P, P.spawns[0], [P])
        raw = len(cs)
        cs = X.dedupe(cs, with_pc=False, with_pos=False)
        for C in cs:
            res.append(analyse_pair(P, C))
        eng = reg.eng
        return {"i": i, "res": res, "raw_consumer_paths": raw, "wall": time.time() - t0, "p_alts": len(P.alts), "funcs": dict(eng.funcs_used),
                "stubs": sorted(reg.intr.used), "extract_queries": eng.queries,
                "unknowns": [(u.kind, u.msg, u.pos) for u in eng.unknowns], "steps": sum(c.steps for c in cs)}
    except Exception:
        return {"i": i, "error": traceback.format_exc()}


# ---------------------------------------------------------------------------------------------------------------
# native replay

REPLAY_TEST = '''package simdjson

import (
	"bytes"
	"encoding/json"
	"fmt"
	"testing"
	"time"
)

var _ = json.Valid

// verifE3Doc builds the document of the scenario.
// style 0: "[d,d,d,...,d]" with one structural per byte and exactly nbytes bytes: every index buffer but the last covers
//          exactly `adv` bytes, so the document needs exactly ceil-ish nbytes/adv index buffers;
// style 1: numbers of varying width (no two index buffers alike), at least nbuf index buffers.
// s2fail > 0: an empty element (",,") in the middle of buffer s2fail; unbalanced: one more '[' in front (stage 2 reaches
// the terminator with an open scope).
func verifE3Doc(nbuf, nbytes, style, s2fail int, unbalanced bool, limit, adv int) []byte {
	var b bytes.Buffer
	b.WriteByte('[')
	if unbalanced {
		b.WriteByte('[')
	}
	if verifE3S1Fail {
		// a raw control character inside a string: stage 1 sends every buffer and reports failure at the end
		b.WriteString("\\"\\x01\\",")
	}
	x := uint32(12345)
	if style == 0 {
		for b.Len() < nbytes-3 {
			x = x*1664525 + 1013904223
			if s2fail > 0 && b.Len() >= adv*(s2fail-1)+adv/2 && b.Len()%%2 == 1 {
				b.WriteString(",")
				s2fail = 0
				continue
			}
			b.WriteByte('1' + byte(x>>24)%%9)
			b.WriteByte(',')
		}
		for b.Len() < nbytes-1 {
			b.WriteByte('7')
		}
		b.WriteByte(']')
		return b.Bytes()
	}
	want := (nbuf + 2) * (limit + 64)
	n := 0
	for n < want {
		x = x*1664525 + 1013904223
		w := 1 + int(x>>28)%%3
		for j := 0; j < w; j++ {
			b.WriteByte('1' + byte(x>>(8*uint(j)))%%9)
		}
		b.WriteByte(',')
		n += 2
	}
	b.WriteString("7]")
	return b.Bytes()
}

var verifE3S1Fail = %(s1fail)s

// TestVerifE3Race: the unsynchronised conflicting accesses of a Q1.race witness are confirmed by the Go race detector on an
// uninstrumented run (the schedule-forcing hooks would themselves order the two accesses) of a document of the scenario class
func TestVerifE3Race(t *testing.T) {
	doc := verifE3Doc(%(nbuf)d, %(nbytes)d, %(style)d, %(s2fail)d, %(unbalanced)s, %(limit)d, %(adv)d)
	fmt.Printf("VERIF-E3: doc %%d bytes\\n", len(doc))
	for i := 0; i < 3; i++ {
		_, err := Parse(doc, nil)
		fmt.Printf("VERIF-E3: outcome returned err=%%v\\n", err != nil)
	}
	time.Sleep(200 * time.Millisecond)
}

func TestVerifE3Replay(t *testing.T) {
	doc := verifE3Doc(%(nbuf)d, %(nbytes)d, %(style)d, %(s2fail)d, %(unbalanced)s, %(limit)d, %(adv)d)
	fmt.Printf("VERIF-E3: doc %%d bytes\\n", len(doc))
	type res struct {
		err error
		js  []byte
	}
	run := func(tid0 bool) (res, bool) {
		ch := make(chan res, 1)
		go func() {
			if tid0 {
				verifE3Enter("0")
			}
			pj, err := Parse(doc, nil)
			var js []byte
			if err == nil {
				it := pj.Iter()
				js, _ = it.MarshalJSON()
			}
			ch <- res{err, js}
		}()
		select {
		case r := <-ch:
			return r, true
		case <-time.After(%(hang)d * time.Second):
			return res{}, false
		}
	}
	%(reference)s
	verifE3Start([]verifE3Step{%(steps)s}, []int{%(slots)s}, []int{%(preonly)s}, []string{%(evsites)s}, map[string]string{%(alias)s}, %(deadline)d*time.Second)
	got, ok := run(true)
	done, total, failed := verifE3Stop()
	fmt.Printf("VERIF-E3: sched %%d/%%d\\n", done, total)
	if failed != "" {
		fmt.Printf("VERIF-E3: schedfail %%s\\n", failed)
	}
	if !ok {
		fmt.Println("VERIF-E3: outcome hang")
		return
	}
	fmt.Printf("VERIF-E3: outcome returned err=%%v\\n", got.err != nil)
	%(compare)s
}
'''

REFERENCE = '''valid := json.Valid(doc)
	fmt.Printf("VERIF-E3: reference valid=%v\\n", valid)'''
COMPARE = '''fmt.Printf("VERIF-E3: same %v\\n", valid == (got.err == nil) && (!valid || bytes.Equal(doc, got.js)))'''


def replay_witness(ctx, c, wit, scen):
    """returns (reproduced, text)"""
    rp = wit.get("replay")
    if not rp:
        return False, "no native hook site for this witness"
    kind = wit["kind"]
    # document of the scenario class
    nbuf = max(scen["nbuf"] + 2, c["cap"] + 6)
    s2fail, unbalanced, s1fail = 0, False, False
    cl = scen.get("c_pick") or scen["c"]
    if "fails" in cl:
        s2fail = int(cl.rsplit("buffer ", 1)[1])
    elif "terminator" in cl and scen.get("need_not_ok"):
        unbalanced = True
    style = 1 if kind in ("ring", "other") else 0
    if kind == "benign":
        s2fail, unbalanced = 0, False
    adv = -(-c["limit"] // c["block"]) * c["block"]
    nbytes = adv * (scen["nbuf"] - 1) + adv // 2
    files = RP.instrument(rp["sites"])
    files["zz_verif_e3rt.go"] = RP.rt_source()
    steps = ", ".join('{"%s", "%s", %d, %d}' % tuple(s) for s in rp["steps"])
    src = REPLAY_TEST % {"s1fail": "false", "nbuf": nbuf, "style": style, "s2fail": s2fail, "unbalanced": "true" if unbalanced else "false",
                         "limit": c["limit"], "adv": adv, "nbytes": nbytes, "hang": 6, "deadline": 4,
                         "steps": steps, "slots": ", ".join(str(x) for x in rp["slots"]), "preonly": ", ".join(str(x) for x in rp.get("pre_only", ())),
                         "alias": ", ".join('"%s": "%s"' % kv for kv in sorted(rp.get("alias", {}).items())),
                         "evsites": ", ".join('"%s"' % s for s in rp["event_sites"]),
                         "reference": REFERENCE if kind != "stuck" else "", "compare": COMPARE if kind != "stuck" else ""}
    files["zz_verif_e3replay_test.go"] = src
    rc, out, kv = RP.run_replay(files, "TestVerifE3Replay", timeout=120)
    ctx.replays += 1
    followed = kv.get("sched") is not None and kv["sched"].split("/")[0] == kv["sched"].split("/")[1] and "schedfail" not in kv
    text = "native: %s" % "; ".join("%s %s" % kv_ for kv_ in kv.items())
    if not kv:
        text = "native run produced no VERIF-E3 line: " + out[-400:].replace("\n", " | ")
    if kind == "benign":
        ok = followed and kv.get("outcome") == "returned err=false" and kv.get("same") == "true"
    elif kind == "stuck":
        ok = followed and kv.get("outcome") == "hang"
    else:
        ok = followed and (kv.get("same") == "false" or kv.get("outcome") == "hang")
        if not ok:
            # a race need not change the outcome of one run: confirm the unsynchronised pair with the race detector, on documents
            # of the scenario class with and without a stage-1 failure (a raw control character) and a stage-2 failure
            for s1f, s2f in ((True, max(s2fail, 1)), (False, max(s2fail, 1)), (True, 0)):
                files2 = {"zz_verif_e3rt.go": RP.rt_source()}
                files2["zz_verif_e3replay_test.go"] = REPLAY_TEST % {
                    "s1fail": "true" if s1f else "false", "nbuf": nbuf, "style": 0, "s2fail": s2f, "unbalanced": "false",
                    "limit": c["limit"], "adv": adv, "nbytes": nbytes, "hang": 6, "deadline": 4, "steps": "", "slots": "", "preonly": "",
                    "alias": "", "evsites": "", "reference": "", "compare": ""}
                rc2, out2, kv2 = RP.run_replay(files2, "TestVerifE3Race", timeout=300, extra_args=["-race"], extra_env={"CGO_ENABLED": "1"})
                ctx.replays += 1
                if "WARNING: DATA RACE" in out2:
                    locs = [l.strip() for l in out2.splitlines() if "parse_json_amd64.go" in l or "stage" in l and ".go:" in l][:4]
                    return True, "native (race detector, uninstrumented run, doc %s bytes, stage-1 failure=%s, stage-2 failure in buffer %d): DATA RACE %s" % (
                        kv2.get("doc", "?").split()[0], s1f, s2f, " | ".join(locs))
            text += "; race detector on uninstrumented runs: no report"
    return ok, text



ALLOC_TEST = '''package simdjson

import (
	"bytes"
	"fmt"
	"runtime"
	"testing"
)

// every way the package offers to obtain the parser state (fresh, reused after Parse, reused after ParseND) followed by a parse of a
// document that needs more index buffers than the ring has slots, with the producer running ahead as far as the channel lets it
func TestVerifE3Alloc(t *testing.T) {
	defer runtime.GOMAXPROCS(runtime.GOMAXPROCS(1))
	var b bytes.Buffer
	b.WriteByte('[')
	for i := 0; i < %(n)d; i++ {
		if i > 0 {
			b.WriteByte(',')
		}
		fmt.Fprintf(&b, "%%d", i)
	}
	b.WriteByte(']')
	doc := b.Bytes()
	same := true
	var reuse *ParsedJson
	for round := 0; round < 4; round++ {
		pj, err := Parse(doc, reuse)
		if err != nil {
			same = false
			fmt.Printf("VERIF-E3: detail round %%d: valid document rejected: %%v\\n", round, err)
			break
		}
		it := pj.Iter()
		js, _ := it.MarshalJSON()
		if !bytes.Equal(js, doc) {
			same = false
			fmt.Printf("VERIF-E3: detail round %%d: document differs\\n", round)
			break
		}
		reuse = pj
	}
	fmt.Printf("VERIF-E3: same %%v\\n", same)
}
'''


def alloc_sites(ctx, c):
    """Q1.alloc: the schedule lemmas analyse the channel allocated in parseMessage; every other allocation site of a channel of index
    buffers in the package (the reuse path, constructors) must leave the ring discipline intact: capacity + 2 <= slots (one buffer being
    filled by stage 1, `capacity` queued, one held by stage 2). Scanned on the SSA of the WHOLE package of this run; decided by the solver
    over the constants found; a site that breaks it is confirmed natively (reuse chain, GOMAXPROCS 1) before it is reported."""
    files = e2run.harness_files(HFILES)
    prog, info = e2run.lower(files, ["verifE3_*"], allpkg=True)
    sites = []
    for n, fn in prog.funcs.items():
        if ".verif" in n or PKG not in n:
            continue
        for b, i in _ins(fn):
            if i["op"] != "makechan":
                continue
            t = prog.types.get(i.get("t"), {})
            if t.get("k") != "chan" or t.get("s") != "chan " + PKG + ".indexChan":
                continue
            sites.append((n, i.get("pos"), i["size"]))
    ctx.transitions += sum(len(b["ins"]) for fn in prog.funcs.values() for b in fn["blocks"])
    if not sites:
        raise common.Inconclusive("Q1.alloc: no allocation site of the index channel found in the package")
    bad = []
    for n, pos, size in sites:
        if size.get("k") != "c":
            bad.append((n, pos, None))
            continue
        cap = z3.Int("cap")
        sv = z3.Solver()
        sv.add(cap == int(size["v"]), z3.Not(z3.And(cap >= 1, cap + 2 <= c["slots"], cap == c["cap"])))
        ctx.queries += 1
        if sv.check() != z3.unsat:
            bad.append((n, pos, int(size["v"])))
    if not bad:
        ctx.add_lemma("Q1.alloc", "unsat", bound="%d allocation site(s) of chan indexChan in the whole package: %s" % (len(sites), "; ".join("%s@%s" % (n.rsplit(".", 1)[-1], p) for n, p, _ in sites)),
                      desc="every allocation site of the index channel has the capacity the schedule lemmas analyse (%d) and capacity + 2 <= ring slots (%d)" % (c["cap"], c["slots"]))
        return
    nint = (c["slots"] + 4) * c["limit"]
    rc, out, kv = RP.run_replay({"zz_verif_e3alloc_test.go": ALLOC_TEST % {"n": nint}}, "TestVerifE3Alloc", timeout=240)
    ctx.replays += 1
    what = "; ".join("%s at %s allocates the index channel with capacity %s (analysed: %d; ring slots %d: capacity + 2 must not exceed them, or stage 1 "
                     "refills a slot that is still queued or held by stage 2)" % (n, p, cp, c["cap"], c["slots"]) for n, p, cp in bad)
    if kv.get("same") == "false":
        ctx.add_lemma("Q1.alloc", "sat", bound="%d allocation sites" % len(sites))
        ctx.report_violation("Q1.alloc: %s; native run (reuse chain, GOMAXPROCS 1, %d integers): %s" % (what, nint, kv.get("detail")), {"lemma": "Q1.alloc", "sites": bad, "native": kv})
    else:
        ctx.add_lemma("Q1.alloc", "error", bound="%d allocation sites" % len(sites))
        ctx.report_inconclusive("Q1.alloc: %s; not reproduced natively (%s)" % (what, (kv or out[-300:])))


# ---------------------------------------------------------------------------------------------------------------
def async_region(ctx, prog, c):
    N = 20 if ctx.tier == "quick" else 40
    msglen = max(c["min_async"], c["block"] * N + c["block"] + 1)
    msglen = ((msglen + c["block"] - 1) // c["block"]) * c["block"] + 1
    ctx.bounds["Q1"] = {"index_buffers": "<= %d acquisitions of a ring slot (every count 1..%d; paths asking for more are cut)" % (N, N), "ring_slots": c["slots"],
                        "channel_capacity": c["cap"], "message_length": msglen, "schedules": "all (timestamps are solver variables)",
                        "per_buffer_length": "any 0..%d (symbolic)" % (c["index_size"] - 1)}
    t0 = time.time()
    reg = X.Region(prog, "verifE3_ParseAsync", region_opts(c, N, msglen))
    raw = reg.run_main()
    mains = X.dedupe(raw)
    eng = reg.eng
    ctx.log("async region: main thread %d paths -> %d distinct event traces (%.1fs; %d queries, %d merges, %d paths cut at the bound, "
            "%d loop-carried terms widened, %d payloads abstracted)" % (len(raw), len(mains), time.time() - t0, eng.queries, eng.merges, eng.cuts, eng.widened, eng.abstracted))
    if eng.abstraction_failed:
        ctx.report_inconclusive("Q1: payload invariant not implied by the path condition: %s" % (eng.abstraction_failed[:3],))
    for u in eng.unknowns[:3]:
        ctx.report_inconclusive("Q1: extraction: %s %s at %s" % (u.kind, u.msg, u.pos))
    if not mains:
        raise common.Inconclusive("Q1: no main-thread trace extracted")
    if any(not t.spawns for t in mains):
        raise common.Inconclusive("Q1: parseMessage did not start a goroutine on a message of %d bytes" % msglen)
    caps = set()
    for t in mains:
        for ch, (cap, et, pos) in t.chans.items():
            caps.add(cap)
    if caps != {c["cap"]}:
        raise common.Inconclusive("Q1: executed channel capacity %s differs from the constant in the SSA (%d)" % (sorted(caps), c["cap"]))
    for fn, n in eng.funcs_used.items():
        ctx.functions[fn] = {"instrs": n, "file": prog.funcs.get(fn, {}).get("file")}
    ctx.stubs.update(reg.intr.used)
    ctx.queries += eng.queries
    ctx.solver_s += eng.solver_s
    q0 = eng.queries
    adv = -(-c["limit"] // c["block"]) * c["block"]
    vk = c["min_async"] // adv + 2
    _G.update({"reg": reg, "mains": mains, "prog": prog, "validate_k": vk if vk <= N else None})
    order = sorted(range(len(mains)), key=lambda i: -len(mains[i].events))
    procs = min(16, len(mains))
    with mp.get_context("fork").Pool(procs) as pool:
        results = pool.map(_work, order, chunksize=1)
    return N, mains, results, eng


def run_async(ctx, prog, c):
    N, mains, results, eng = async_region(ctx, prog, c)
    verdict = {"a": "unsat", "b": "holds", "race": "unsat", "c": "unsat"}
    nscen = nev = nq = 0
    solver_s = 0.0
    feas = 0
    classes = set()
    witnesses = {"ring": [], "other": [], "stuck": []}
    pairs_ring = pairs_other = 0
    for r in results:
        if "error" in r:
            ctx.report_inconclusive("Q1: worker failed: " + r["error"].strip().splitlines()[-1])
            for k in verdict:
                verdict[k] = "error"
            continue
        for u in r["unknowns"][:2]:
            ctx.report_inconclusive("Q1: consumer extraction: %s %s at %s" % u)
        for fn, n in r.get("funcs", {}).items():
            ctx.functions.setdefault(fn, {"instrs": n, "file": _G["prog"].funcs.get(fn, {}).get("file")})
        ctx.stubs.update(r.get("stubs", ()))
        raw_c = r.get("raw_consumer_paths", 0)
        ctx.extra["consumer_paths"] = ctx.extra.get("consumer_paths", 0) + raw_c
        P = mains[r["i"]]
        for s in r["res"]:
            nscen += 1
            nev += s["events"]
            nq += s["queries"]
            solver_s += s["solver_s"]
            pairs_ring += s["npairs"][0]
            pairs_other += s["npairs"][1]
            for a in s["c_alts"]:
                classes.add((s["p"], a))
            if s["unsupported"]:
                ctx.report_inconclusive("Q1: " + s["unsupported"][0])
            if s["fifo_bad"]:
                verdict["b"] = "sat"
                witnesses.setdefault("fifo", []).append((s, s["fifo_bad"]))
            q = s["q"]
            if q["feasible"] == "sat":
                feas += 1
            for k, name in (("ring", "a"), ("other", "race"), ("stuck", "c")):
                if q[k] == "unknown":
                    verdict[name] = "unknown"
                    ctx.report_inconclusive("Q1.%s: solver unknown on scenario (%s | %s)" % (name, s["p"], s["c"]))
                elif q[k] == "sat":
                    s["nbuf"] = len([e for e in P.events if e.kind == "atomic"])
                    witnesses[k].append(s)
            if q["feasible"] == "unknown":
                ctx.report_inconclusive("Q1: solver unknown on the feasibility of scenario (%s | %s)" % (s["p"], s["c"]))
    # translator validation: force one complete schedule of the plain success scenario on the real code
    vals = [(mains[r["i"]], s_) for r in results if "res" in r for s_ in r["res"] if "validation" in s_]
    if vals:
        P0, s0 = vals[0]
        s0["nbuf"] = len([e for e in P0.events if e.kind == "atomic"])
        s0["c_pick"] = s0["validation"]["c_pick"]
        try:
            okv, textv = replay_witness(ctx, c, s0["validation"], s0)
        except common.Inconclusive as e:
            okv, textv = False, str(e)
        ctx.extra["translator_validation"] = {"scenario": [s0["p"], s0["c_pick"]], "steps": len(s0["validation"]["replay"]["steps"]), "native": textv, "ok": okv}
        ctx.log("translator validation (benign schedule forced natively): %s" % textv)
        if not okv:
            ctx.report_inconclusive("Q1: a complete schedule of the success scenario predicted by the model could not be followed by the real code, or the result was wrong: %s" % textv)
    elif _G.get("validate_k") is None:
        ctx.extra["translator_validation"] = {"skipped": "a document long enough for the async branch needs more index buffers than the bound of this tier"}
    else:
        ctx.report_inconclusive("Q1: no success scenario available for translator validation")
    ctx.states += nscen
    ctx.transitions += nev * 2
    ctx.queries += nq
    ctx.nontrivial += nq
    ctx.solver_s += solver_s
    ctx.vacuity["Q1"] = {"scenarios": nscen, "scenarios_with_a_complete_schedule (twin query sat)": feas,
                         "ring conflict pairs examined": pairs_ring, "other conflict pairs examined": pairs_other,
                         "scenario classes": len(classes)}
    ctx.extra["scenario_classes_sample"] = sorted(classes)[:12]
    if feas == 0:
        ctx.report_inconclusive("Q1: vacuous: no scenario has a complete schedule")
    if pairs_ring == 0:
        ctx.report_inconclusive("Q1.a: vacuous: no producer write / consumer read pair on the ring was extracted")
    bound = "<= %d index buffers, %d slots, capacity %d, all schedules; %d scenarios (%d classes), %d events" % (N, c["slots"], c["cap"], nscen, len(classes), nev)
    # replay of witnesses: one per kind (shortest first)
    for k, name, what in (("ring", "a", "ring slot written while the consumer can still read its previous occupant"),
                          ("other", "race", "unsynchronised conflicting accesses"),
                          ("stuck", "c", "reachable configuration in which a goroutine blocks forever")):
        def natural(s):
            # scenario classes a crafted document can hit exactly come first
            p_ok = "abandoned" not in s["p"]
            alts = s["c_alts"]
            if k == "stuck":
                c_ok = any("fails at some index" in a or "terminator" in a for a in alts)
            else:
                c_ok = any("consumed all" in a for a in alts)
            big = s["nbuf"] * (-(-c["limit"] // c["block"]) * c["block"]) > c["min_async"] + c["limit"]
            return (0 if p_ok and c_ok and big else 1, s["events"])
        ws = sorted(witnesses[k], key=natural)
        if not ws:
            continue
        reproduced = None
        last = ""
        tried = 0
        for s in ws:
            if tried >= 3:
                break
            w = s["witness"][k]
            s["c_pick"] = w.get("c_pick") or s["c"]
            s["need_not_ok"] = k == "stuck" and "terminator" in s["c_pick"]
            tried += 1
            try:
                ok, text = replay_witness(ctx, c, w, s)
            except common.Inconclusive as e:
                ok, text = False, str(e)
            last = text
            if ok:
                reproduced = (s, w, text)
                break
        if reproduced:
            s, w, text = reproduced
            verdict[name] = "sat"
            ww = dict(w)
            ctx.sample({"lemma": "Q1." + name, "scenario": (s["p"], s["c"]), "witness": {kk: vv for kk, vv in ww.items() if kk != "replay"}, "native": text})
            ctx.report_violation("Q1.%s: %s in scenario (%s | %s); %d scenarios affected; %s" % (name, what, s["p"], s["c"], len(ws), text),
                                 {"lemma": "Q1." + name, "scenario": [s["p"], s["c"]], "witness": ww})
        else:
            verdict[name] = "error"
            s = ws[0]
            ctx.report_inconclusive("Q1.%s: solver found %s in %d scenarios (first: %s | %s; %s) but the schedule could not be forced natively (%s)" % (
                name, what, len(ws), s["p"], s["c"], str({kk: vv for kk, vv in s["witness"][k].items() if kk != "replay"})[:600], last))
    if verdict["b"] == "sat":
        s, bad = witnesses["fifo"][0]
        ctx.report_inconclusive("Q1.b: FIFO pairing is not structural in scenario (%s | %s): %s" % (s["p"], s["c"], bad[:2]))
        verdict["b"] = "error"
    ctx.add_lemma("Q1.a", verdict["a"], bound=bound, queries=nscen, solver_s=round(solver_s, 2),
                  desc="unsat of: some producer write to ring slot s (kernel fill or put-back store) overlaps in time a consumer read of slot s "
                       "(reads of the held buffer in updateChar/peekSize, incl. every skipped call) — over all timestamp assignments obeying the channel/go/WaitGroup rules")
    ctx.add_lemma("Q1.b", verdict["b"] if verdict["a"] in ("unsat",) or verdict["b"] != "holds" else verdict["a"], bound=bound,
                  desc="each channel has one sending and one receiving thread, so the k-th receive takes the k-th send (checked on every trace); "
                       "the value received is the value sent (same term); the buffer it points to is not written between its send and the consumer's last read (Q1.a)")
    ctx.add_lemma("Q1.race", verdict["race"], bound=bound, queries=nscen,
                  desc="unsat of: two accesses to the same non-ring location (err, WaitGroup-protected results, parser fields) from both goroutines, one a write, overlap in time")
    ctx.add_lemma("Q1.c", verdict["c"], bound=bound, queries=nscen,
                  desc="unsat of: a prefix-closed executed set that is consistent with the channel rules and in which a started goroutine's next "
                       "operation can never complete (cut encoding); scenarios = every stage-1 outcome (success / failure at any buffer) x every stage-2 "
                       "outcome (success, failure right after any receive, failure at any index, failure at the terminator)")
    ctx.sample({"lemma": "Q1", "scenarios": nscen, "classes": len(classes), "events": nev, "po_queries": nq})


# ---------------------------------------------------------------------------------------------------------------
# G2: the sync path cannot block

def g2(ctx, prog, c):
    t0 = time.time()
    blocks_needed = -(-(c["limit"] - 1) // c["block"])           # <= block indexes per block, at most one carried in
    minadv = blocks_needed * c["block"]
    n, k = z3.Ints("n k")
    s = z3.Solver()
    s.set("timeout", 60000)
    # k non-final iterations, each consuming >= minadv bytes, then a final one with >= 1 byte; sends = k + 1 + terminator
    s.add(n >= 1, n <= c["max_sync"], k >= 0, k * minadv < n)
    base = s.check()
    s.push()
    s.add(k + 2 > c["cap"])
    r = s.check()
    ctx.queries += 2
    ctx.nontrivial += 1
    wit = None
    if r == z3.sat:
        m = s.model()
        wit = {"n": m[n].as_long(), "non_final_buffers": m[k].as_long(), "sends": m[k].as_long() + 2, "capacity": c["cap"]}
    s.pop()
    ctx.vacuity["G2.arith"] = {"twin (constraints without the negated claim)": str(base)}
    bound = "every message length 1..%d; min advance per non-final buffer %d bytes (limit %d, %d-byte blocks); capacity %d" % (c["max_sync"], minadv, c["limit"], c["block"], c["cap"])
    # real code: the sync branch executed on the longest sync message with the kernel contract in 'real' mode
    real = None
    try:
        real = g2_real(ctx, prog, c, minadv)
    except common.Inconclusive as e:
        ctx.report_inconclusive("G2.real: " + str(e))
    verdict = "unsat" if r == z3.unsat else ("sat" if r == z3.sat else "unknown")
    if verdict == "unknown" or base != z3.sat:
        ctx.report_inconclusive("G2: solver unknown / vacuous")
        ctx.add_lemma("G2", "unknown", bound=bound)
        return
    need_replay = verdict == "sat" or (real is not None and real["stuck"] == "sat")
    if need_replay:
        nbytes = (wit["n"] if wit else c["max_sync"])
        ok, text = replay_sync(ctx, c, c["max_sync"])
        desc = "sync path (message <= %d bytes) can perform %s sends on a channel of capacity %d with no receiver running" % (
            c["max_sync"], wit["sends"] if wit else "more", c["cap"])
        if ok:
            ctx.report_violation("G2: %s: findStructuralIndices blocks forever; arithmetic witness %s; real-code run: %s; %s" % (desc, wit, real and real["desc"], text),
                                 {"lemma": "G2", "witness": wit, "real": real})
            ctx.add_lemma("G2", "sat", bound=bound, solver_s=round(time.time() - t0, 2))
        else:
            ctx.report_inconclusive("G2: %s (witness %s) but the native run did not hang (%s)" % (desc, wit, text))
            ctx.add_lemma("G2", "error", bound=bound)
        return
    ctx.add_lemma("G2", "unsat", bound=bound, queries=2, solver_s=round(time.time() - t0, 2),
                  desc="integer arithmetic over constants read from this run's SSA: no n <= threshold allows more than capacity sends "
                       "(non-final buffers need >= limit indexes, <= 1 index per byte, %d-byte blocks) + the real sync branch executed on a message of "
                       "the maximal sync length with the kernel contract (early exit only at the limit): no stuck configuration, max sends %s" % (
                           c["block"], real and real["max_sends"]))


def g2_real(ctx, prog, c, minadv):
    # the longest sync message, capped at what is needed for capacity+2 full buffers (more bytes only add more sends)
    n = min(c["max_sync"], (c["cap"] + 2) * minadv + 2 * c["block"] + 1)
    opts = region_opts(c, 10 ** 6, n, "real")
    opts["e3_alias"] = {F_STAGE2: PKG + ".verifE3Stage2Fail"}
    intr = X.E3Intrinsics()
    intr.kernel_mode = "real"
    reg = X.Region(prog, "verifE3_ParseAsync", opts, intr=intr)
    raw = reg.run_main()
    trs = X.dedupe(raw, with_pc=False)
    if not trs:
        raise common.Inconclusive("no trace for the sync branch")
    if any(t.spawns for t in trs):
        raise common.Inconclusive("a message of %d bytes started a goroutine (expected the sync branch)" % n)
    worst = "unsat"
    desc = None
    max_sends = 0
    nfeas = 0
    for t in trs:
        sc = PO.Scenario([t])
        enc = PO.PO(sc)
        f, _ = enc.feasible()
        r, d, _ = enc.stuck()
        ctx.queries += enc.queries
        ctx.solver_s += enc.solver_s
        ctx.states += 1
        ctx.transitions += len(t.events) * 2
        if f == "sat":
            nfeas += 1
            max_sends = max(max_sends, len(t.sends()))
        if r == "sat":
            worst = "sat"
            desc = d
        elif r == "unknown" and worst != "sat":
            worst = "unknown"
    ctx.vacuity["G2.real"] = {"traces": len(trs), "with a complete schedule": nfeas, "max sends": max_sends}
    for fn, k in reg.eng.funcs_used.items():
        ctx.functions.setdefault(fn, {"instrs": k, "file": prog.funcs.get(fn, {}).get("file")})
    return {"stuck": worst, "desc": desc, "max_sends": max_sends, "traces": len(trs), "message_length": n}


SYNC_TEST = '''package simdjson

import (
	"bytes"
	"fmt"
	"testing"
	"time"
)

func TestVerifE3Sync(t *testing.T) {
	var b bytes.Buffer
	b.WriteByte('[')
	for b.Len() < %(n)d-2 {
		b.WriteString("0,")
	}
	for b.Len() < %(n)d-1 {
		b.WriteByte('1')
	}
	b.WriteByte(']')
	doc := b.Bytes()
	fmt.Printf("VERIF-E3: doc %%d bytes\\n", len(doc))
	ch := make(chan error, 1)
	go func() {
		_, err := Parse(doc, nil)
		ch <- err
	}()
	select {
	case err := <-ch:
		fmt.Printf("VERIF-E3: outcome returned err=%%v\\n", err != nil)
	case <-time.After(6 * time.Second):
		fmt.Println("VERIF-E3: outcome hang")
	}
}
'''


def replay_sync(ctx, c, n):
    rc, out, kv = RP.run_replay({"zz_verif_e3sync_test.go": SYNC_TEST % {"n": n}}, "TestVerifE3Sync", timeout=120)
    ctx.replays += 1
    text = "native: %s" % "; ".join("%s %s" % x for x in kv.items()) if kv else "native run produced no VERIF-E3 line: " + out[-300:].replace("\n", " | ")
    return kv.get("outcome") == "hang", text


# ---------------------------------------------------------------------------------------------------------------
def sync_path_cannot_block(ctx):
    """lemma G2 on its own (used by C05): for every message length up to the async threshold the index buffers + terminator that
    findStructuralIndices can send fit the channel capacity; constants are read from this run's SSA; a sat is replayed natively
    (Parse on a dense document of the maximal sync length must not hang) before it is reported. Records lemma "G2" in ctx."""
    files = e2run.harness_files(HFILES)
    prog, info = e2run.lower(files, ["verifE3_*", "verifE3Stage2*"])
    c = read_constants(prog)
    ctx.extra.setdefault("constants_from_ssa", c)
    ctx.assume("G2: stage-1 kernels are a contract stub (at most one index per input byte, the loop is left early only once the index count has "
               "reached the limit passed by the Go wrapper, %d-byte blocks); in the sync branch no goroutine receives while findStructuralIndices runs" % c["block"])
    g2(ctx, prog, c)
    return c


def run(ctx):
    ctx.level = "model_checking"
    ctx.assume("stage-1 kernels (assembly) are a contract stub: any index count L' with L <= L' <= max(L, limit-1)+64 (limit read from the Go wrapper's "
               "argument), any carry/error state, advance = one block or everything (the events do not depend on the advance otherwise), ring "
               "contents arbitrary; A6/A7/G1 are the lemmas about their content")
    ctx.assume("unifiedMachine is replaced by a nondeterministic driver that calls the real updateChar/peekSize, may fail after any call and returns "
               "done=true only after updateChar reported the terminator; Q1.side checks on the SSA that stage 2 touches the channel/ring state nowhere else")
    ctx.assume("over-approximations inside the producer loop (each widens the set of behaviours, none removes one): the length of a sent buffer is replaced by "
               "a fresh value in 0..indexSize-1 after the solver has shown that range on the path; loop-carried integers of findStructuralIndices "
               "(stripped_index, indexTotal) are havoc'd at the loop head; ring contents read back by the producer are arbitrary")
    ctx.assume("run-time panics of the sequential code (index checks) are obligations of G1/P3/U1; E3 assumes their absence")
    ctx.assume("goroutine creation, channel, WaitGroup and atomic semantics are the Go memory model's (two timestamps per operation); "
               "the runtime scheduler may pick any order consistent with them (any GOMAXPROCS, any preemption)")
    files = e2run.harness_files(HFILES)
    t0 = time.time()
    prog, info = e2run.lower(files, ["verifE3_*", "verifE3Stage2*"])
    ctx.log("lowered: %s (%.1fs)" % (info["msg"], time.time() - t0))
    c = read_constants(prog)
    ctx.log("constants from the SSA: " + ", ".join("%s=%s" % kv for kv in sorted(c.items())))
    ctx.extra["constants_from_ssa"] = c
    only = ctx.only
    if not only or "Q1.side" in only:
        side_conditions(ctx, prog)
    if not only or "Q1.alloc" in only:
        alloc_sites(ctx, c)
    if not only or "Q1.step" in only:
        run_lemmas(ctx, [Lemma("Q1.step", "verifE3_UpdateCharStep", HFILES, expect_reach=("Q1.step",), opts={},
                               desc="one real updateChar (+peekSize) call from an arbitrary consumer state with index < length, any slot: not done, "
                                    "index+1, held buffer unchanged, no channel operation (a receive on the empty channel would be reported as blocking)",
                               bound="every slot (case split), index/length symbolic 64-bit")])
    if not only or any(o.startswith("Q1.") and o not in ("Q1.side", "Q1.step") for o in only) or "Q1" in only:
        run_async(ctx, prog, c)
    if not only or "G2" in only:
        g2(ctx, prog, c)
    if not only or any(o.startswith("U3") for o in only):
        # E3 assumes the sequential code of each stage does not panic (a panic in the stage-1 goroutine leaves stage 2 blocked on the
        # channel: "both stages always terminate" fails): the obligations of the real stage-1 driver on free layouts (U3, shared with
        # C01/C05/C06) are run under this id as the composition step
        from .. import lemmas_stage2
        lvl = ctx.level
        run_lemmas(ctx, lemmas_stage2.u3_lemmas(ctx.tier))
        ctx.level = lvl
