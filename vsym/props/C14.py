"""C14 — deletion removes exactly the selected members and all APIs agree after it (DESIGN §5.14: T5)."""
from ..e2.checklib import Lemma, run_lemmas

F = ["zz_verif_tape.go", "zz_verif_wf.go", "zz_verif_t1.go", "zz_verif_edit.go"]


def lemmas(tier):
    plan = [(4, 1, 0), (5, 1, 0), (6, 1, 2), (7, 1, 3), (4, 2, 0), (5, 2, 2)] if tier == "quick" else \
           [(4, 1, 0), (5, 1, 0), (6, 1, 2), (7, 1, 3), (8, 1, 4), (4, 2, 0), (5, 2, 2), (6, 2, 4), (4, 3, 2), (5, 3, 4)]
    ls = []
    for T, steps, sd in plan:
        ls.append(Lemma("T5.Delete.T%d.x%d" % (T, steps), "verifHarness_T5_Delete", F,
                        splits=[{"T": T - 4, "steps": steps - 1}], split_depth=("auto" if sd else 0),
                        desc="%d successive edit(s), each either Array/Object.DeleteElems on any container (every delete subset; "
                             "objects: callback only / key filter only / both / neither) or a Set* call (SetNull on containers "
                             "included); callbacks checked for order/once/own key; then frame, refWF and all traversal APIs "
                             "against the reduced abstract document" % steps,
                        bound="tape = %d words, %d successive edits, keys 1 byte (distinct when a filter is used), filters of 1-2 keys" % (T, steps),
                        expect_reach=["T5.done"]))
    return ls


def composed(tier):
    """the reader-side lemmas that run on every well-formed tape incl. every NOP-run pattern deletions can leave (adjacent separate
    runs, runs before an end tag, ...): lookup (T3), marshal (T6) and the serialize round trip (Z1), at the quick sizes"""
    from . import C10, C11, C12
    ls = [l for l in C10.lemmas("quick" if tier == "quick" else tier) if l.name.startswith("T6.")]
    ls += [l for l in C11.z1_lemmas("quick") if not l.name.endswith("strings.T10")]
    ls += [l for l in C12.lemmas("quick") if l.name.startswith("T3.") and ".cfg1." in l.name]
    return ls


def run(ctx):
    ctx.assume("key filters assume unique keys within the object (property statement); without filter duplicates are allowed")
    ctx.assume("after each edit T5 asserts refWF(after) and reads back through the traversal APIs; FindKey/FindPath/Interface/Map/Parse (T3), "
               "MarshalJSON of Iter/Array/Elements (T6) and the serialize round trip (Z1) are lemmas over every well-formed tape incl. every "
               "NOP-run pattern (the generator emits arbitrary sequences of runs), run here under this id as well: composition")
    run_lemmas(ctx, lemmas(ctx.tier) + composed(ctx.tier))
