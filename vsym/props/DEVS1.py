from .. import lemma_sets_e1 as LS
def run(ctx):
    LS.stage1_lemmas(ctx)
