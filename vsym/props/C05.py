"""C05 — no input can crash, hang or produce an untraversable result (DESIGN §5.5): the panic / bounds / unwinding /
blocks-forever obligations of the parser lemmas, collected under this id."""
from ..e2.checklib import run_lemmas
from .. import lemmas_stage2, lemma_sets_e1
from . import C03


def t8_lemmas(tier):
    from ..e2.checklib import Lemma
    from ..e2.intr_chunks import ChunkIntrinsics
    F = ["zz_verif_tape.go", "zz_verif_wf.go", "zz_verif_t1.go"]
    ls = []
    for T in (range(4, 7) if tier == "quick" else range(4, 9)):
        ls.append(Lemma("T8.TotalAtEveryPosition.T%d" % T, "verifHarness_T8_TotalAtEveryPosition", F, splits=[{"T": T - 4}], split_depth="auto", intr=ChunkIntrinsics,
                        desc="on every well-formed tape with one root of %d words, or two roots of 4 and %d words (all shapes, NOP runs), the iterator is moved "
                             "with AdvanceInto to every position (opening/closing root tags, container starts/ends, keys, values, end of tape) and every reader "
                             "(Type, Root, Object, Array, Interface, FindElement, MarshalJSON, String(Bytes/Cvt), Int, Uint, FloatFlags, Bool, PeekNext(Tag), "
                             "Advance, AdvanceIter+Interface, AdvanceInto to the end) is called on its own copy: no panic, every walk terminates" % (T, T),
                        bound="tapes of %d (and 4+%d) words, nesting <= 3, every iterator position" % (T, T), expect_reach=["T8.positioned", "T8.done"]))
    return ls


def run(ctx):
    ctx.assume("every E2 lemma treats index/slice bounds, nil dereference, explicit panic, unwinding bounds and channel operations that can never "
               "complete as obligations; every E1 lemma carries a bounds obligation per load/store against what the Go caller provides (the .bounds entries)")
    ctx.assume("traversal of deserialized tapes: C19")
    lemma_sets_e1.stage1_lemmas(ctx, ctx.tier)
    lemma_sets_e1.string_lemmas(ctx, "quick")      # window/slack bounds of the decoders; deeper runs are C04's thorough tier
    ls = []
    quick = ctx.tier == "quick"
    ls += C03.p2_lemmas(ctx.tier, lengths=(list(range(2, 7)) if quick else None), with_long=not quick)
    ls += lemmas_stage2.p3_lemmas("quick", ndjson=((0,) if quick else (0, 1)))      # the larger layouts (K4 ... K9alt) are C01's thorough tier
    ls += [l for l in lemmas_stage2.u1_lemmas(ctx.tier) if not quick or ".K2." in l.name or (".fresh" in l.name and ".json." in l.name)]
    ls += lemmas_stage2.u3_lemmas(ctx.tier)
    ls += lemmas_stage2.s6_lemmas(ctx.tier)
    ls += lemmas_stage2.deep_lemmas(ctx.tier)
    ls += t8_lemmas(ctx.tier)
    run_lemmas(ctx, ls)
    # "without deadlocking their internal stages": the schedule lemmas of the asynchronous pipeline (Q1: no stuck configuration for
    # any stage-1 outcome x stage-2 outcome, no ring overwrite) and G2 (the synchronous path cannot fill the channel) are C07's,
    # run here under this id as well
    if not ctx.only or any(o.startswith("Q1") or o == "G2" for o in ctx.only):
        from . import C07
        lvl = ctx.level
        C07.run(ctx)
        ctx.level = lvl
