"""C02 — accepted documents are exposed with exact structure, order and values.
Reader side (T1): every traversal API = the abstract document of a well-formed tape (DESIGN §4 T1).
Producer side (tape = refTape(document)): P3/G1/S3, see C01/C17 lemmas shared through vsym.lemmas_e2."""
from ..e2.checklib import Lemma, run_lemmas
from ..lemmas_tape import multi_root_lemmas

F = ["zz_verif_tape.go", "zz_verif_wf.go", "zz_verif_t1.go"]


def t1_lemmas(tier, sizes=None, stale=0):
    if sizes is None:
        sizes = range(4, 9) if tier == "quick" else range(4, 11)
    ls = []
    for mode in ("Advance", "AdvanceIter", "ForEach", "AdvanceInto"):
        for T in sizes:
            ls.append(Lemma("T1.%s.T%d%s" % (mode, T, ".staledst" if stale else ""), "verifHarness_T1_" + mode, F,
                            splits=[{"T": T - 4, "nops": 1, "staledst": stale}], split_depth=(3 if T >= 9 else (2 if T >= 8 else 0)),
                            desc="walk every well-formed single-root tape of exactly T words (all shapes incl. NOP runs, "
                                 "symbolic scalar tags/payloads/string bytes) with %s and compare with the abstract document" % mode,
                            bound="tape = %d words, nesting <= 3, string values of 0 or 1 byte, all shapes" % T,
                            expect_reach=["T1.flat" if mode == "AdvanceInto" else "T1.walk"]))
    return ls


def run(ctx):
    # strings and keys "after unescaping": the copy decoder writes exactly REF-STR's bytes and agrees with the validate-only
    # decoder that decided acceptance (E1: S1-S4, shared with C04)
    from .. import lemma_sets_e1
    lemma_sets_e1.string_lemmas(ctx, "quick")      # the deeper runs (3 decoder iterations) are C04's thorough tier
    ctx.assume("tapes are produced by the shape generator harness/zz_verif_tape.go (complete for the README tape grammar "
               "within the size bound; NOP runs as written by DeleteElems/SetNull)")
    # typed accessors on every payload (T2, shared with C12)
    from . import C12
    t2 = [l for l in C12.lemmas(ctx.tier) if l.name.startswith("T2.")]
    run_lemmas(ctx, multi_root_lemmas(ctx.tier) + t1_lemmas(ctx.tier) + t2)
