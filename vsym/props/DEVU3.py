from ..e2.checklib import run_lemmas
from .. import lemmas_stage2


def run(ctx):
    run_lemmas(ctx, lemmas_stage2.u3_lemmas(ctx.tier))
