"""C03 — numbers get the documented type and the exact value (DESIGN §5.3: P2 + T2 read side)."""
from ..e2.checklib import Lemma, run_lemmas
from ..e2.intr_num import NumIntrinsics
from ..e2.intr_stage2 import Stage2SummIntrinsics
from . import C12

PN = "github.com/minio/simdjson-go.parseNumber"


def p2_lemmas(tier, lengths=None, with_long=True):
    if lengths is None:
        lengths = list(range(2, 11)) if tier == "quick" else list(range(2, 21)) + [22, 24]
    ls = []
    longs = [21, 22] if tier == "quick" else [21, 22, 23, 25, 28, 32, 40, 48, 64, 65, 66, 67, 70]
    for L in (longs if with_long else []):
        ls.append(Lemma("P2.parseNumber.long.L%d" % L, "verifHarness_P2_ParseNumber", ["zz_verif_p2.go"],
                        splits=[{"L": L - 2, "first": f, "last": 0, "shape": 1} for f in (((0, 2) if L == 21 else (1, 2)) if tier == "quick" else range(3))],
                        opts={"merge_funcs": [PN], "oneshot": True, "timeout_ms": 120000},
                        intr=NumIntrinsics, known=("F2",),
                        desc="as P2.parseNumber on %d bytes where bytes 2..%d are constrained to digits (sign / leading zero / fraction / "
                             "exponent spellings free at both ends): the 20-digit integer limit, literals longer than any internal "
                             "buffer, through addNumber" % (L, L - 6),
                        bound="buffer = %d bytes, middle run of digits" % L, expect_reach=["P2.returned"]))
    for L in lengths:
        ls.append(Lemma("P2.parseNumber.L%d" % L, "verifHarness_P2_ParseNumber", ["zz_verif_p2.go"],
                        splits=[{"L": L - 2, "first": f, "last": e, "shape": 0} for f in range(3) for e in range(2)],
                        opts={"merge_funcs": [PN], "oneshot": True, "timeout_ms": 120000},
                        intr=NumIntrinsics, known=("F2",),
                        desc="parseNumber on %d fully symbolic bytes (first byte '-' or digit as at both call sites, last byte '}' or ']' "
                             "as stage 1 guarantees) against the RFC 8259 number DFA and the typing rule: reject <=> not a JSON number "
                             "followed by a structural/white-space byte, or value not finite; fraction/exponent => float64 without flag; "
                             "integer => int64 / uint64 / float64+FloatOverflowedInteger by exact 128-bit value; the literal handed to "
                             "strconv is exactly the number's bytes; real parseNumber loop merged per iteration" % L,
                        bound="buffer = %d bytes (literal <= %d bytes + terminator); strconv.ParseInt/ParseUint/ParseFloat as contracts" % (L, L - 1),
                        expect_reach=["P2.returned"]))
    return ls


def run(ctx):
    ctx.assume("strconv.ParseFloat is correctly rounded (Go standard library, trusted): its value is an uninterpreted function PF(literal) "
               "shared by implementation and reference, so the check covers WHICH bytes are converted and how the result is typed/flagged, "
               "not the rounding itself; ParseFloat err==nil <=> Go decimal float grammar and finite (contract)")
    ctx.assume("strconv.ParseInt/ParseUint(s,10,64): nil <=> [+-]?[0-9]+ (no sign for ParseUint) and in range, exact value; ErrRange <=> grammar ok and out of range (contract)")
    ctx.assume("call-site precondition: first byte is '-' or a digit; the message ends in '}' or ']' (stage 1's end-of-message verdict, lemma G1)")
    ls = p2_lemmas(ctx.tier)
    ls.append(Lemma("P2.handoff", "verifHarness_P2_Handoff", ["zz_verif_p2.go"], intr=Stage2SummIntrinsics,
                    desc="addNumber on literals of 66..73 bytes (digits, an exponent beyond byte 64, terminator): it hands parseNumber the whole "
                         "buffer and writes exactly its tag and value (parseNumber = uninterpreted oracle of the bytes it is given)",
                    bound="literals of 66..73 bytes", expect_reach=["P2.handoff"]))
    # read side: the numeric accessors expose tag/value/flags exactly (shared with C12)
    ls += [l for l in C12.lemmas(ctx.tier) if l.name.startswith("T2.")]
    # ... and through every way of reaching a number: each walker reports the number's type (Type(), the walker's return value) and
    # payload at every position of the tape, including a number that is the last entry of an element iterator's tape (T1, shared with C02)
    from . import C02
    ls += [l for l in C02.t1_lemmas(ctx.tier, sizes=(range(4, 8) if ctx.tier == "quick" else None)) if ".AdvanceInto." not in l.name]
    run_lemmas(ctx, ls)
