"""C16 — copied strings decouple results from the input buffer; Clone is independent (DESIGN §5.16: K1, K2, U2, S6)."""
from ..e2.checklib import Lemma, run_lemmas
from . import C02
from .. import lemmas_stage2

FK = ["zz_verif_tape.go", "zz_verif_wf.go", "zz_verif_t1.go", "zz_verif_edit.go", "zz_verif_ser.go", "zz_verif_clone.go"]


def k1_lemmas(tier):
    ls = []
    plan = [(4, 1, {}), (5, 1, {})] if tier == "quick" else [(4, 1, {}), (5, 1, {}), (6, 1, {}), (4, 2, {})]
    for T, steps, extra in plan:
        ch = {"T": T - 4, "steps": steps - 1}
        ch.update(extra)
        ls.append(Lemma("K1.Clone.T%d.x%d" % (T, steps), "verifHarness_K1_Clone", FK, splits=[ch], split_depth="auto",
                        desc="Clone (nil / zero-value / used destination with stale contents) of every well-formed tape of %d words, then %d "
                             "interleaved Set* edits on original and clone, then overwriting every buffer of the original: each side "
                             "keeps denoting its own document under all traversal APIs" % (T, steps),
                        bound="tape = %d words, %d interleaved edits" % (T, steps), expect_reach=["K1.cloned", "K1.done"]))
    # string-replacement interplay on tapes that hold a string/number: both sides append to their string buffers
    for T, steps in ((6, 2),) if tier == "quick" else ((6, 2), (6, 3)):
        ls.append(Lemma("K1.Clone.setstring.T%d.x%d" % (T, steps), "verifHarness_K1_Clone", FK,
                        splits=[{"T": T - 4, "steps": steps - 1, "op": 5, "via": 0, "strapi": 0, "setstrlen": 1}], split_depth="auto",
                        desc="as K1.Clone with every edit a SetStringBytes of one symbolic byte (both sides grow their string buffers: "
                             "shared spare capacity would let one side overwrite the other's new string)",
                        bound="tape = %d words, %d interleaved SetStringBytes calls" % (T, steps), expect_reach=["K1.cloned", "K1.done"]))
    return ls


def u2_lemma():
    return Lemma("U2.Options", "verifHarness_U2_Options", ["zz_verif_u2.go"],
                 desc="newInternalParsedJson with a reused object whose internal state is arbitrary (as returned by Parse, or a by-value "
                      "copy): string copying is on unless this call's options disable it", bound="all option lists of <= 2 WithCopyStrings",
                 expect_reach=["U2.options"])


def run(ctx):
    ctx.assume("copy mode: every generated tape with strings in Strings.B carries an ARBITRARY (symbolic) Message, so each T1/T3/T6/Z1 verdict "
               "already holds for any later overwrite of the input buffer (K2); that the parser tags every string with the buffer flag in "
               "copy mode is lemma S6 (stage 2)")
    ctx.assume("values delivered by ParseNDStream: pool/buffer discipline is part of C09 (Q2); that every chunk is parsed with string copying on, whether "
               "its ParsedJson is fresh or came through the reuse channel, is Q2.copy (E3 extraction of the real worker closure), run below")
    ls = k1_lemmas(ctx.tier)
    ls.append(u2_lemma())
    # K2: readers on copy-mode tapes with arbitrary Message contents
    ls += [l for l in C02.t1_lemmas(ctx.tier, sizes=range(4, 8)) if ".Advance." in l.name or ".AdvanceInto." in l.name]
    # ... and with the destinations of Root/Object/Array last used on ANOTHER document (the original of a clone, an earlier parse):
    # nothing of that document may show through
    ls += [l for l in C02.t1_lemmas(ctx.tier, sizes=range(5, 9), stale=1) if ".AdvanceIter." in l.name]
    # the parser side: in copy mode every string entry carries the buffer flag (asserted on every accepting path), in no-copy
    # mode the exposed document is the same
    ls += [l for l in lemmas_stage2.p3_lemmas(ctx.tier, ndjson=(0,)) if ".K3" in l.name or (ctx.tier != "quick" and ".K2" in l.name)]
    run_lemmas(ctx, ls)
    if not ctx.only or "Q2.copy" in ctx.only:
        from . import C09
        lvl = ctx.level
        ctx.q2_copy_only = True
        try:
            C09.run(ctx)
        finally:
            ctx.q2_copy_only = False
            ctx.level = lvl
