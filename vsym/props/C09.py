"""C09 — ParseNDStream delivers the same documents however the reader fragments (DESIGN §5.9, lemma Q2).

Real code: ParseNDStream, its forwarder / reader goroutine closures, the per-chunk worker closure, queueError — executed
from the SSA of the working tree by E3 (vsym/e3). Contracts: vsym/e3/ndstream.py (abstract stream + bufio, sync.Pool,
GOMAXPROCS, parseMessage uninterpreted, environment ends of res/reuse). tmpSize is scaled (declaration rewritten).

  Q2.partition  chunks handed to the parser, concatenated, are exactly the consumed prefix of the stream; at io.EOF the
                consumed prefix is the whole stream
  Q2.lf         every chunk ends right after an LF, or is the last one and the stream ended (EOF / fault) there
  Q2.blank      on a well-formed stream no chunk handed to the parser is blank-only            (expected defect F7)
  Q2.order      E3: for every completion order of the workers the forwarder delivers the chunk results in queue order,
                then the reader's error (EOF / fault), then closes res; nothing is lost before an error was delivered
  Q2.term       E3: no reachable stuck configuration (the consumer of res keeps receiving)
  Q2.race       E3: no buffer is written / Put back into the pool while a goroutine that was handed it can still read it
"""
import multiprocessing as mp, os, time, traceback
import z3
from .. import common
from ..e2 import run as e2run
from ..e2.values import *
from ..e3 import extract as X, po as PO, replay as RP, ndstream as ND
from ..e2.checklib import run_lemmas

PKG = common.PKG
F_PARSE = "(*%s.internalParsedJson).parseMessage" % PKG
HFILES = ["zz_verif_e3nd.go"]
LF, SP, LB, RB = 0x0a, 0x20, 0x5b, 0x5d
_G = {}


def base_opts(L, T=None, fault=False, g=1, **kw):
    o = {"e3_alias": {F_PARSE: "verif:nd.parse"}, "e3_no_slicing": True, "e3_stream_len": L, "e3_stream_end": L if T is None else T,
         "e3_stream_fault": fault, "e3_gomaxprocs": g, "timeout_ms": 60000}
    o.update(kw)
    return o


def new_region(prog, opts):
    return X.Region(prog, "verifE3_NDStream", opts, intr=ND.NDIntrinsics(), engine_cls=ND.NDEngine)


def split_main(prog, M):
    """(forwarder spawn, reader spawn) of the main-thread trace, told apart by their free variables"""
    fw = rd = None
    for sp in M.spawns:
        fn = prog.funcs[sp[1].name]
        names = [f["n"] for f in fn["freevars"]]
        if "f:buf" in names:
            rd = sp
        elif "f:res" in names:
            fw = sp
    if fw is None or rd is None or len(M.spawns) != 2:
        raise common.Inconclusive("Q2: ParseNDStream does not start exactly one forwarder and one reader goroutine (found %d goroutines)" % len(M.spawns))
    return fw, rd


def chunk_of(prog, spawn):
    """bytes of the chunk a worker goroutine was handed (its captured `tmp`, read in the state at the go statement)"""
    cid, callee, args, snap = spawn
    fn = prog.funcs[callee.name]
    for fv, b in zip(fn["freevars"], callee.bindings):
        if fv["n"] == "f:tmp":
            v = b
            if isinstance(v, PtrV):
                cell = snap.mem[v.obj]
                for p in v.path:
                    cell = cell[p]
                v = cell
            if not isinstance(v, SliceV):
                raise common.Inconclusive("Q2: worker closure's tmp is not a slice")
            if v.obj is None:
                return [], None
            arr = snap.mem[v.obj]
            for p in v.path:
                arr = arr[p]
            return list(arr[v.off:v.off + v.len]), v.obj
    raise common.Inconclusive("Q2: worker closure does not capture tmp")


def wf(stream):
    """well-formed NDJSON over the alphabet {LF, SP, '[', ']'}: documents are exactly "[]", at most one per line"""
    L = len(stream)
    cs = []
    for i, b in enumerate(stream):
        cs.append(z3.Or(b == LF, b == SP, b == LB, b == RB))
        cs.append(z3.Implies(b == LB, stream[i + 1] == RB if i + 1 < L else z3.BoolVal(False)))
        cs.append(z3.Implies(b == RB, stream[i - 1] == LB if i > 0 else z3.BoolVal(False)))
        if i > 0:
            cs.append(z3.Implies(b == LB, z3.Or(stream[i - 1] == LF, stream[i - 1] == SP)))
        # after a document only blanks until the end of the line
        for j in range(i + 1, L):
            cs.append(z3.Implies(z3.And([b == RB] + [stream[k] == SP for k in range(i + 1, j)]), stream[j] != LB))
            cs.append(z3.Implies(z3.And([b == RB] + [stream[k] == SP for k in range(i + 1, j)]), stream[j] != RB))
    return cs


_BLANK = {}


def is_blank(b):
    if not z3.is_expr(b):
        return z3.BoolVal(b in (0x20, 0x0a, 0x09, 0x0d, 0x0b, 0x0c))
    t = _BLANK.get(b.get_id())
    if t is None:
        t = (b, z3.Or(b == 0x20, b == 0x0a, b == 0x09, b == 0x0d, b == 0x0b, b == 0x0c))
        _BLANK[b.get_id()] = t
    return t[1]


# ---------------------------------------------------------------------------------------------------------------
# data lemmas: one worker process per stream configuration

def data_config(cfg):
    L, T, fault = cfg[:3]
    prefix = cfg[3] if len(cfg) > 3 else None
    out = {"cfg": cfg, "paths": 0, "queries": 0, "oblig": 0, "solver_s": 0.0, "viol": {}, "unknown": [], "chunks": 0, "maxchunks": 0, "steps": 0,
           "blank_candidates": 0, "sat_twins": 0}
    try:
        prog = _G["prog"]
        reg = new_region(prog, base_opts(L, T, fault, e3_parse_outcomes="ok", e3_read_prefix=prefix, e3_pool_reuse="havoc"))
        mains = reg.run_main()
        if len(mains) != 1:
            raise common.Inconclusive("Q2: %d main-thread paths (expected 1)" % len(mains))
        M = mains[0]
        fw, rd = split_main(prog, M)
        rs = reg.run_child(M, rd, [])
        out["paths"] = len(rs)
        out["queries"] += reg.eng.queries
        out["solver_s"] += reg.eng.solver_s
        out["funcs"] = dict(reg.eng.funcs_used)
        out["stubs"] = sorted(reg.intr.used)
        for u in reg.eng.unknowns[:3]:
            out["unknown"].append("%s %s at %s" % (u.kind, u.msg, u.pos))
        stream = [z3.BitVec("s!%d" % i, 8) for i in range(L)]
        wfc = wf(stream)
        WF = z3.Bool("wf!marker")
        sol = z3.Solver()
        sol.set("timeout", 60000)

        wfsel = z3.Bool("wf!sel")
        for c_ in wfc:
            sol.add(z3.Implies(wfsel, c_))
        cur_pc = [None]

        def ask(pc, extra):
            """one obligation query on the current path: the path condition is asserted once per path (incremental solver),
            the well-formedness constraints once per configuration behind a selector"""
            t0 = time.time()
            if cur_pc[0] is not pc:
                if cur_pc[0] is not None:
                    sol.pop()
                sol.push()
                for c_ in pc:
                    sol.add(c_)
                cur_pc[0] = pc
            sol.push()
            usewf = False
            for c_ in extra:
                if c_ is WF:
                    usewf = True
                else:
                    sol.add(c_)
            r = sol.check(wfsel) if usewf else sol.check()
            m = sol.model() if r == z3.sat else None
            sol.pop()
            out["queries"] += 1
            out["oblig"] += 1
            out["solver_s"] += time.time() - t0
            return ("sat" if r == z3.sat else "unsat" if r == z3.unsat else "unknown"), m

        def witness(R, m, what, k=None):
            bs = bytes(m.eval(b, model_completion=True).as_long() for b in stream)
            return {"what": what, "stream": list(bs), "stream_text": repr(bs), "reads": [list(x) for x in R.notes.get("reads", ())],
                    "fault": fault, "end": T, "chunk": k, "chunks": [len(chunk_of(prog, sp)[0]) for sp in R.spawns]}
        for R in rs:
            out["steps"] += R.steps
            if R.status != "done":
                out["viol"].setdefault("term", {"what": "reader goroutine cannot finish in isolation", "stuck": str(R.stuck_why)})
                continue
            chunks = [chunk_of(prog, sp)[0] for sp in R.spawns]
            out["chunks"] += len(chunks)
            out["maxchunks"] = max(out["maxchunks"], len(chunks))
            pos, fetched = R.notes["bufio"][0], R.notes["bufio"][1]
            pc = X.relevant_pc(R.pc, stream)
            # pieces of the stream in the order the reader cut them: chunks handed to a worker, and non-empty buffers put
            # back into the pool without being parsed ("dropped": legitimate only if blank)
            gos = [e for e in R.events if e.kind == "go"]
            pieces = [(e.i, "chunk", c_) for e, c_ in zip(gos, chunks)]
            sids = {b.get_id() for b in stream}
            for (seg, obj, ppos, data) in R.notes.get("puts", ()):
                # a buffer given back to the pool counts as a dropped piece of the stream iff it holds stream bytes only
                if data and all(z3.is_expr(b) and b.get_id() in sids for b in data):
                    pieces.append((seg - 0.5, "dropped", list(data)))
            pieces.sort(key=lambda x: x[0])
            out["dropped"] = out.get("dropped", 0) + sum(1 for p_ in pieces if p_[1] == "dropped")
            # ---- partition --------------------------------------------------------------------------------------
            flat = [b for _, _, c_ in pieces for b in c_]
            bad = None
            if len(flat) > pos:
                bad = "pieces hold %d bytes but only %d were consumed" % (len(flat), pos)
            else:
                for i, b in enumerate(flat):
                    if not (z3.is_expr(b) and b.get_id() == stream[i].get_id()):
                        r, m = ask(pc, [b != stream[i]] if z3.is_expr(b) else [stream[i] != b])
                        if r != "unsat":
                            bad = "byte %d of the concatenated chunks is not stream byte %d" % (i, i)
                            break
                if bad is None and len(flat) < pos and not fault:
                    bad = "%d bytes were consumed from the stream but only %d reached a chunk" % (pos, len(flat))
                if bad is None and not fault and pos < L:
                    bad = "io.EOF was forwarded after %d of %d stream bytes" % (pos, L)
                if bad is None and not fault and len(flat) < L:
                    bad = "stream has %d bytes, chunks hold %d" % (L, len(flat))
            badq = []
            if bad is None:
                # a dropped piece must be blank (else its documents are lost)
                for _, kind, c_ in pieces:
                    if kind == "dropped":
                        r, m = ask(pc, [z3.Not(z3.And([is_blank(b) for b in c_]))])
                        if r != "unsat":
                            bad = "a piece of %d bytes that is not blank-only was put back into the pool without being parsed" % len(c_)
                            badq = [z3.Or([b == LB for b in c_ if z3.is_expr(b)] or [z3.BoolVal(False)])]
                            break
            if bad:
                # a replayable witness: well-formed stream with a document among the bytes that never reached the parser
                missing = stream[len(flat):]
                cur = out["viol"].get("partition")
                if cur is None or cur.get("weak"):
                    r, m = ask(pc, [WF] + (badq or ([z3.Or([b == LB for b in missing])] if missing else [])))
                    if r == "sat":
                        out["viol"]["partition"] = witness(R, m, bad)
                    elif cur is None:
                        r, m = ask(pc, [WF])
                        if r == "sat":
                            w = witness(R, m, bad)
                        else:
                            r2, m2 = ask(pc, [])
                            w = witness(R, m2, bad + " (no well-formed stream follows this path: not replayable)") if r2 == "sat" else None
                            if w:
                                w["not_wf"] = True
                        if w:
                            w["weak"] = True
                            out["viol"]["partition"] = w
            # ---- every piece ends after an LF (or is the last one and the stream ended there) -----------------------
            for k, (_, kind, c_) in enumerate(pieces):
                last_piece = k == len(pieces) - 1
                if not c_:
                    continue
                ended = last_piece and pos == T and (len(flat) == pos or fault)
                if ended:
                    continue
                r, m = ask(pc, [c_[-1] != LF])
                if r == "unknown":
                    out["unknown"].append("lf query")
                elif r == "sat" and "lf" not in out["viol"]:
                    r2, m2 = ask(pc, [c_[-1] != LF, WF])
                    w = witness(R, m2 if r2 == "sat" else m, "piece %d (%s) does not end in LF and the stream goes on" % (k, kind), k)
                    if r2 != "sat":
                        w["not_wf"] = True
                    out["viol"]["lf"] = w
            for k, c_ in enumerate(chunks):
                if not c_:
                    out["viol"].setdefault("lf", {"what": "empty chunk handed to the parser", "chunk": k})
            # ---- no blank-only chunk on a well-formed stream ------------------------------------------------------
            if not fault:
                for k, c_ in enumerate(chunks):
                    if not c_:
                        continue
                    out["blank_candidates"] += 1
                    r, m = ask(pc, [WF] + [is_blank(b) for b in c_])
                    if r == "unknown":
                        out["unknown"].append("blank query")
                    elif r == "sat":
                        w = witness(R, m, "chunk %d is blank-only" % k, k)
                        cur = out["viol"].get("blank")
                        if cur is None or len(w["stream"]) < len(cur["stream"]) or (len(w["stream"]) == len(cur["stream"]) and len(w["reads"]) < len(cur["reads"])):
                            out["viol"]["blank"] = w
                        out["viol_blank_paths"] = out.get("viol_blank_paths", 0) + 1
                # vacuity twin: the path admits a well-formed stream with at least one document
                if chunks and out["sat_twins"] < 50:
                    r, m = ask(pc, [WF, z3.Or([b == LB for b in stream])] if stream else [WF])
                    if r == "sat":
                        out["sat_twins"] += 1
                        if "benign" not in out or len(R.notes.get("reads", ())) > len(out["benign"]["reads"]):
                            out["benign"] = witness(R, m, "benign")
    except common.Inconclusive as e:
        out["error"] = str(e)
    except Exception:
        out["error"] = traceback.format_exc()
    return out


DATA_TEST = '''package simdjson

import (
	"errors"
	"fmt"
	"io"
	"testing"
	"time"
)

type verifE3Script struct {
	data  []byte
	reads [][2]int
	pos   int
	i     int
	term  error
}

func (s *verifE3Script) Read(p []byte) (int, error) {
	if s.i >= len(s.reads) {
		return 0, s.term
	}
	n, e := s.reads[s.i][0], s.reads[s.i][1]
	s.i++
	copy(p, s.data[s.pos:s.pos+n])
	s.pos += n
	if e != 0 {
		return n, s.term
	}
	return n, nil
}

func TestVerifE3Stream(t *testing.T) {
	fault := errors.New("verif: reader fault")
	term := io.EOF
	if %(fault)s {
		term = fault
	}
	r := &verifE3Script{data: []byte{%(data)s}, reads: [][2]int{%(reads)s}, term: term}
	res := make(chan Stream, 64)
	ParseNDStream(r, res, nil)
	docs := 0
	var errs []string
	closed := false
	deadline := time.After(10 * time.Second)
loop:
	for {
		select {
		case s, ok := <-res:
			if !ok {
				closed = true
				break loop
			}
			if s.Error != nil {
				switch {
				case s.Error == io.EOF:
					errs = append(errs, "EOF")
				case s.Error == fault:
					errs = append(errs, "FAULT")
				default:
					errs = append(errs, "OTHER:"+s.Error.Error())
				}
				continue
			}
			it := s.Value.Iter()
			for it.Advance() == TypeRoot {
				docs++
			}
		case <-deadline:
			break loop
		}
	}
	fmt.Printf("VERIF-E3: docs %%d\\n", docs)
	fmt.Printf("VERIF-E3: errs %%v\\n", errs)
	fmt.Printf("VERIF-E3: closed %%v\\n", closed)
}
'''


def replay_data(ctx, w):
    """runs the real ParseNDStream on the witness stream with a reader that fragments exactly as in the model.
    Returns (reproduced, text). Expectation for a well-formed stream without fault: all documents, then EOF, then close."""
    if w.get("not_wf"):
        return False, "witness stream is not well-formed NDJSON: no native oracle"
    data = bytes(w["stream"])
    expect_docs = data.count(b"[]")
    reads = w["reads"]
    src = DATA_TEST % {"fault": "true" if w["fault"] else "false", "data": ", ".join(str(b) for b in data),
                       "reads": ", ".join("{%d, %d}" % (n, 1 if e else 0) for n, e in reads)}
    rc, out, kv = RP.run_replay({"zz_verif_e3stream_test.go": src}, "TestVerifE3Stream", timeout=120)
    ctx.replays += 1
    if not kv:
        return False, "native run produced no VERIF-E3 line: " + out[-300:].replace("\n", " | ")
    docs = int(kv.get("docs", "-1"))
    errs = kv.get("errs", "")
    text = "native ParseNDStream on %r with reads %s: %d documents (stream has %d), errors %s, closed %s" % (
        data, [n for n, e in reads], docs, expect_docs, errs, kv.get("closed"))
    if w["fault"]:
        bad = docs > expect_docs or "FAULT" not in errs or kv.get("closed") != "true"
    else:
        bad = docs != expect_docs or errs != "[EOF]" or kv.get("closed") != "true"
    return bad, text


def run_data(ctx, prog, Lmax):
    cfgs = []

    def add(L, T, fault):
        # big configurations are split over worker processes by the sizes of the first two underlying reads
        # (the union of the sub-runs is exactly the configuration: every execution has some first two read sizes)
        if T < 7:
            cfgs.append((L, T, fault))
            return
        for n1 in range(1, min(4, T) + 1):
            for n2 in range(0, T - n1 + 1):
                if n2 == 0 and n1 != T:
                    continue
                cfgs.append((L, T, fault, (n1, n2)))
    for L in range(0, Lmax + 1):
        add(L, L, False)
        for T in range(0, L + 1):
            add(L, T, True)
    cfgs.sort(key=lambda c: -(3 ** c[1]) / (12 if len(c) > 3 else 1))
    _G["prog"] = prog
    with mp.get_context("fork").Pool(min(16, len(cfgs))) as pool:
        results = pool.map(data_config, cfgs, chunksize=1)
    paths = sum(r["paths"] for r in results)
    chunks = sum(r["chunks"] for r in results)
    q = sum(r["queries"] for r in results)
    ss = sum(r["solver_s"] for r in results)
    ctx.states += paths
    ctx.transitions += sum(r["steps"] for r in results)
    ctx.queries += q
    ctx.nontrivial += sum(r["oblig"] for r in results)
    ctx.solver_s += ss
    for r in results:
        for fn, n in r.get("funcs", {}).items():
            ctx.functions[fn] = {"instrs": n, "file": prog.funcs.get(fn, {}).get("file")}
        ctx.stubs.update(r.get("stubs", ()))
    errs = [r["error"] for r in results if r.get("error")]
    unk = [u for r in results for u in r["unknown"]]
    bound = "streams of 0..%d symbolic bytes, every fragmentation of the underlying reads (each read 1..4 bytes through Read, any size through ReadBytes), " \
            "EOF alone or together with the last bytes, fault at every offset 0..L; tmpSize scaled to 4; %d reader paths, %d chunks" % (Lmax, paths, chunks)
    ctx.bounds["Q2.data"] = bound
    ctx.vacuity["Q2.data"] = {"reader paths": paths, "chunks examined": chunks, "max chunks on a path": max(r["maxchunks"] for r in results),
                              "paths admitting a well-formed stream with a document (twin, capped at 50 per configuration)": sum(r["sat_twins"] for r in results),
                              "blank-chunk queries": sum(r["blank_candidates"] for r in results),
                              "blank pieces dropped by the reader (each checked to be blank-only)": sum(r.get("dropped", 0) for r in results)}
    for e in errs[:3]:
        ctx.report_inconclusive("Q2.data: " + e.strip().splitlines()[-1])
    for u in unk[:3]:
        ctx.report_inconclusive("Q2.data: solver/engine unknown: " + u)
    if paths == 0 or chunks == 0:
        ctx.report_inconclusive("Q2.data: vacuous (no reader path / no chunk)")
    # translator validation: a well-formed stream + fragmentation taken from a model of one reader path, run natively
    bens = sorted([r["benign"] for r in results if "benign" in r], key=lambda w: (-len(w["stream"]), -len(w["reads"])))
    if bens:
        bad_, textv = replay_data(ctx, bens[0])
        ctx.extra["translator_validation_data"] = {"stream": bens[0]["stream_text"], "reads": bens[0]["reads"], "native": textv, "ok": not bad_}
        ctx.log("translator validation (well-formed stream of a model path run natively): %s" % textv)
        if bad_:
            ctx.report_inconclusive("Q2.data: native run disagrees with the model on a well-formed stream: %s" % textv)
    names = {"partition": "Q2.partition", "lf": "Q2.lf", "blank": "Q2.blank", "term": "Q2.reader-term"}
    descs = {"partition": "concatenation of the chunks handed to workers = consumed stream prefix (term-identical bytes); at io.EOF the whole stream was consumed",
             "lf": "unsat of: a chunk that is not the final one at the stream's end has a last byte != LF",
             "blank": "unsat of: stream well-formed (documents \"[]\", blanks, LF; one document per line) and some chunk is all white space",
             "term": "the reader goroutine runs to completion in isolation"}
    for key in ("partition", "lf", "blank"):
        ws = [r["viol"][key] for r in results if key in r["viol"]]
        lname = names[key]
        if errs or unk:
            verdict = "error"
        else:
            verdict = "unsat"
        if ws:
            ws.sort(key=lambda w: (1 if w.get("weak") else 0, len(w.get("stream", ())), len(w.get("reads", ()))))
            w = ws[0]
            npaths = sum(r.get("viol_blank_paths", 0) for r in results) if key == "blank" else len(ws)
            known = ctx.known_finding("F7") if key == "blank" else None
            ok, text = replay_data(ctx, w)
            what = "%s: %s; stream %s (%d bytes), underlying reads %s%s, chunk sizes %s" % (
                lname, w["what"], w.get("stream_text"), len(w.get("stream", ())), [n for n, e in w.get("reads", ())],
                " + fault" if w.get("fault") else "", w.get("chunks"))
            if ok and known is not None:
                ctx.report_known(known)
                ctx.log("known finding F7: witness still fails natively (%s)" % text)
                verdict = "known-finding"
            elif ok:
                verdict = "sat"
                ctx.sample({"lemma": lname, "witness": w, "native": text})
                ctx.report_violation("%s; %d configurations/paths affected; %s" % (what, npaths, text), {"lemma": lname, "witness": w, "native": text})
            else:
                verdict = "error"
                ctx.report_inconclusive("%s — solver witness did not reproduce natively (%s)" % (what, text))
        ctx.add_lemma(lname, verdict, bound=bound, queries=q, solver_s=round(ss, 2), desc=descs[key])
    if any("term" in r["viol"] for r in results):
        w = [r["viol"]["term"] for r in results if "term" in r["viol"]][0]
        ctx.report_inconclusive("Q2: reader goroutine stuck in isolation: %s" % (w,))
    return results


# ---------------------------------------------------------------------------------------------------------------
# ordering / termination / races on event shapes

def order_config(cfg):
    """cfg = (chunks c, GOMAXPROCS g, fault at end, first failing chunk f or 0, reuse capacity)"""
    c, g, fault, fail_at, reuse_cap = cfg
    out = {"cfg": cfg, "scenarios": 0, "events": 0, "queries": 0, "solver_s": 0.0, "feasible": 0, "viol": {}, "unknown": [], "fpaths": 0,
           "delivered": []}
    try:
        prog = _G["prog"]
        L = 2 * c
        # concrete stream "x\\n" * c and one fragmentation (Read gets the document byte, ReadBytes the LF): the event shape of the
        # reader does not depend on the bytes; Q2.partition/lf/blank cover the data side for every fragmentation
        script = [(1, False)] * L
        reg = new_region(prog, base_opts(L, L, fault, g, e3_reuse_cap=reuse_cap, e3_stream_bytes=[0x78, LF] * c, e3_read_script=script))
        eng = reg.eng
        mains = reg.run_main()
        M = mains[0]
        fw, rd = split_main(prog, M)
        eng.opts["e3_parse_outcomes"] = "ok"
        rs = reg.run_child(M, rd, [])
        # pick the reader path with exactly c chunks each made of a 1-byte Read and a fill of 1 byte
        R = None
        for r in rs:
            if len(r.spawns) == c and r.status == "done":
                R = r
                break
        if R is None:
            raise common.Inconclusive("Q2.order: no reader path with %d one-line chunks" % c)
        out["conc"] = [cap for ch, (cap, et, pos) in M.chans.items() if prog.types.get(et, {}).get("k") == "chan"]
        ws = []
        for k, sp in enumerate(R.spawns):
            eng.opts["e3_parse_outcomes"] = "fail" if fail_at == k + 1 else "ok"
            wt = reg.run_child(R, sp, [])
            for t_ in wt:
                for cs, cpos in t_.notes.get("parse_copy", ()):
                    ok_ = cs is True or (z3.is_expr(cs) and z3.is_true(z3.simplify(cs)))
                    if not ok_:
                        recv = any(e.kind == "tryrecv" and e.out == "recv" for e in t_.events)
                        out["viol"].setdefault("copy", {"cfg": cfg, "what": "the worker of chunk %d parses its chunk with string copying %s (%s): the delivered strings "
                                                        "point into the pooled chunk buffer, which is handed out again" % (
                                                            k, "off" if cs is False else "undetermined: " + str(cs)[:80],
                                                            "value received from reuse" if recv else "fresh value"), "pos": cpos, "reuse_recv": recv})
            # reuse: delivered / not delivered are both explored; keep the variant matching reuse_cap (recv when cap>0)
            want = "recv" if reuse_cap else "default"
            wt = [t for t in wt if any(e.kind == "tryrecv" and e.out == want for e in t.events)] or wt
            if len(wt) < 1:
                raise common.Inconclusive("Q2.order: worker %d has no trace" % k)
            ws.append(wt[0])
        fs = reg.run_child(M, fw, [R] + ws)
        out["fpaths"] = len(fs)
        out["steps"] = sum(t.steps for t in [M, R] + ws + fs)
        out["funcs"] = dict(eng.funcs_used)
        out["stubs"] = sorted(reg.intr.used)
        env = dict(M.notes.get("envchans", ()))
        if not env:
            env = dict(eng.env_chans)
        worker_of = {}
        for k, wtr in enumerate(ws):
            for e in wtr.events:
                if e.kind == "send":
                    worker_of[(wtr.tid, e.i)] = k
        # forwarder paths in which the res consumer was always ready come first (a native replay uses a buffered res)
        fs.sort(key=lambda F: sum(1 for e in F.events if e.kind == "trysend" and e.out == "default"))
        for F in fs:
            sc = PO.Scenario([M, F, R] + ws, env_chans=env)
            enc = PO.PO(sc)
            out["scenarios"] += 1
            out["events"] += sc.nevents()
            if enc.unsupported:
                out["unknown"].append(enc.unsupported[0])
            pcs = []
            r1, m1 = enc.feasible(pcs)
            if r1 == "sat":
                out["feasible"] += 1
            elif r1 == "unknown":
                out["unknown"].append("feasibility")
            # ---- delivered sequence ---------------------------------------------------------------------------
            seq = []          # per queue position: which worker's result (or 'err') the forwarder took
            delivered = []
            qpos = 0
            for e in F.events:
                if e.kind == "recv" and isinstance(e.src, tuple) and not isinstance(e.val, ChanV):
                    if e.src in worker_of:
                        seq.append(worker_of[e.src])
                    elif e.src[0] == R.tid:
                        seq.append("err")
                    else:
                        seq.append("?")
                if e.kind in ("send", "trysend") and e.out != "default" and e.ch in env:
                    delivered.append(seq[-1] if seq else None)
            expect = list(range(c)) + ["err"]
            okseq = seq == expect[:len(seq)]
            # what must be delivered: everything up to and including the first error value; afterwards drops are allowed
            first_err = (fail_at - 1) if fail_at else c
            must = expect[:first_err + 1]
            okdel = delivered[:len(must)] == must and all(x in expect for x in delivered) and delivered == sorted(delivered, key=lambda x: expect.index(x))
            closes = [e for e in F.events if e.kind == "close"]
            okclose = F.status != "done" or (len(closes) == 1 and F.events[-1].kind == "close" and closes[0].ch in env)
            if r1 == "sat" and F.status == "done" and not (okseq and okdel and okclose) and "order" not in out["viol"]:
                evs = enc.schedule(m1)
                sch = RP.build_schedule(enc, evs)
                out["viol"]["order"] = {"what": "forwarder took results in order %s (workers by spawn index; expected %s), delivered %s, close ok=%s" % (seq, expect, delivered, okclose),
                                        "cfg": cfg, "schedule": sch.text,
                                        "replay": {"steps": sch.steps, "slots": sch.slots, "pre_only": sch.pre_only, "event_sites": sorted(sch.event_sites),
                                                   "sites": sorted(sch.sites), "alias": sch.alias}}
            if r1 == "sat" and F.status == "done":
                out["delivered"].append(tuple(str(x) for x in delivered))
                if cfg == (2, 3, False, 0, 0) and "validation" not in out and okseq and okdel and okclose:
                    sch = RP.build_schedule(enc, enc.schedule(m1))
                    out["validation"] = {"cfg": cfg, "what": "benign", "replay": {"steps": sch.steps, "slots": sch.slots, "pre_only": sch.pre_only,
                                         "event_sites": sorted(sch.event_sites), "sites": sorted(sch.sites), "alias": sch.alias}}
            # ---- termination --------------------------------------------------------------------------------------
            r3, desc, mm = enc.stuck(pcs)
            if r3 == "unknown":
                out["unknown"].append("stuck query")
            elif r3 == "sat" and "term" not in out["viol"]:
                m, cut = mm
                evs = enc.schedule(m, cut)
                sch = RP.build_schedule(enc, evs)
                out["viol"]["term"] = {"what": "stuck configuration %s" % desc, "cfg": cfg, "schedule": sch.text,
                                       "replay": {"steps": sch.steps, "slots": sch.slots, "pre_only": sch.pre_only, "event_sites": sorted(sch.event_sites),
                                                  "sites": sorted(sch.sites), "alias": sch.alias}}
            # ---- races ----------------------------------------------------------------------------------------------
            pairs = enc.conflicts(lambda obj, path: not obj.startswith("g:"))
            out["pairs"] = out.get("pairs", 0) + len(pairs)
            r2, w, m2 = enc.race_query(pairs, pcs)
            if r2 == "unknown":
                out["unknown"].append("race query")
            elif r2 == "sat" and "race" not in out["viol"]:
                a, b = w[0], w[1]
                out["viol"]["race"] = {"what": "%s of %s by t%s (segment %d, %s) can overlap %s by t%s (segment %d, %s)" % (
                    a[2], a[3], a[0], a[1], sc.traces[a[0]].accpos.get((a[1], a[2], a[3], a[4])), b[2], b[0], b[1], sc.traces[b[0]].accpos.get((b[1], b[2], b[3], b[4]))), "cfg": cfg}
            out["queries"] += enc.queries
            out["solver_s"] += enc.solver_s
        out["engine_queries"] = eng.queries
    except common.Inconclusive as e:
        out["error"] = str(e)
    except Exception:
        out["error"] = traceback.format_exc()
    return out


ORDER_TEST = '''package simdjson

import (
	"fmt"
	"io"
	"runtime"
	"testing"
	"time"
)

type verifE3Lines struct {
	parts [][]byte
	i     int
}

func (s *verifE3Lines) Read(p []byte) (int, error) {
	if s.i >= len(s.parts) {
		return 0, io.EOF
	}
	n := copy(p, s.parts[s.i])
	s.i++
	return n, nil
}

func TestVerifE3Order(t *testing.T) {
	defer runtime.GOMAXPROCS(runtime.GOMAXPROCS(%(g)d))
	c := %(c)d
	r := &verifE3Lines{}
	for k := 0; k < c; k++ {
		r.parts = append(r.parts, []byte(fmt.Sprintf("[%%d]", k+1)), []byte("\\n"))
	}
	res := make(chan Stream, %(resbuf)d)
	done := make(chan struct{})
	var order []string
	var errs []string
	closed := false
	go func() {
		defer close(done)
		for {
			time.Sleep(%(delay)d * time.Millisecond)
			s, more := <-res
			if !more {
				break
			}
			if s.Error != nil {
				if s.Error == io.EOF {
					errs = append(errs, "EOF")
					order = append(order, "EOF")
				} else {
					errs = append(errs, "OTHER")
					order = append(order, "ERR")
				}
				continue
			}
			it := s.Value.Iter()
			for it.Advance() == TypeRoot {
				var a Iter
				if _, sub, err := it.Root(&a); err == nil {
					arr, _ := sub.Array(nil)
					vs, _ := arr.AsInteger()
					for _, v := range vs {
						order = append(order, fmt.Sprint(v))
					}
				}
			}
		}
		closed = true
	}()
	verifE3Start([]verifE3Step{%(steps)s}, []int{%(slots)s}, []int{%(preonly)s}, []string{%(evsites)s}, map[string]string{%(alias)s}, 4*time.Second)
	ParseNDStream(r, res, nil)
	select {
	case <-done:
	case <-time.After(8 * time.Second):
	}
	n, total, failed := verifE3Stop()
	fmt.Printf("VERIF-E3: sched %%d/%%d\\n", n, total)
	if failed != "" {
		fmt.Printf("VERIF-E3: schedfail %%s\\n", failed)
	}
	fmt.Printf("VERIF-E3: order %%v\\n", order)
	fmt.Printf("VERIF-E3: errs %%v\\n", errs)
	fmt.Printf("VERIF-E3: closed %%v\\n", closed)
}
'''


def replay_order(ctx, w, benign=False):
    rp = w["replay"]
    c, g, fault, fail_at, reuse_cap = w["cfg"]
    if fault or fail_at or reuse_cap:
        return False, "replay implemented for the plain configuration only (no fault / parse error / reuse)"
    files = RP.instrument(rp["sites"], sources=getattr(_G.get("prog"), "scaled_files", None))
    files["zz_verif_e3rt.go"] = RP.rt_source()
    steps = ", ".join('{"%s", "%s", %d, %d}' % tuple(s) for s in rp["steps"])
    files["zz_verif_e3order_test.go"] = ORDER_TEST % {
        "resbuf": 64, "delay": 0, "g": g, "c": c, "steps": steps, "slots": ", ".join(str(x) for x in rp["slots"]), "preonly": ", ".join(str(x) for x in rp.get("pre_only", ())),
        "evsites": ", ".join('"%s"' % s for s in rp["event_sites"]), "alias": ", ".join('"%s": "%s"' % kv for kv in sorted(rp.get("alias", {}).items()))}
    rc, out, kv = RP.run_replay(files, "TestVerifE3Order", timeout=120)
    ctx.replays += 1
    if not kv:
        return False, "native run produced no VERIF-E3 line: " + out[-400:].replace("\n", " | ")
    expect = "[" + " ".join([str(k + 1) for k in range(c)] + ["EOF"]) + "]"
    text = "native ParseNDStream, %d one-line chunks, GOMAXPROCS %d, forced schedule %s: delivered %s (expected %s), errors %s, closed %s%s" % (
        c, g, kv.get("sched"), kv.get("order"), expect, kv.get("errs"), kv.get("closed"), "; " + kv["schedfail"] if "schedfail" in kv else "")
    followed = kv.get("sched") is not None and kv["sched"].split("/")[0] == kv["sched"].split("/")[1] and "schedfail" not in kv
    got = kv.get("order", "[]").strip("[]").split()
    want = expect.strip("[]").split()
    if benign:
        return followed and kv.get("order") == expect and kv.get("errs") == "[EOF]" and kv.get("closed") == "true", text
    if followed:
        bad = kv.get("order") != expect or kv.get("errs") != "[EOF]" or kv.get("closed") != "true"
    else:
        # the forced schedule stalled: only an actual out-of-order delivery counts (missing items may be the stall's doing)
        bad = got != want[:len(got)]
    if not bad and not benign:
        # the witness may need a consumer of res that is not ready when the forwarder tries its non-blocking send: unbuffered
        # channel, slow consumer, no forced schedule (correct code still delivers everything, in order, then EOF, then closes)
        files["zz_verif_e3order_test.go"] = ORDER_TEST % {
            "resbuf": 0, "delay": 60, "g": g, "c": c, "steps": "", "slots": "", "preonly": "", "evsites": "", "alias": ""}
        rc, out, kv = RP.run_replay(files, "TestVerifE3Order", timeout=120)
        ctx.replays += 1
        if kv:
            bad2 = kv.get("order") != expect or kv.get("errs") != "[EOF]" or kv.get("closed") != "true"
            text += "; unbuffered res with a slow consumer: delivered %s, errors %s, closed %s" % (kv.get("order"), kv.get("errs"), kv.get("closed"))
            return bad2, text
    return bad, text


COPY_TEST = r'''package simdjson

import (
	"fmt"
	"strings"
	"testing"
)

// every value ParseNDStream delivers, with and without recycling values through the reuse channel, holds its strings in its own
// buffer (copy mode: every string entry of the tape carries the buffer flag)
func TestVerifE3Copy(t *testing.T) {
	same := true
	reuse := make(chan *ParsedJson, 64)
	for round := 0; round < 4 && same; round++ {
		res := make(chan Stream, 64)
		ParseNDStream(strings.NewReader("[\"ab\",{\"k\":\"v\"}]\n[\"cd\"]\n[\"ef\"]\n"), res, reuse)
		for r := range res {
			if r.Error != nil || r.Value == nil {
				continue
			}
			pj := r.Value
			for i := 0; i < len(pj.Tape); i++ {
				switch byte(pj.Tape[i] >> 56) {
				case '"':
					if pj.Tape[i]&STRINGBUFBIT == 0 {
						same = false
						fmt.Printf("VERIF-E3: detail round %d: a delivered string points into the chunk buffer (tape entry %d)\n", round, i)
					}
					i++
				case 'l', 'u', 'd':
					i++
				}
			}
			reuse <- pj
		}
	}
	fmt.Printf("VERIF-E3: same %v\n", same)
}
'''


def run_order(ctx, prog, Cmax, copy_only=False):
    cfgs = []
    for c in range(0, Cmax + 1):
        gs = sorted({min(2 * k - 1, 16) for k in range(1, min(8, c + 2) + 1)})     # GOMAXPROCS values giving conc = 1..min(8,c+2)
        for g in gs:
            cfgs.append((c, g, False, 0, 0))
            if c:
                cfgs.append((c, g, True, 0, 0))
        for f in range(1, c + 1):
            cfgs.append((c, 16, False, f, 0))
        if c:
            cfgs.append((c, 16, False, 0, 2000))
            cfgs.append((c, 16, False, 0, 8))
    if copy_only:
        cfgs = [x for x in cfgs if x[0] in (1, 2) and x[1] == 16 and not x[2] and not x[3]]
    cfgs.sort(key=lambda x: -x[0])
    _G["prog"] = prog
    with mp.get_context("fork").Pool(min(16, len(cfgs))) as pool:
        results = pool.map(order_config, cfgs, chunksize=1)
    nsc = sum(r["scenarios"] for r in results)
    nev = sum(r["events"] for r in results)
    q = sum(r["queries"] for r in results)
    ss = sum(r["solver_s"] for r in results)
    feas = sum(r["feasible"] for r in results)
    ctx.states += nsc
    ctx.transitions += 2 * nev
    ctx.queries += q + sum(r.get("engine_queries", 0) for r in results)
    ctx.nontrivial += q
    ctx.solver_s += ss
    for r in results:
        for fn, n in r.get("funcs", {}).items():
            ctx.functions[fn] = {"instrs": n, "file": prog.funcs.get(fn, {}).get("file")}
        ctx.stubs.update(r.get("stubs", ()))
    concs = sorted({x for r in results for x in r.get("conc", ())})
    errs = [r["error"] for r in results if r.get("error")]
    unk = [u for r in results for u in r["unknown"]]
    for e in errs[:3]:
        ctx.report_inconclusive("Q2.order: " + e.strip().splitlines()[-1])
    for u in unk[:3]:
        ctx.report_inconclusive("Q2.order: unknown/unsupported: " + u)
    bound = "0..%d chunks; queue capacities %s (GOMAXPROCS 1..16); EOF and reader-fault endings; a parse error at any chunk; reuse channel silent / delivering " \
            "(large and small buffers); every completion order of the workers and every readiness of the res consumer; %d configurations, %d scenarios, %d events" % (
                Cmax, concs, len(cfgs), nsc, nev)
    ctx.bounds["Q2.order"] = bound
    ctx.vacuity["Q2.order"] = {"scenarios": nsc, "with a complete schedule (twin)": feas, "conflict pairs examined": sum(r.get("pairs", 0) for r in results),
                               "distinct delivered sequences": len({d for r in results for d in r["delivered"]})}
    if feas == 0:
        ctx.report_inconclusive("Q2.order: vacuous (no scenario has a complete schedule)")
    descs = {"order": "on every feasible scenario the forwarder receives the per-chunk results in queue order from the worker of that chunk, forwards every result "
                      "up to the first error value, never reorders, forwards the reader's error last and closes res as its last action; a receive that could take "
                      "another worker's value is explored as a scenario and refuted/confirmed by the timestamp constraints",
             "term": "unsat of the stuck-configuration query on every scenario (consumer of res live)",
             "race": "unsat of: two accesses to the same non-global object from different goroutines, one a write (incl. sync.Pool.Put = ownership given up), overlap in time"}
    descs["copy"] = "every worker closure of ParseNDStream (fresh value or one received from reuse) reaches parseMessage with copyStrings == true"
    for key, lname in ((("copy", "Q2.copy"),) if copy_only else (("order", "Q2.order"), ("term", "Q2.term"), ("race", "Q2.race"), ("copy", "Q2.copy"))):
        ws = [r["viol"][key] for r in results if key in r["viol"]]
        if key == "copy":
            verdict = "error" if (errs or unk) else "unsat"
            if ws:
                rc, out_, kv = RP.run_replay({"zz_verif_e3copy_test.go": COPY_TEST}, "TestVerifE3Copy", timeout=120)
                ctx.replays += 1
                if kv.get("same") == "false":
                    verdict = "sat"
                    ctx.report_violation("Q2.copy: %s (at %s); %d configurations affected; native run with a reuse chain: %s" % (ws[0]["what"], ws[0]["pos"], len(ws), kv.get("detail")),
                                         {"lemma": "Q2.copy", "witness": ws[0], "native": kv})
                else:
                    verdict = "error"
                    ctx.report_inconclusive("Q2.copy: %s - not reproduced natively (%s)" % (ws[0]["what"], kv or out_[-300:]))
            ctx.add_lemma(lname, verdict, bound=bound, desc=descs[key])
            continue
        verdict = "error" if (errs or unk) else "unsat"
        if ws:
            ws.sort(key=lambda w: (w["cfg"][2], w["cfg"][3], w["cfg"][4], w["cfg"][0], w["cfg"][1]))
            w = ws[0]
            reproduced = None
            text = ""
            if key in ("order", "term"):
                for cand in ws[:3]:
                    try:
                        ok, text = replay_order(ctx, cand)
                    except common.Inconclusive as e:
                        ok, text = False, str(e)
                    if ok:
                        reproduced = cand
                        break
            else:
                text = "no native replay for pool/buffer races (the Go race detector does not see sync.Pool ownership)"
            if reproduced:
                verdict = "sat"
                ww = {k: v for k, v in reproduced.items() if k != "replay"}
                ctx.sample({"lemma": lname, "witness": ww, "native": text})
                ctx.report_violation("%s: %s (chunks %d, GOMAXPROCS %d); %d configurations affected; %s" % (lname, reproduced["what"], reproduced["cfg"][0], reproduced["cfg"][1], len(ws), text),
                                     {"lemma": lname, "witness": reproduced, "native": text})
            else:
                verdict = "error"
                ctx.report_inconclusive("%s: solver found: %s (cfg %s; %d configurations) — not reproduced natively (%s)" % (lname, w["what"], w["cfg"], len(ws), text))
        ctx.add_lemma(lname, verdict, bound=bound, queries=q, solver_s=round(ss, 2), desc=descs[key])
    if copy_only:
        return
    ctx.sample({"lemma": "Q2.order", "scenarios": nsc, "events": nev, "queue capacities": concs})
    # translator validation: one complete schedule of a plain scenario, predicted by the model, forced on the real code
    vals = [r["validation"] for r in results if "validation" in r]
    if vals:
        try:
            okv, textv = replay_order(ctx, vals[0], benign=True)
        except common.Inconclusive as e:
            okv, textv = False, str(e)
        ctx.extra["translator_validation"] = {"cfg": vals[0]["cfg"], "steps": len(vals[0]["replay"]["steps"]), "native": textv, "ok": okv}
        ctx.log("translator validation (benign schedule forced natively): %s" % textv)
        if not okv:
            ctx.report_inconclusive("Q2.order: a complete schedule predicted by the model could not be followed by the real code, or the deliveries differ: %s" % textv)
    elif not errs:
        ctx.report_inconclusive("Q2.order: no plain scenario available for translator validation")


# ---------------------------------------------------------------------------------------------------------------
def side_conditions(ctx, prog):
    """the GOMAXPROCS-derived value is used where the model expects it; parseMessage is called only by the worker"""
    fn = prog.funcs.get(PKG + ".ParseNDStream")
    if fn is None:
        raise common.Inconclusive("ParseNDStream not found")
    callers = []
    for name, f in prog.funcs.items():
        if "ParseNDStream" not in name:
            continue
        for b in f["blocks"]:
            for i in b["ins"]:
                if i["op"] == "call" and i["call"].get("mode") == "static" and i["call"]["fn"] == F_PARSE:
                    callers.append(name)
    if len(callers) != 1:
        ctx.report_inconclusive("Q2.side: parseMessage is called from %d places inside ParseNDStream (the uninterpreted-parser stub assumes exactly the worker)" % len(callers))
        return False
    return True


def run(ctx):
    ctx.level = "model_checking"
    ctx.assume("bufio.Reader, the underlying io.Reader, sync.Pool, runtime.GOMAXPROCS are contracts (vsym/e3/ndstream.py): Read(p) with len(p) >= buffer size "
               "passes one underlying read through (n and err together), buffered data first; ReadBytes fills with reads of any size; (0,nil) reads excluded")
    ctx.assume("parseMessage(chunk, true) is uninterpreted (reads the chunk; nil or error); that a non-blank, LF-terminated chunk of a well-formed stream parses is C08's claim")
    ctx.assume("the consumer of res eventually receives every blocking send; a value received from reuse is referenced by nobody else; reuse is open or nil (DESIGN §3.6)")
    ctx.assume("stream bytes are ASCII (< 0x80); bytes.TrimSpace in the reader goroutine is a contract: only the length of its result is modelled "
               "(0 iff all bytes are ASCII white space); any other use of the result stops the engine (inconclusive)")
    ctx.assume("well-formed NDJSON is modelled over the alphabet {LF, space, '[', ']'} with documents \"[]\" (one per line); other obligations hold for arbitrary bytes")
    scale = {"tmpSize": "4"}
    ctx.scaled.update(scale)
    files = e2run.harness_files(HFILES)
    t0 = time.time()
    prog, info = e2run.lower(files, ["verifE3_NDStream"], scale=scale)
    ctx.log("lowered: %s (%.1fs)" % (info["msg"], time.time() - t0))
    side_conditions(ctx, prog)
    Lmax = 8 if ctx.tier == "quick" else 9        # 10 measured: 24 min on a loaded 16-core machine (660k reader paths)
    Cmax = 4 if ctx.tier == "quick" else 6
    only = ctx.only
    if not only or any(o in only for o in ("Q2.partition", "Q2.lf", "Q2.blank", "Q2.data")):
        t0 = time.time()
        run_data(ctx, prog, Lmax)
        ctx.log("data lemmas: %.1fs" % (time.time() - t0))
    if getattr(ctx, "q2_copy_only", False):
        run_order(ctx, prog, 2, copy_only=True)
        return
    if not only or any(o.startswith("U1") for o in only):
        # what the stream machinery relies on from the per-chunk parser (parseMessage is uninterpreted above): a chunk with leading /
        # trailing blank lines around its documents parses like the documents themselves — the real synchronous parseMessage in
        # ndjson mode on 2-token chunks (C08's lemma, run under this id as the composition step)
        from .. import lemmas_stage2
        lvl = ctx.level
        run_lemmas(ctx, [l for l in lemmas_stage2.u1_lemmas("quick", ndjson=(1,), havoc=(0,)) if ".K2." in l.name])
        ctx.level = lvl
    if not only or any(o in only for o in ("Q2.order", "Q2.term", "Q2.race", "Q2.copy")):
        t0 = time.time()
        run_order(ctx, prog, Cmax)
        ctx.log("ordering lemmas: %.1fs" % (time.time() - t0))
