"""C18 — floats are printed shortest-round-trip in ECMAScript format (DESIGN §5.18: R1, R2)."""
from ..e2.checklib import Lemma, run_lemmas
from ..e2.intr_float import FloatIntrinsics, RyuStubIntrinsics, RyuHelperIntrinsics, RyuTopIntrinsics
from ..e2 import run as e2run

FR = ["zz_verif_tape.go", "zz_verif_r.go"]
STOP_WITH_STRCONV = [x for x in e2run.DEFAULT_STOP if x != "strconv"]


def lemmas(tier):
    ls = [
        Lemma("R2.appendFloat", "verifHarness_R2_AppendFloat", FR, intr=FloatIntrinsics, known=("F10",),
              desc="appendFloat on every float64 bit pattern = transcription of encoding/json's float encoder: non-finite => error; "
                   "format switch at 1e-6 and 1e21 (FP theory); exponent clean-up e-0N -> e-N for every possible exponent tail; "
                   "the two digit formatters are shared opaque chunks",
              bound="all 2^64 bit patterns; with and without a destination prefix", expect_reach=["R2.appendFloat"]),
        Lemma("R1.formatF", "verifHarness_R1_FormatF", FR, intr=RyuStubIntrinsics, stop=STOP_WITH_STRCONV, split_depth=0,
              desc="appendFloatF (bit decomposition, implicit bit, subnormals, precision, fmtF) = strconv.AppendFloat(...,'f',-1,64) executed "
                   "from the toolchain's strconv SSA, with ryuFtoaShortest on both sides the same opaque digit generator of (mantissa, "
                   "exponent): every digit count 0..17 and decimal point -5..21",
              bound="all finite float64; digit generator contract: 0 <= nd <= 17 digits '0'..'9', -5 <= dp <= 21 (the range appendFloat uses 'f' for)",
              expect_reach=["R1.formatF"]),
    ]
    names = ["computeBounds", "mulByLog2Log10/mulByLog10Log2", "divmod1e9", "mult128bitPow10", "divisibleByPower5"]
    for fn, nm in enumerate(names):
        ls.append(Lemma("R1f." + nm.split("/")[0], "verifHarness_R1f_Helpers", ["zz_verif_r1f.go"], intr=RyuHelperIntrinsics, stop=STOP_WITH_STRCONV,
                        splits=[{"fn": fn}], split_depth=(2 if fn in (3, 4) else 0),
                        opts={"lazy_all": True, "timeout_ms": 30000},
                        desc="the repository's %s = strconv's, both executed from their real code on arbitrary symbolic arguments%s" % (
                            nm, " for every q in -348..347 (each power-of-ten table entry)" if fn == 3 else ""),
                        bound="all argument values in the functions' documented ranges", expect_reach=["R1f.fn"]))
    ls.append(Lemma("R1f.fmtF", "verifHarness_R1f_FmtF", ["zz_verif_r1f.go"], intr=RyuHelperIntrinsics, stop=STOP_WITH_STRCONV, split_depth=1,
                    desc="the repository's fmtF (integer part with zero padding, fraction with leading zeros) = strconv.fmtF executed from the toolchain's SSA, "
                         "on explicit digit strings: every digit count 0..17, every decimal point -6..22, symbolic digits and sign, precision max(nd-dp,0)",
                    bound="nd 0..17, dp -6..22 (case split), 17 symbolic digits", expect_reach=["R1f.fmtF"]))
    ls.append(Lemma("R1t.top", "verifHarness_R1t_Top", ["zz_verif_r1a.go"], intr=RyuTopIntrinsics, stop=STOP_WITH_STRCONV,
                    opts={"timeout_ms": 60000},
                    abstract_witness="the two copies of ryuFtoaShortest hand different arguments to the digit emitter for some values of the (uninterpreted) "
                                     "helper functions; a float64 on which the printed digits differ exists only if the real helpers take such values",
                    desc="the glue of the repository's ryuFtoaShortest (exact-integer shortcut, bounds, choice of q, exactness flags, admissibility of "
                         "the lower/upper bound with the mantissa-parity terms, round-up hint, decimal exponent) = strconv.ryuFtoaShortest executed "
                         "from the toolchain's SSA, on every mantissa and binary exponent at once; helpers = the same uninterpreted functions on both "
                         "sides (R1f), ryuDigits = an injective recorder of its arguments on both sides",
                    bound="all mant < 2^53, -1074 <= exp <= 971; helper functions uninterpreted; the digit loops of ryuDigits are not compared",
                    expect_reach=["R1t.top"]))
    return ls


def run(ctx):
    ctx.assume("shortest-round-trip itself is inherited from the Go standard library (strconv, trusted): the checks show the repository's "
               "printer computes what strconv/encoding/json compute; a self-contained proof of Ryu needs non-linear arithmetic over "
               "10^k*2^e and is out of reach (DESIGN §5.18)")
    run_lemmas(ctx, lemmas(ctx.tier))
