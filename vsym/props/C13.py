"""C13 — in-place replacement changes exactly the addressed value (DESIGN §5.13: T4)."""
from ..e2.checklib import Lemma, run_lemmas

F = ["zz_verif_tape.go", "zz_verif_wf.go", "zz_verif_t1.go", "zz_verif_edit.go"]


def lemmas(tier):
    plan = [(4, 1, 0), (5, 1, 0), (6, 1, 2), (7, 1, 3), (4, 2, 0), (5, 2, 2)] if tier == "quick" else \
           [(4, 1, 0), (5, 1, 0), (6, 1, 2), (7, 1, 3), (8, 1, 4), (4, 2, 0), (5, 2, 2), (6, 2, 4), (4, 3, 2), (5, 3, 4)]
    ls = []
    for T, steps, sd in plan:
        ls.append(Lemma("T4.Set.T%d.x%d" % (T, steps), "verifHarness_T4_Set", F,
                        splits=[{"T": T - 4, "steps": steps - 1}], split_depth=("auto" if sd else 0),
                        desc="sequence of %d Set* call(s) (SetNull/SetBool/SetInt/SetUInt/SetFloat/SetString(Bytes), symbolic "
                             "arguments) on any value position of any well-formed tape of %d words (incl. NOP runs), iterator "
                             "obtained by AdvanceInto or through the parent's element iteration; then type gating, frame "
                             "condition, refWF and all four traversal APIs against the updated abstract document" % (steps, T),
                        bound="tape = %d words, %d successive Set* calls, strings <= 1 byte, NOP runs <= 2" % (T, steps),
                        expect_reach=["T4.set", "T4.done"]))
    return ls


def run(ctx):
    ctx.assume("value positions: scalars at any depth and containers (incl. the top-level one); an iterator sitting on a root tag is not a value position")
    ctx.assume("marshal/serialize after edits follow by composition: the edited tape is asserted well-formed (refWF) and T6/Z1 cover every "
               "well-formed tape within their bounds (strings in Strings.B as SetString leaves them, NOP runs as SetNull leaves them); those lemmas "
               "are run here under this id as well")
    from . import C10, C11
    composed = [l for l in C10.lemmas("quick") if l.name.startswith("T6.")]
    composed += [l for l in C11.z1_lemmas("quick") if not l.name.endswith("strings.T10")]
    run_lemmas(ctx, lemmas(ctx.tier) + composed)
