"""C19 — Deserialize never panics on corrupt or truncated bytes (DESIGN §5.19: Z2 then T7)."""
from ..e2.checklib import Lemma, run_lemmas
from ..e2.intr_chunks import ChunkIntrinsics

F = ["zz_verif_tape.go", "zz_verif_wf.go", "zz_verif_t1.go", "zz_verif_edit.go", "zz_verif_ser.go", "zz_verif_z2.go"]
SCALE = {"stringBits": "2", "tagBufSize": "4", "valBufSize": "16"}


def lemmas(tier):
    ls = []
    # (tags, value words, all framing deviations?)  -- deviations multiply the paths by ~50, so the larger payloads are
    # run with consistent framing only (the deviations are independent of the payload size: they are decided before the
    # tape reconstruction loop starts)
    if tier == "quick":
        plan = [(0, 0, True), (1, 0, True), (1, 1, True), (0, 1, True), (1, 2, False), (2, 1, False), (2, 2, None), (3, 1, None)]
    else:
        # (plans with framing deviations on 2 tags did not finish: the deviations multiply the ~30 k paths of a 2-tag payload by ~50)
        plan = [(0, 0, True), (1, 0, True), (1, 1, True), (0, 1, True), (0, 2, True), (1, 2, False), (2, 1, False), (2, 2, False), (3, 1, False),
                (2, 2, None), (3, 1, None), (3, 2, None), (4, 1, None), (2, 3, None)]
    for nt, nv, dev in plan:
        ch = {"ntags": nt, "nvals": nv}
        if not dev:
            ch["variant"] = 0
        if dev is None:
            # largest payloads: fresh Serializer/destination and a 1-byte message only
            ch["havoc"] = 0
            ch["nmsg"] = 1
        ls.append(Lemma("Z2.tags%d.vals%d%s" % (nt, nv, "" if dev else (".framed" if dev is False else ".framed.fresh")), "verifHarness_Z2_Corrupt", F, splits=[ch], split_depth="auto",
                        intr=ChunkIntrinsics, scale=SCALE, opts={"make_assume_max": 24},
                        desc="Deserialize on a framed blob with %d symbolic tag bytes, %d symbolic value words, 0-2 message bytes, symbolic "
                             "version/size bytes/block types; %s; fresh or havoc'd "
                             "Serializer and destination; no panic, no hang; every accepted result is traversed (AdvanceInto, Advance, "
                             "MarshalJSON, Interface, ForEach, FindElement) without panic and with progress" % (
                                 nt, nv, "framing consistent or with one deviation (a declared section size off by one / by a word, odd value "
                                 "bytes, a non-empty strings block, truncation at every byte)" if dev else "consistent framing"),
                        bound="tags=%d, value words=%d, message <= 2 bytes, declared tape <= 6 words; uncompressed/unknown block types only" % (nt, nv),
                        expect_reach=["Z2.returned"]))
    for T in ((0, 1) if tier == "quick" else (0, 1, 2, 3, 4)):      # T6 (24 k paths, found F14) and larger: thorough tier (the quick pass with it did not finish within an hour on a loaded machine)
        ls.append(Lemma("Z5.deviation.T%d" % (T + 4), "verifHarness_Z5_Deviation", F, splits=[{"T": T}], split_depth="auto",
                        intr=ChunkIntrinsics, scale=SCALE, opts={"make_assume_max": 24},
                        desc="Deserialize on the tag stream of every well-formed tape of %d words (objects, arrays, strings, numbers, scalars, NOPs, nesting <= 2) with one "
                             "tag byte free, all value words free and the value count off by -1..+2; on every accepted result one family of readers runs without panic "
                             "and with progress: the iterator walkers/marshallers (as Z2), every Array accessor (AsFloat, AsInteger, AsUint64, AsString(Cvt), FirstType, "
                             "Interface, MarshalJSON, ForEach, Iter) on every array the walk reaches, every Object accessor (NextElement(Bytes), FindKey, FindPath, ForEach, "
                             "Map, Parse) on every object" % (T + 4),
                        bound="declared tape = %d words, tags = those of a well-formed tape with one byte symbolic, all value words symbolic, message 2 bytes, fresh Serializer" % (T + 4),
                        expect_reach=["Z5.returned", "Z5.accepted"]))
    if tier == "quick":
        return ls
    # objects with one deviating tag on 7-word tapes (the smallest size at which an object member's value can be a container or a root)
    ls.append(Lemma("Z5.deviation.T7.objects", "verifHarness_Z5_Deviation", F, splits=[{"T": 3, "api": 2, "nops": 0}], split_depth="auto",
                    intr=ChunkIntrinsics, scale=SCALE, opts={"make_assume_max": 24},
                    desc="as Z5.deviation on the tag streams of well-formed 7-word tapes without NOPs, Object accessors only",
                    bound="declared tape = 7 words, one tag byte symbolic, all value words symbolic, Object accessors", expect_reach=["Z5.returned", "Z5.accepted"]))
    return ls


def run(ctx):
    ctx.assume("compressed sections (block types 1 and 2) are handed to s2/zstd: third-party decoders outside reach; their contract here is "
               "'returns an error or fills dst completely, never panics' (an assumption, not a result)")
    ctx.assume("declared section sizes small enough to allocate (statement): every make() whose length comes from the input is assumed <= 24 elements; "
               "the compressed size of the message / tags block may be any 64-bit varint (variants 13/14)")
    ctx.assume("numeric accessors are total functions of (tag, word) given off < len(tape): covered for every payload by T2 (C12)")
    run_lemmas(ctx, lemmas(ctx.tier))
