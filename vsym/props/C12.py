"""C12 — lookup, filtered iteration and bulk accessors agree with plain traversal (DESIGN §5.12: T2, T3)."""
from ..e2.checklib import Lemma, run_lemmas


def lemmas(tier):
    ls = []
    for fn in ("IterInt", "IterUint", "IterFloat", "ArrayAsInteger", "ArrayAsUint64", "ArrayAsFloat"):
        ls.append(Lemma("T2." + fn, "verifHarness_T2_" + fn, ["zz_verif_t2.go"],
                        splits=[{"numtag": i} for i in range(3)],
                        desc="numeric accessor on every 64-bit payload per tag (FP theory), reached through the public iterator API",
                        bound="all 2^64 payloads x {int64,uint64,float64} tags; one-element array", expect_reach=["T2." + fn.replace("Iter", "").replace("Array", "")]))
    return ls


def run(ctx):
    ctx.assume("float->int conversion modelled with amd64 semantics (cvttsd2si; uint64 via the 2^63 split)")
    run_lemmas(ctx, lemmas(ctx.tier))
