"""C12 — lookup, filtered iteration and bulk accessors agree with plain traversal (DESIGN §5.12: T2, T3)."""
from ..e2.checklib import Lemma, run_lemmas

F3 = ["zz_verif_tape.go", "zz_verif_wf.go", "zz_verif_t1.go", "zz_verif_edit.go", "zz_verif_t3.go"]


def lemmas(tier):
    ls = []
    for fn in ("IterInt", "IterUint", "IterFloat", "ArrayAsInteger", "ArrayAsUint64", "ArrayAsFloat"):
        ls.append(Lemma("T2." + fn, "verifHarness_T2_" + fn, ["zz_verif_t2.go"],
                        splits=[{"numtag": i} for i in range(3)],
                        desc="numeric accessor on every 64-bit payload per tag (FP theory), reached through the public iterator API",
                        bound="all 2^64 payloads x {int64,uint64,float64} tags; one-element array", expect_reach=["T2." + fn.replace("Iter", "").replace("Array", "")]))
    # T3: (harness, reach witness, [(cfg, sizes quick, sizes thorough)])
    gen = ("general shapes (arrays+objects, depth<=3)", "objects with several members (keys of length 0/1, scalar values, NOP runs <= 3)")
    plan = {
        "FindKey": ("T3.FindKey", {0: (range(4, 9), range(4, 10)), 1: (range(7, 12), range(7, 14))}),
        "FindPath": ("T3.FindPath", {0: (range(4, 8), range(4, 9)), 1: (range(7, 12), range(7, 13))}),
        "FindElementArrayRoot": ("T3.FindElementArray", {None: (range(4, 8), range(4, 9))}),
        "ForEachFilter": ("T3.ForEachFilter", {0: (range(4, 8), range(4, 9)), 1: (range(7, 12), range(7, 14))}),
        "ParseLookup": ("T3.Parse", {0: (range(4, 8), range(4, 9)), 1: (range(7, 12), range(7, 13))}),
        "Interface": ("T3.Interface", {0: (range(4, 9), range(4, 10)), 1: (range(7, 12), range(7, 14))}),
        "ArrayAsString": ("T3.AsString", {None: (range(4, 8), range(4, 10))}),
    }
    for h, (reach, cfgs) in plan.items():
        for cfg, (q, t) in cfgs.items():
            for T in (q if tier == "quick" else t):
                ch = {"T": T - 4}
                if cfg is not None:
                    ch["cfg"] = cfg
                heavy = (cfg == 1 and T >= 11) or (cfg != 1 and T >= 8)
                ls.append(Lemma("T3.%s.%sT%d" % (h, "" if cfg is None else "cfg%d." % cfg, T), "verifHarness_T3_" + h, F3,
                                splits=[ch], split_depth=("auto" if heavy else 0),
                                desc="%s on every well-formed tape of %d words [%s], symbolic query keys of length 0..2, against the "
                                     "abstract document" % (h, T, gen[cfg or 0]),
                                bound="tape = %d words; keys/strings <= 1 byte, query keys <= 2 bytes; filters 1-2 keys; paths <= 2 keys" % T,
                                expect_reach=[reach] if T >= 7 or cfg != 1 else []))
    return ls


def run(ctx):
    ctx.assume("float->int conversion modelled with amd64 semantics (cvttsd2si; uint64 via the 2^63 split)")
    ctx.assume("key filters, FindPath, Parse/Map/Lookup assume unique keys within an object (property statement); FindKey = first match is checked with duplicates")
    ctx.assume("Uint()/AsUint64 of a float in (-1,0): error or 0 both accepted (statement leaves it open)")
    ctx.assume("strconv.FormatInt/FormatUint and floatToString are opaque stubs in AsStringCvt (oracle = plain traversal + StringCvt through the same stubs)")
    run_lemmas(ctx, lemmas(ctx.tier))
