from ..e2.checklib import Lemma, run_lemmas
from ..e2.intr_float import RyuHelperIntrinsics
from .C18 import STOP_WITH_STRCONV
def run(ctx):
    run_lemmas(ctx, [Lemma("R1f.digits32", "verifHarness_R1f_Digits", ["zz_verif_r1f.go"], intr=RyuHelperIntrinsics, stop=STOP_WITH_STRCONV,
                           splits=[{"fn": 0, "udigits": k} for k in range(9)], split_depth=0, opts={"timeout_ms": 120000, "deadline_s": 900, "merge_funcs": ["github.com/minio/simdjson-go.ryuDigits32", "strconv.ryuDigits32"], "lazy_feasibility": True},
                           desc="d", bound="b", expect_reach=["R1f.digits"])])
