"""C17 — every produced tape obeys the documented tape format (DESIGN §5.17: P3-WF, Z1-WF)."""
from ..e2.checklib import run_lemmas
from . import C11

E2_PARSE_LEMMAS = []   # filled by the stage-2 lemma set (P3: refWF on every accepting path) when available


def run(ctx):
    ctx.assume("refWF = harness/zz_verif_wf.go (README tape format; strict NOP runs for Deserialize results)")
    ls = list(C11.z1_lemmas(ctx.tier))
    try:
        from .. import lemmas_stage2
        ls += lemmas_stage2.p3_lemmas(ctx.tier, wf_only=True)
        # root pairs of newline-delimited input (a closing root points back to ITS opening root) need at least two documents:
        # the ndjson skeletons (5-11 tokens) assert refWF on every accepting path
        ls += lemmas_stage2.p3_skeleton_lemmas(ctx.tier, ndjson=(1,))
    except ImportError:
        ctx.assume("parser side (tape of an accepted document is well-formed) pending: only the Deserialize side is decided in this run")
    # which buffer a string entry names is the documented function of the string mode; that the mode is the one this call's
    # options select (and not a leftover of the reused object) is lemma U2
    from . import C16
    ls.append(C16.u2_lemma())
    run_lemmas(ctx, ls)
