"""C08 — ParseND equals parsing each non-blank line (DESIGN §5.8): stage 1 with ndjson=1 (E1: A5, A7), stage 2 and the
whole parseMessage in ndjson mode against REF-ND."""
from ..e2.checklib import run_lemmas
from .. import lemmas_stage2, lemma_sets_e1


def run(ctx):
    ctx.assume("REF-ND: roots separated by runs of unquoted LF tokens; a line is accepted iff it is one object/array (reference parser in "
               "harness/zz_verif_p3.go); ParseND trims the input and calls parseMessage(…, true): that path is what U1 executes")
    lemma_sets_e1.ndjson_lemmas(ctx, ctx.tier)
    ls = lemmas_stage2.p3_lemmas(ctx.tier, ndjson=(1,))
    ls += lemmas_stage2.p3_skeleton_lemmas(ctx.tier, ndjson=(1,))
    ls += lemmas_stage2.u1_lemmas(ctx.tier, ndjson=(1,), havoc=(0,))
    ls += lemmas_stage2.u3_lemmas(ctx.tier, ndjson=(1,))
    run_lemmas(ctx, ls)
