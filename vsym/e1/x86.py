"""Symbolic interpreter for the x86-64 / AVX2 / AVX-512 instructions that occur in the repository's
assembly kernels.  Values are z3 bit-vector terms.  Anything not modelled raises common.Inconclusive.

Memory = regions with concrete bases (2^40 apart, so a simplified address term `const + rest`
identifies its region by the constant); every access carries a bounds obligation.
"""
import time
import z3
from .. import common
from .lift import Reg, Imm, Mem, Label, GPR64

Inconclusive = common.Inconclusive
BV = z3.BitVecVal
REGION_SHIFT = 40
SENTINEL_RET = 0x00DEAD0000000000      # return address of the outermost frame


def simp(t):
    return z3.simplify(t)


def is_const(t):
    return z3.is_bv_value(t)


def cval(t):
    return t.as_long()


def bytes_of(x, n):
    return [z3.Extract(8 * i + 7, 8 * i, x) for i in range(n)]


def join(bs):
    """little-endian list of equally sized terms -> one term"""
    if len(bs) == 1:
        return bs[0]
    return z3.Concat(*reversed(bs))


def zext(x, w):
    d = w - x.size()
    return x if d == 0 else z3.ZeroExt(d, x)


def sext(x, w):
    d = w - x.size()
    return x if d == 0 else z3.SignExt(d, x)


def tzcnt_term(x):
    """number of trailing zero bits, as a term of x's width (x.size() if x == 0)"""
    w = x.size()
    assert w in (32, 64)
    bits = []
    cur = x
    k = w // 2
    while k >= 1:
        c = z3.Extract(k - 1, 0, cur) == 0
        bits.append(z3.If(c, BV(1, 1), BV(0, 1)))
        cur = z3.If(c, z3.LShR(cur, k), cur)
        k //= 2
    n = z3.Concat(*bits)           # first decided bit is the most significant
    return z3.If(x == 0, BV(w, w), zext(n, w))


def prefix_xor(x):
    """bit i of the result = x[0] ^ ... ^ x[i], built as the linear chain (a log-step form is equivalent but makes
    the parity reasoning needlessly hard for the SAT core)"""
    w = x.size()
    acc = z3.Extract(0, 0, x)
    bits = [acc]
    for i in range(1, w):
        acc = acc ^ z3.Extract(i, i, x)
        bits.append(acc)
    return z3.Concat(*reversed(bits))


def clmul64(a, b):
    """carry-less product of two 64-bit terms (128-bit result).  All-ones operand folds to a prefix xor."""
    a, b = simp(a), simp(b)
    ones = (1 << 64) - 1
    if is_const(a) and cval(a) == ones:
        a, b = b, a
    if is_const(b) and cval(b) == ones:
        p = prefix_xor(a)
        tot = z3.Extract(63, 63, p)
        hi = z3.Extract(62, 0, p) ^ z3.Concat(*([tot] * 63))
        return z3.Concat(BV(0, 1), hi, p)
    acc = BV(0, 128)
    b128 = zext(b, 128)
    for i in range(64):
        acc = acc ^ z3.If(z3.Extract(i, i, a) == 1, b128 << i, BV(0, 128))
    return acc


def table_tree(entries, idx):
    """balanced ite tree selecting entries[idx]; idx is a term of log2(len(entries)) bits; equal subtrees collapse"""
    n = len(entries)
    if n == 1:
        return entries[0]
    half = n // 2
    lo = table_tree(entries[:half], idx)
    hi = table_tree(entries[half:], idx)
    if lo.eq(hi):
        return lo
    bit = half.bit_length() - 1
    return z3.If(z3.Extract(bit, bit, idx) == 1, hi, lo)


class Region:
    def __init__(self, name, base, size, writable=True, kind="bytes", default="fresh"):
        self.name, self.base, self.size, self.writable, self.kind, self.default = name, base, size, writable, kind, default
        self.data = {}          # offset -> 8-bit term
        self.written = set()
        self.log = []           # kind == "log": (offset term (64 bit), nbytes, value term, path index)
        self._big = None
        self.words = {}         # (offset, nbytes) -> term last stored there as a whole (exact round trips)

    def copy(self):
        r = Region(self.name, self.base, self.size, self.writable, self.kind, self.default)
        r.data = dict(self.data)
        r.written = set(self.written)
        r.log = list(self.log)
        r._big = self._big
        r.words = dict(self.words)
        return r

    def byte(self, off, st):
        b = self.data.get(off)
        if b is None:
            if self.default == "zero":
                b = BV(0, 8)
            elif self.default == "fresh":
                b = z3.BitVec("uninit_%s_%d" % (self.name, off), 8)
            else:
                raise Inconclusive("read of uninitialised byte %s+%d" % (self.name, off))
            self.data[off] = b
        return b

    def big(self, st):
        if self._big is None:
            self._big = join([self.byte(i, st) for i in range(self.size)])
        return self._big


class Obligation:
    __slots__ = ("kind", "cond", "what", "path", "pc")

    def __init__(self, kind, cond, what, path, pc):
        self.kind, self.cond, self.what, self.path, self.pc = kind, cond, what, path, pc


class State:
    def __init__(self):
        self.regs = {}
        self.flags = {"cf": None, "zf": None, "sf": None, "of": None}
        self.regions = {}          # index -> Region   (index = base >> REGION_SHIFT; 0 = rodata)
        self.pc = None
        self.path = []
        self.obligations = []
        self.loops = {}
        self.events = []           # summary events (e.g. flatten calls)
        self.exit = None
        self.steps = 0
        self.init = {}
        self.entry_rsp = None
        self.skip_stop = False

    def copy(self):
        s = State()
        s.regs = dict(self.regs)
        s.flags = dict(self.flags)
        s.regions = {k: v.copy() for k, v in self.regions.items()}
        s.pc = self.pc
        s.path = list(self.path)
        s.obligations = list(self.obligations)
        s.loops = dict(self.loops)
        s.events = list(self.events)
        s.exit = self.exit
        s.steps = self.steps
        s.init = self.init
        s.entry_rsp = self.entry_rsp
        return s

    # -- regions ---------------------------------------------------------------------
    def add_region(self, name, size, writable=True, kind="bytes", default="fresh", data=None):
        idx = 1
        while idx in self.regions:
            idx += 1
        r = Region(name, idx << REGION_SHIFT, size, writable, kind, default)
        if data is not None:
            for i, b in enumerate(data):
                r.data[i] = b if z3.is_expr(b) else BV(b, 8)
        self.regions[idx] = r
        return r

    def region(self, name):
        for r in self.regions.values():
            if r.name == name:
                return r
        raise KeyError(name)

    def cell(self, name, value=None):
        """8-byte scalar cell; returns its address"""
        r = self.add_region(name, 8)
        if value is not None:
            value = simp(value)
            r.words[(0, 8)] = value
            for i, b in enumerate(bytes_of(value, 8)):
                r.data[i] = simp(b)
        return r.base

    def read_cell(self, name):
        r = self.region(name)
        w = r.words.get((0, 8))
        if w is not None:
            return w
        return simp(join([r.byte(i, self) for i in range(8)]))

    def pathcond(self):
        return z3.And(*self.path) if self.path else z3.BoolVal(True)


VEC_ALL = ["zmm%d" % i for i in range(32)]
K_ALL = ["k%d" % i for i in range(8)]


def fresh_state(tag=""):
    st = State()
    for r in GPR64:
        st.regs[r] = z3.BitVec("init_%s%s" % (r, tag), 64)
    for r in VEC_ALL:
        st.regs[r] = z3.BitVec("init_%s%s" % (r, tag), 512)
    for r in K_ALL:
        st.regs[r] = z3.BitVec("init_%s%s" % (r, tag), 64)
    stack = st.add_region("stack", 4096, default="fresh")
    top = 2048
    st.regs["rsp"] = BV(stack.base + top, 64)
    for i, b in enumerate(bytes_of(BV(SENTINEL_RET, 64), 8)):
        stack.data[top + i] = simp(b)
    st.init = dict(st.regs)
    st.entry_rsp = stack.base + top
    return st


def set_args(st, words):
    """ABI0 arguments: 64-bit words at [rsp+8], [rsp+16], ... at function entry"""
    stack = st.region("stack")
    off = st.entry_rsp - stack.base + 8
    for w in words:
        w = BV(w, 64) if isinstance(w, int) else w
        for i, b in enumerate(bytes_of(w, 8)):
            stack.data[off + i] = simp(b)
        off += 8


def get_result(st, index):
    """64-bit word number `index` of the ABI0 argument/result area (0 = first argument)"""
    stack = st.region("stack")
    off = st.entry_rsp - stack.base + 8 + 8 * index
    return simp(join([stack.byte(off + i, st) for i in range(8)]))


class Executor:
    def __init__(self, prog, timeout_ms=60000, log=None):
        self.prog = prog
        self.timeout_ms = timeout_ms
        self.queries = 0
        self.solver_s = 0.0
        self.nontrivial = 0
        self.transitions = 0
        self.states = 0
        self.forks = 0
        self.log = log
        self.hooks = {}            # callee short name -> fn(executor, state)  (call summaries)
        self.assumptions = []      # global assumptions (terms) added to every query
        self.loop_bound = 4
        self.max_steps = 20000
        self.mnems_used = set()
        self.funcs_used = set()

    # -- solver ------------------------------------------------------------------------
    def check(self, conds, nontrivial=False):
        """sat / unsat / raises Inconclusive on unknown"""
        t0 = time.time()
        # a fresh solver per query: z3's incremental (push/pop) core is orders of magnitude slower on these
        # bit-vector problems than the one-shot tactic pipeline
        s = z3.Solver()
        s.set("timeout", self.timeout_ms)
        for c in self.assumptions:
            s.add(c)
        for c in conds:
            s.add(c)
        r = s.check()
        model = s.model() if r == z3.sat else None
        dt = time.time() - t0
        self.queries += 1
        self.solver_s += dt
        if nontrivial:
            self.nontrivial += 1
        if r == z3.unknown:
            raise Inconclusive("solver returned unknown (%.1fs, limit %d ms)" % (dt, self.timeout_ms))
        return ("sat", model) if r == z3.sat else ("unsat", None)

    def feasible(self, st, extra=None):
        conds = list(st.path)
        if extra is not None:
            conds.append(extra)
        return self.check(conds)[0] == "sat"

    # -- register access -----------------------------------------------------------------
    def rreg(self, st, r):
        v = st.regs[r.base] if r.kind != "rip" else None
        if r.kind == "rip":
            raise Inconclusive("rip used as a plain operand")
        full = 512 if r.kind == "vec" else 64
        if r.width == full:
            return v
        return simp(z3.Extract(r.width - 1, 0, v))

    def wreg(self, st, r, val, legacy_sse=False):
        if val.size() != r.width:
            raise Inconclusive("internal: width mismatch writing %s (%d vs %d)" % (r.name, val.size(), r.width))
        if r.kind == "gpr":
            if r.width == 64:
                nv = val
            elif r.width == 32:
                nv = z3.ZeroExt(32, val)
            else:
                nv = z3.Concat(z3.Extract(63, r.width, st.regs[r.base]), val)
        elif r.kind == "vec":
            if r.width == 512:
                nv = val
            elif legacy_sse:
                nv = z3.Concat(z3.Extract(511, r.width, st.regs[r.base]), val)
            else:
                nv = z3.ZeroExt(512 - r.width, val)       # VEX/EVEX encoded: upper bits zeroed
        elif r.kind == "k":
            nv = val
        else:
            raise Inconclusive("write to %s" % r.name)
        st.regs[r.base] = simp(nv)

    # -- memory ---------------------------------------------------------------------------
    def addr_of(self, st, m):
        if m.seg is not None:
            raise Inconclusive("segment-relative memory operand outside the recognised prologue")
        if m.abs is not None:
            return BV(m.abs, 64)
        t = BV(m.disp & (2 ** 64 - 1), 64)
        if m.base is not None:
            if m.base.width != 64 or m.base.kind != "gpr":
                raise Inconclusive("non-64-bit base register")
            t = t + st.regs[m.base.base]
        if m.index is not None:
            if m.index.width != 64:
                raise Inconclusive("non-64-bit index register")
            t = t + st.regs[m.index.base] * m.scale
        return simp(t)

    @staticmethod
    def split_addr(a):
        """simplified address -> (constant part, symbolic rest or None).  Handles  c + t…  and the form
        Concat(c_hi, t_lo) that the simplifier produces when the low bits of the constant are zero."""
        M = 2 ** 64 - 1
        if is_const(a):
            return cval(a), None
        if z3.is_app_of(a, z3.Z3_OP_BADD):
            c = 0
            rest = []
            for ch in a.children():
                c2, r2 = Executor.split_addr(ch)
                c = (c + c2) & M
                if r2 is not None:
                    rest.append(r2)
            if not rest:
                return c, None
            r = rest[0]
            for x in rest[1:]:
                r = r + x
            return c, r
        if z3.is_app_of(a, z3.Z3_OP_CONCAT) and is_const(a.arg(0)) and cval(a.arg(0)) != 0:
            hi = a.arg(0)
            lo_bits = a.size() - hi.size()
            lo = a.arg(1) if a.num_args() == 2 else z3.Concat(*[a.arg(i) for i in range(1, a.num_args())])
            return (cval(hi) << lo_bits) & M, z3.ZeroExt(a.size() - lo_bits, lo)
        return 0, a

    def find_region(self, st, c, ins):
        if c < (1 << 36):
            ds = self.prog.data_symbol(c)
            if ds is None:
                raise Inconclusive("%s: address %#x is not inside a known data symbol" % (ins, c))
            a, size, name = ds
            key = ("ro", a)
            r = st.regions.get(key)
            if r is None:
                r = Region("%s@%x" % (name, a), a, size, writable=False, default="none")
                for i, b in enumerate(self.prog.rodata(a, size)):
                    r.data[i] = BV(b, 8)
                st.regions[key] = r
            return r
        idx = (c + (1 << (REGION_SHIFT - 1))) >> REGION_SHIFT
        r = st.regions.get(idx)
        if r is None:
            raise Inconclusive("%s: address %#x does not resolve to a region" % (ins, c))
        return r

    def oblige(self, st, kind, cond, what, ins):
        cond = simp(cond)
        if z3.is_true(cond):
            return
        st.obligations.append(Obligation(kind, cond, what, list(st.path), ins.addr if ins else None))

    def load(self, st, m, ins, size=None):
        n = (size or m.size) // 8
        a = self.addr_of(st, m)
        c, rest = self.split_addr(a)
        r = self.find_region(st, c, ins)
        off = (c - r.base) & (2 ** 64 - 1)
        if off >= (1 << 63):
            off -= 1 << 64
        if r.kind == "log":
            raise Inconclusive("%s: load from write-only log region %s" % (ins, r.name))
        if rest is None:
            if off < 0 or off + n > r.size:
                self.oblige(st, "bounds", z3.BoolVal(False), "load of %d bytes at %s%+d outside [0,%d)" % (n, r.name, off, r.size), ins)
                return z3.BitVec("oob_load_%x_%d" % (ins.addr, st.steps), n * 8)
            w = r.words.get((off, n))
            if w is not None:
                return w
            return simp(join([r.byte(off + i, st) for i in range(n)]))
        offt = simp(BV(off & (2 ** 64 - 1), 64) + rest)
        self.oblige(st, "bounds", z3.ULE(offt, BV(r.size - n, 64)) if r.size >= n else z3.BoolVal(False),
                    "load of %d bytes at %s+<symbolic> outside [0,%d)" % (n, r.name, r.size), ins)
        # byte table indexed by a zero-extended byte: ite tree over the table's current bytes
        idx = None
        if z3.is_app_of(rest, z3.Z3_OP_ZERO_EXT) and rest.arg(0).size() <= 8:
            idx = rest.arg(0)
        elif z3.is_app_of(rest, z3.Z3_OP_CONCAT) and rest.num_args() == 2 and is_const(rest.arg(0)) \
                and cval(rest.arg(0)) == 0 and rest.arg(1).size() <= 8:
            idx = rest.arg(1)
        if n == 1 and idx is not None and 0 <= off:
            cnt = 1 << idx.size()
            ent = [r.byte(off + i, st) if off + i < r.size else BV(0, 8) for i in range(cnt)]
            return simp(table_tree(ent, idx))
        if r.size > 8192:
            raise Inconclusive("%s: symbolic offset into a region of %d bytes" % (ins, r.size))
        big = r.big(st)
        w = big.size()
        sh = (zext(offt, w) if w >= 64 else z3.Extract(w - 1, 0, offt)) << 3
        return simp(z3.Extract(n * 8 - 1, 0, z3.LShR(big, sh)))

    def store(self, st, m, val, ins):
        n = m.size // 8
        if val.size() != m.size:
            raise Inconclusive("internal: store width mismatch at %s" % ins)
        a = self.addr_of(st, m)
        c, rest = self.split_addr(a)
        r = self.find_region(st, c, ins)
        off = (c - r.base) & (2 ** 64 - 1)
        if off >= (1 << 63):
            off -= 1 << 64
        if not r.writable:
            self.oblige(st, "bounds", z3.BoolVal(False), "store into read-only region %s" % r.name, ins)
            return
        if r.kind == "log":
            offt = simp(BV(off & (2 ** 64 - 1), 64) + (rest if rest is not None else BV(0, 64)))
            self.oblige(st, "bounds", z3.ULE(offt, BV(r.size - n, 64)),
                        "store of %d bytes at %s+<symbolic> outside [0,%d)" % (n, r.name, r.size), ins)
            r.log.append((offt, n, simp(val), len(st.path)))
            return
        if rest is not None:
            raise Inconclusive("%s: store at symbolic offset into byte region %s" % (ins, r.name))
        if off < 0 or off + n > r.size:
            self.oblige(st, "bounds", z3.BoolVal(False), "store of %d bytes at %s%+d outside [0,%d)" % (n, r.name, off, r.size), ins)
            return
        r._big = None
        for (o2, n2) in [k for k in r.words if k[0] < off + n and off < k[0] + k[1]]:
            del r.words[(o2, n2)]
        val = simp(val)
        r.words[(off, n)] = val
        for i, b in enumerate(bytes_of(val, n)):
            r.data[off + i] = simp(b)
            r.written.add(off + i)

    # -- operands ---------------------------------------------------------------------------
    def rd(self, st, op, ins, width=None):
        if isinstance(op, Reg):
            return self.rreg(st, op)
        if isinstance(op, Imm):
            if width is None:
                raise Inconclusive("internal: immediate without width at %s" % ins)
            return BV(op.value & ((1 << width) - 1), width)
        if isinstance(op, Mem):
            if op.size is None:
                if width is None:
                    raise Inconclusive("memory operand without size at %s" % ins)
                return self.load(st, op, ins, width)
            return self.load(st, op, ins)
        raise Inconclusive("operand %r at %s" % (op, ins))

    def wr(self, st, op, val, ins, legacy_sse=False):
        if isinstance(op, Reg):
            self.wreg(st, op, val, legacy_sse)
        elif isinstance(op, Mem):
            self.store(st, op, val, ins)
        else:
            raise Inconclusive("write to operand %r at %s" % (op, ins))

    @staticmethod
    def opw(op):
        if isinstance(op, Reg):
            return op.width
        if isinstance(op, Mem):
            return op.size
        return None

    # -- flags -------------------------------------------------------------------------------
    @staticmethod
    def _zs(st, res):
        w = res.size()
        st.flags["zf"] = simp(res == 0)
        st.flags["sf"] = simp(z3.Extract(w - 1, w - 1, res) == 1)

    def flag(self, st, f, ins):
        v = st.flags[f]
        if v is None:
            raise Inconclusive("%s reads flag %s which is undefined/unmodelled here" % (ins, f))
        return v

    def undef_flags(self, st, keep=()):
        for f in ("cf", "zf", "sf", "of"):
            if f not in keep:
                st.flags[f] = None

    def cond(self, st, cc, ins):
        F = lambda f: self.flag(st, f, ins)
        if cc in ("e", "z"):
            return F("zf")
        if cc in ("ne", "nz"):
            return z3.Not(F("zf"))
        if cc in ("b", "c", "nae"):
            return F("cf")
        if cc in ("ae", "nc", "nb"):
            return z3.Not(F("cf"))
        if cc in ("be", "na"):
            return z3.Or(F("cf"), F("zf"))
        if cc in ("a", "nbe"):
            return z3.And(z3.Not(F("cf")), z3.Not(F("zf")))
        if cc in ("l", "nge"):
            return z3.Xor(F("sf"), F("of"))
        if cc in ("ge", "nl"):
            return z3.Not(z3.Xor(F("sf"), F("of")))
        if cc in ("le", "ng"):
            return z3.Or(F("zf"), z3.Xor(F("sf"), F("of")))
        if cc in ("g", "nle"):
            return z3.And(z3.Not(F("zf")), z3.Not(z3.Xor(F("sf"), F("of"))))
        if cc == "s":
            return F("sf")
        if cc == "ns":
            return z3.Not(F("sf"))
        raise Inconclusive("condition code %r at %s" % (cc, ins))

    # -- stack -------------------------------------------------------------------------------
    def push(self, st, val, ins):
        st.regs["rsp"] = simp(st.regs["rsp"] - 8)
        self.store(st, Mem(64, Reg("rsp"), None, 1, 0), val, ins)

    def pop(self, st, ins):
        v = self.load(st, Mem(64, Reg("rsp"), None, 1, 0), ins)
        st.regs["rsp"] = simp(st.regs["rsp"] + 8)
        return v

    # -- one instruction ------------------------------------------------------------------------
    def step(self, st):
        """executes the instruction at st.pc; returns list of successor states (st itself is reused)"""
        ins = self.prog.instrs.get(st.pc)
        if ins is None:
            raise Inconclusive("execution left the lifted code at %#x" % st.pc)
        st.steps += 1
        self.transitions += 1
        self.mnems_used.add(ins.mnem)
        self.funcs_used.add(ins.func)
        m = ins.mnem
        ops = ins.ops
        st.pc = ins.next
        h = getattr(self, "i_" + m, None)
        if h is not None:
            r = h(st, ins, ops)
            return [st] if r is None else r
        if m[0] == "j" and m != "jmp":
            return self.jcc(st, ins, m[1:])
        if m.startswith("cmov"):
            return self.cmov(st, ins, m[4:]) or [st]
        if m.startswith("set"):
            c = self.cond(st, m[3:], ins)
            self.wr(st, ops[0], z3.If(c, BV(1, 8), BV(0, 8)), ins)
            return [st]
        raise Inconclusive("unmodelled mnemonic %r (%s)" % (m, ins))

    # control flow
    def jcc(self, st, ins, cc):
        c = simp(self.cond(st, cc, ins))
        tgt = ins.ops[0].addr
        if z3.is_true(c):
            return self.goto(st, tgt, ins)
        if z3.is_false(c):
            return [st]
        out = []
        taken = self.feasible(st, c)
        fall = self.feasible(st, z3.Not(c))
        if taken and fall:
            self.forks += 1
            s2 = st.copy()
            s2.path.append(c)
            out += self.goto(s2, tgt, ins)
            st.path.append(simp(z3.Not(c)))
            out.append(st)
        elif taken:
            st.path.append(c)
            out += self.goto(st, tgt, ins)
        elif fall:
            st.path.append(simp(z3.Not(c)))
            out.append(st)
        return out

    def goto(self, st, tgt, ins):
        if tgt <= ins.addr:        # back edge: unwinding assertion
            n = st.loops.get(tgt, 0) + 1
            st.loops[tgt] = n
            if n > self.loop_bound:
                if self.feasible(st):
                    raise Inconclusive("unwinding assertion failed: back edge to %#x taken more than %d times (%s)"
                                       % (tgt, self.loop_bound, ins.func))
                return []
        st.pc = tgt
        return [st]

    def i_jmp(self, st, ins, ops):
        if not isinstance(ops[0], Label):
            raise Inconclusive("indirect jump at %s" % ins)
        return self.goto(st, ops[0].addr, ins)

    def i_call(self, st, ins, ops):
        if not isinstance(ops[0], Label):
            raise Inconclusive("indirect call at %s" % ins)
        callee = self.prog.func_at.get(ops[0].addr)
        if callee is None:
            raise Inconclusive("call to %s outside the lifted kernels at %s" % (ops[0].sym, ins))
        hook = self.hooks.get(callee)
        if hook is not None:
            hook(self, st, ins)
            return [st]
        self.push(st, BV(ins.next, 64), ins)
        st.pc = ops[0].addr
        return [st]

    def i_ret(self, st, ins, ops):
        if ops:
            raise Inconclusive("ret imm at %s" % ins)
        v = self.pop(st, ins)
        if not is_const(v):
            raise Inconclusive("return address is not concrete at %s (stack smashed?)" % ins)
        a = cval(v)
        if a == SENTINEL_RET:
            st.exit = "ret"
            st.pc = None
        else:
            st.pc = a
        return [st]

    def i_push(self, st, ins, ops):
        self.push(st, self.rd(st, ops[0], ins, 64), ins)

    def i_pop(self, st, ins, ops):
        self.wr(st, ops[0], self.pop(st, ins), ins)

    # data movement
    def i_mov(self, st, ins, ops):
        w = self.opw(ops[0]) or self.opw(ops[1])
        self.wr(st, ops[0], self.rd(st, ops[1], ins, w), ins)

    i_movabs = i_mov

    def i_movzx(self, st, ins, ops):
        self.wr(st, ops[0], zext(self.rd(st, ops[1], ins), ops[0].width), ins)

    def i_movsx(self, st, ins, ops):
        self.wr(st, ops[0], sext(self.rd(st, ops[1], ins), ops[0].width), ins)

    def i_lea(self, st, ins, ops):
        a = self.addr_of(st, ops[1])
        w = ops[0].width
        self.wr(st, ops[0], a if w == 64 else z3.Extract(w - 1, 0, a), ins)

    def cmov(self, st, ins, cc):
        ops = ins.ops
        c = self.cond(st, cc, ins)
        w = ops[0].width
        self.wr(st, ops[0], z3.If(c, self.rd(st, ops[1], ins, w), self.rd(st, ops[0], ins)), ins)

    # integer arithmetic
    def _arith(self, st, ins, ops, kind, write=True):
        w = self.opw(ops[0]) or self.opw(ops[1])
        a = self.rd(st, ops[0], ins, w)
        b = self.rd(st, ops[1], ins, w)
        if a.size() != b.size():
            raise Inconclusive("operand width mismatch at %s" % ins)
        sa = z3.Extract(w - 1, w - 1, a)
        sb = z3.Extract(w - 1, w - 1, b)
        if kind == "add":
            res = simp(a + b)
            sr = z3.Extract(w - 1, w - 1, res)
            st.flags["cf"] = simp(z3.ULT(res, a))
            st.flags["of"] = simp(z3.And(sa == sb, sr != sa))
        elif kind == "sub":
            res = simp(a - b)
            sr = z3.Extract(w - 1, w - 1, res)
            st.flags["cf"] = simp(z3.ULT(a, b))
            st.flags["of"] = simp(z3.And(sa != sb, sr != sa))
        else:
            res = simp({"and": a & b, "or": a | b, "xor": a ^ b}[kind])
            st.flags["cf"] = z3.BoolVal(False)
            st.flags["of"] = z3.BoolVal(False)
        self._zs(st, res)
        if write:
            self.wr(st, ops[0], res, ins)

    def i_add(self, st, ins, ops):
        self._arith(st, ins, ops, "add")

    def i_sub(self, st, ins, ops):
        self._arith(st, ins, ops, "sub")

    def i_cmp(self, st, ins, ops):
        self._arith(st, ins, ops, "sub", write=False)

    def i_and(self, st, ins, ops):
        self._arith(st, ins, ops, "and")

    def i_or(self, st, ins, ops):
        self._arith(st, ins, ops, "or")

    def i_xor(self, st, ins, ops):
        self._arith(st, ins, ops, "xor")

    def i_test(self, st, ins, ops):
        self._arith(st, ins, ops, "and", write=False)

    def i_not(self, st, ins, ops):
        self.wr(st, ops[0], ~self.rd(st, ops[0], ins), ins)

    def i_inc(self, st, ins, ops):
        a = self.rd(st, ops[0], ins)
        w = a.size()
        res = simp(a + 1)
        st.flags["of"] = simp(res == BV(1 << (w - 1), w))
        self._zs(st, res)
        self.wr(st, ops[0], res, ins)      # CF unchanged

    def i_andn(self, st, ins, ops):
        a = self.rd(st, ops[1], ins)
        b = self.rd(st, ops[2], ins, a.size())
        res = simp(~a & b)
        st.flags["cf"] = z3.BoolVal(False)
        st.flags["of"] = z3.BoolVal(False)
        self._zs(st, res)
        self.wr(st, ops[0], res, ins)

    def _shift(self, st, ins, ops, kind):
        a = self.rd(st, ops[0], ins)
        w = a.size()
        if w not in (32, 64):
            raise Inconclusive("shift of %d-bit operand at %s" % (w, ins))
        mask = 63 if w == 64 else 31
        f = {"shl": lambda x, n: x << n, "shr": z3.LShR, "sar": lambda x, n: x >> n}[kind]
        if len(ops) == 1 or isinstance(ops[1], Imm):
            n = 1 if len(ops) == 1 else ops[1].value & mask
            if n == 0:
                return
            res = simp(f(a, BV(n, w)))
            if kind == "shl":
                st.flags["cf"] = simp(z3.Extract(w - n, w - n, a) == 1)
            else:
                st.flags["cf"] = simp(z3.Extract(n - 1, n - 1, a) == 1)
            st.flags["of"] = None
            self._zs(st, res)
            self.wr(st, ops[0], res, ins)
            return
        if not (isinstance(ops[1], Reg) and ops[1].name == "cl"):
            raise Inconclusive("shift count operand at %s" % ins)
        cnt = zext(self.rd(st, ops[1], ins) & mask, w)      # count masked to 6 (5) bits
        self.wr(st, ops[0], simp(f(a, cnt)), ins)
        self.undef_flags(st)                                 # unchanged if count == 0, else result flags: not modelled

    def i_shl(self, st, ins, ops):
        self._shift(st, ins, ops, "shl")

    def i_shr(self, st, ins, ops):
        self._shift(st, ins, ops, "shr")

    def i_sar(self, st, ins, ops):
        self._shift(st, ins, ops, "sar")

    def i_tzcnt(self, st, ins, ops):
        a = self.rd(st, ops[1], ins, ops[0].width)
        res = simp(tzcnt_term(a))
        st.flags["cf"] = simp(a == 0)
        st.flags["zf"] = simp(res == 0)
        st.flags["sf"] = None
        st.flags["of"] = None
        self.wr(st, ops[0], res, ins)

    # mask registers
    def i_kmovq(self, st, ins, ops):
        self.wr(st, ops[0], self.rd(st, ops[1], ins, 64), ins)

    def i_knotq(self, st, ins, ops):
        self.wr(st, ops[0], ~self.rd(st, ops[1], ins), ins)

    def i_kandq(self, st, ins, ops):
        self.wr(st, ops[0], self.rd(st, ops[1], ins) & self.rd(st, ops[2], ins), ins)

    def i_korq(self, st, ins, ops):
        self.wr(st, ops[0], self.rd(st, ops[1], ins) | self.rd(st, ops[2], ins), ins)

    def i_kxorq(self, st, ins, ops):
        self.wr(st, ops[0], self.rd(st, ops[1], ins) ^ self.rd(st, ops[2], ins), ins)

    def i_kxnorq(self, st, ins, ops):
        self.wr(st, ops[0], ~(self.rd(st, ops[1], ins) ^ self.rd(st, ops[2], ins)), ins)

    def i_kandnq(self, st, ins, ops):
        self.wr(st, ops[0], ~self.rd(st, ops[1], ins) & self.rd(st, ops[2], ins), ins)

    def i_kaddq(self, st, ins, ops):
        self.wr(st, ops[0], self.rd(st, ops[1], ins) + self.rd(st, ops[2], ins), ins)

    def _kshift(self, st, ins, ops, right):
        if not isinstance(ops[2], Imm):
            raise Inconclusive("mask shift count operand at %s" % ins)
        a = self.rd(st, ops[1], ins)
        n = ops[2].value & 0xff
        if n > 63:
            res = BV(0, 64)         # counts above 63 clear the destination
        else:
            res = simp(z3.LShR(a, BV(n, 64)) if right else (a << BV(n, 64)))
        self.wr(st, ops[0], res, ins)

    def i_kshiftrq(self, st, ins, ops):
        self._kshift(st, ins, ops, True)

    def i_kshiftlq(self, st, ins, ops):
        self._kshift(st, ins, ops, False)

    def i_kortestq(self, st, ins, ops):
        r = self.rd(st, ops[0], ins) | self.rd(st, ops[1], ins)
        st.flags["zf"] = simp(r == 0)
        st.flags["cf"] = simp(r == BV((1 << 64) - 1, 64))
        st.flags["of"] = z3.BoolVal(False)
        st.flags["sf"] = z3.BoolVal(False)

    def i_ktestq(self, st, ins, ops):
        a, b = self.rd(st, ops[0], ins), self.rd(st, ops[1], ins)
        st.flags["zf"] = simp((a & b) == 0)
        st.flags["cf"] = simp((~a & b) == 0)
        st.flags["of"] = z3.BoolVal(False)
        st.flags["sf"] = z3.BoolVal(False)

    # vector moves
    def _vmov(self, st, ins, ops):
        w = self.opw(ops[0]) or self.opw(ops[1])
        self.wr(st, ops[0], self.rd(st, ops[1], ins, w), ins)

    i_vmovdqu = _vmov
    i_vmovdqa = _vmov          # alignment of the rodata operands is a property of the linker layout, not modelled
    i_vmovdqu32 = _vmov

    def i_vmovq(self, st, ins, ops):
        d, s = ops
        if isinstance(d, Reg) and d.kind == "vec":
            self.wr(st, Reg("x" + d.name[1:]), zext(self.rd(st, s, ins, 64), 128), ins)
        elif isinstance(s, Reg) and s.kind == "vec":
            self.wr(st, d, z3.Extract(63, 0, st.regs[s.base]), ins)
        else:
            raise Inconclusive("vmovq form at %s" % ins)

    def i_movq(self, st, ins, ops):        # legacy SSE encoding: bits above 127 are preserved
        d, s = ops
        if isinstance(d, Reg) and d.kind == "vec" and isinstance(s, Reg) and s.kind == "gpr" and s.width == 64:
            self.wr(st, Reg("x" + d.name[1:]), zext(self.rd(st, s, ins), 128), ins, legacy_sse=True)
        else:
            raise Inconclusive("movq form at %s" % ins)

    def i_vzeroupper(self, st, ins, ops):
        for i in range(16):
            r = "zmm%d" % i
            st.regs[r] = simp(z3.ZeroExt(384, z3.Extract(127, 0, st.regs[r])))

    def i_vpbroadcastb(self, st, ins, ops):
        d, s = ops
        if isinstance(s, Reg) and s.kind == "vec":
            b = z3.Extract(7, 0, st.regs[s.base])
        elif isinstance(s, Reg) and s.kind == "gpr":
            b = z3.Extract(7, 0, st.regs[s.base])
        else:
            b = self.load(st, s, ins, 8)
        self.wr(st, d, join([b] * (d.width // 8)), ins)

    def i_vpbroadcastq(self, st, ins, ops):
        d, s = ops
        if isinstance(s, Reg) and s.kind == "vec":
            q = z3.Extract(63, 0, st.regs[s.base])
        elif isinstance(s, Mem):
            q = self.load(st, s, ins, 64)
        else:
            raise Inconclusive("vpbroadcastq form at %s" % ins)
        self.wr(st, d, join([q] * (d.width // 64)), ins)

    # vector logic
    def _vlogic(self, st, ins, ops, f):
        w = ops[0].width
        self.wr(st, ops[0], f(self.rd(st, ops[1], ins, w), self.rd(st, ops[2], ins, w)), ins)

    def i_vpand(self, st, ins, ops):
        self._vlogic(st, ins, ops, lambda a, b: a & b)

    def i_vpor(self, st, ins, ops):
        self._vlogic(st, ins, ops, lambda a, b: a | b)

    def i_vpxor(self, st, ins, ops):
        self._vlogic(st, ins, ops, lambda a, b: a ^ b)

    i_vpandd = i_vpand
    i_vpord = i_vpor
    i_vpxord = i_vpxor

    # vector compares
    def _vcmp(self, st, ins, ops, lane, pred):
        d = ops[0]
        w = ops[1].width
        a = self.rd(st, ops[1], ins, w)
        b = self.rd(st, ops[2], ins, w)
        n = w // lane
        la = [z3.Extract(lane * i + lane - 1, lane * i, a) for i in range(n)]
        lb = [z3.Extract(lane * i + lane - 1, lane * i, b) for i in range(n)]
        if d.kind == "k":
            bits = [z3.If(pred(x, y), BV(1, 1), BV(0, 1)) for x, y in zip(la, lb)]
            self.wr(st, d, zext(join(bits), 64), ins)
        else:
            ones = BV((1 << lane) - 1, lane)
            zero = BV(0, lane)
            self.wr(st, d, join([z3.If(pred(x, y), ones, zero) for x, y in zip(la, lb)]), ins)

    def i_vpcmpeqb(self, st, ins, ops):
        self._vcmp(st, ins, ops, 8, lambda x, y: x == y)

    def i_vpcmpeqd(self, st, ins, ops):
        self._vcmp(st, ins, ops, 32, lambda x, y: x == y)

    def i_vpcmpgtb(self, st, ins, ops):
        self._vcmp(st, ins, ops, 8, lambda x, y: x > y)      # signed: first source > second source

    def i_vpmovmskb(self, st, ins, ops):
        d, s = ops
        v = self.rd(st, s, ins)
        n = s.width // 8
        bits = [z3.Extract(8 * i + 7, 8 * i + 7, v) for i in range(n)]
        self.wr(st, d, zext(join(bits), d.width), ins)

    def i_vpshufb(self, st, ins, ops):
        d = ops[0]
        w = d.width
        tbl = self.rd(st, ops[1], ins, w)
        idx = self.rd(st, ops[2], ins, w)
        tb = bytes_of(tbl, w // 8)
        tb = [simp(x) for x in tb]
        out = []
        for i in range(w // 8):
            lane0 = (i // 16) * 16
            ib = z3.Extract(8 * i + 7, 8 * i, idx)
            sel = table_tree(tb[lane0:lane0 + 16], z3.Extract(3, 0, ib))
            out.append(z3.If(z3.Extract(7, 7, ib) == 1, BV(0, 8), sel))
        self.wr(st, d, join(out), ins)

    def i_vpsrld(self, st, ins, ops):
        d = ops[0]
        if not isinstance(ops[2], Imm):
            raise Inconclusive("vpsrld with non-immediate count at %s" % ins)
        n = ops[2].value & 0xff
        a = self.rd(st, ops[1], ins, d.width)
        lanes = [z3.Extract(32 * i + 31, 32 * i, a) for i in range(d.width // 32)]
        self.wr(st, d, join([(z3.LShR(x, BV(n, 32)) if n < 32 else BV(0, 32)) for x in lanes]), ins)

    def i_vpclmulqdq(self, st, ins, ops):
        d, a, b, imm = ops
        if d.width != 128 or not isinstance(imm, Imm):
            raise Inconclusive("vpclmulqdq form at %s" % ins)
        x = self.rd(st, a, ins, 128)
        y = self.rd(st, b, ins, 128)
        xa = z3.Extract(127, 64, x) if imm.value & 1 else z3.Extract(63, 0, x)
        yb = z3.Extract(127, 64, y) if imm.value & 16 else z3.Extract(63, 0, y)
        self.wr(st, d, clmul64(xa, yb), ins)

    def i_valignd(self, st, ins, ops):
        d, a, b, imm = ops
        if d.width != 512 or not isinstance(imm, Imm):
            raise Inconclusive("valignd form at %s" % ins)
        x = self.rd(st, a, ins, 512)
        y = self.rd(st, b, ins, 512)
        n = (imm.value & 15) * 32
        cat = z3.Concat(x, y)
        self.wr(st, d, z3.Extract(n + 511, n, cat), ins)

    # -- prologue ---------------------------------------------------------------------------------
    def skip_go_prologue(self, st):
        """recognises `mov r14, fs:[-8]; cmp rsp, [r14+16]; jbe <call runtime.morestack…>` and skips it
        (runtime.morestack is unreachable by assumption)"""
        i0 = self.prog.instrs.get(st.pc)
        if not (i0 is not None and i0.mnem == "mov" and len(i0.ops) == 2 and isinstance(i0.ops[1], Mem)
                and i0.ops[1].seg == "fs"):
            return False
        i1 = self.prog.instrs.get(i0.next)
        i2 = self.prog.instrs.get(i1.next) if i1 else None
        ok = (isinstance(i0.ops[0], Reg) and i0.ops[0].name == "r14" and i0.ops[1].disp == -8 and i0.ops[1].base is None
              and i1 is not None and i2 is not None and i1.mnem == "cmp" and isinstance(i1.ops[0], Reg) and i1.ops[0].name == "rsp"
              and isinstance(i1.ops[1], Mem) and i1.ops[1].base is not None and i1.ops[1].base.name == "r14"
              and i1.ops[1].disp == 16 and i1.ops[1].index is None and i2.mnem == "jbe")
        if not ok:
            raise Inconclusive("unrecognised stack-check prologue in %s" % i0.func)
        tgt = self.prog.instrs.get(i2.ops[0].addr)
        if not (tgt and tgt.mnem == "call" and "runtime.morestack" in tgt.text):
            raise Inconclusive("stack-check branch of %s does not lead to runtime.morestack" % i0.func)
        st.regs["r14"] = z3.BitVec("g_%x" % i0.addr, 64)
        self.undef_flags(st)
        st.pc = i2.next
        return True

    # -- driver ---------------------------------------------------------------------------------
    def run(self, st, stop_at=()):
        """runs to completion: returns final states (exit == 'ret' or 'stop:<addr>')"""
        work = [st]
        done = []
        stop_at = set(stop_at)
        st.skip_stop = True            # a run may start at a cut point (loop-head start)
        while work:
            s = work.pop()
            while True:
                if s.pc is None:
                    done.append(s)
                    break
                if s.pc in stop_at and not s.skip_stop:
                    s.exit = "stop:%x" % s.pc
                    done.append(s)
                    break
                if s.steps > self.max_steps:
                    raise Inconclusive("step limit exceeded")
                if s.pc in self.prog.func_at and self.skip_go_prologue(s):
                    continue
                succ = self.step(s)
                for x in succ:
                    x.skip_stop = False
                self.states += len(succ)
                if len(succ) == 1:
                    s = succ[0]
                    continue
                work.extend(succ)
                break
        return done
