"""E1: symbolic executor for the x86-64/AVX2/AVX-512 machine code of the assembly kernels (DESIGN §3.1)."""
