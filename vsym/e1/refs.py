"""Reference models for the assembly kernels as z3 term builders (DESIGN Appendix A.1, A.5).
Written from the JSON scanning rules, independently of the assembly: plain per-position recurrences."""
import z3

BV = z3.BitVecVal


def _mask(bits):
    """list of 64 Bool terms (index 0 = bit 0) -> BV64"""
    return z3.Concat(*[z3.If(b, BV(1, 1), BV(0, 1)) for b in reversed(bits)])


def _bit(m, i):
    return z3.Extract(i, i, m) == 1


def block_bytes(prefix="b"):
    return [z3.BitVec("%s%02d" % (prefix, i), 8) for i in range(64)]


# ---- REF-SCAN pieces -----------------------------------------------------------------------

def OE(B, esc0):
    """odd-backslash: bit i set iff byte i is escaped by an odd run of backslashes ending at i-1 (and is not itself
    a backslash); esc0 = previous block ended in an odd run.  Returns (mask, esc64)."""
    esc = esc0
    bits = []
    for b in B:
        bs = b == 0x5C
        bits.append(z3.And(esc, z3.Not(bs)))
        esc = z3.And(bs, z3.Not(esc))
    return _mask(bits), esc


def QUOTE(B, odd_ends, inq0):
    """QB (unescaped quotes), QM (inside-string mask: opening quote in, closing quote out), ERR (control char in
    string), inq64.  odd_ends is an abstract 64-bit mask."""
    inq = inq0
    qb, qm, err = [], [], []
    for i, b in enumerate(B):
        q = z3.And(b == 0x22, z3.Not(_bit(odd_ends, i)))
        inn = z3.Xor(inq, q)
        qb.append(q)
        qm.append(inn)
        err.append(z3.And(z3.ULT(b, 0x20), inn))
        inq = inn
    return _mask(qb), _mask(qm), _mask(err), inq


def is_ws(b):
    return z3.Or(b == 0x20, b == 0x0A, b == 0x09, b == 0x0D)


def is_struct(b):
    return z3.Or(b == 0x7B, b == 0x7D, b == 0x5B, b == 0x5D, b == 0x3A, b == 0x2C)


def WSST(B):
    return _mask([is_ws(b) for b in B]), _mask([is_struct(b) for b in B])


def FIN(st, ws, qm, qb, pp0):
    """finalize over five abstract inputs; returns (out mask, pp64)"""
    pp = pp0
    out = []
    for i in range(64):
        s_i, w_i, in_i, q_i = _bit(st, i), _bit(ws, i), _bit(qm, i), _bit(qb, i)
        s = z3.Or(z3.And(s_i, z3.Not(in_i)), q_i)
        o = z3.And(z3.Or(s, z3.And(pp, z3.Not(w_i), z3.Not(in_i))), z3.Not(z3.And(q_i, z3.Not(in_i))))
        out.append(o)
        pp = z3.Or(s, w_i)
    return _mask(out), pp


def NL(B, qm):
    return _mask([z3.And(b == 0x0A, z3.Not(_bit(qm, i))) for i, b in enumerate(B)])


def SCAN(B, esc0, inq0, pp0, ndjson):
    """whole block, direct per-position recurrence (monolithic reference).  ndjson: Bool.
    returns dict(out, err, esc, inq, pp)"""
    esc, inq, pp = esc0, inq0, pp0
    out, err = [], []
    for b in B:
        bs = b == 0x5C
        q = z3.And(b == 0x22, z3.Not(esc))
        esc = z3.And(bs, z3.Not(esc))
        inn = z3.Xor(inq, q)
        inq = inn
        err.append(z3.And(z3.ULT(b, 0x20), inn))
        s = z3.Or(z3.And(is_struct(b), z3.Not(inn)), q)
        o = z3.And(z3.Or(s, z3.And(pp, z3.Not(is_ws(b)), z3.Not(inn))), z3.Not(z3.And(q, z3.Not(inn))))
        o = z3.Or(o, z3.And(ndjson, b == 0x0A, z3.Not(inn)))
        out.append(o)
        pp = z3.Or(s, is_ws(b))
    return {"out": _mask(out), "err": _mask(err), "esc": esc, "inq": inq, "pp": pp}


def b2m(b):
    """Bool -> 0/1 as BV64"""
    return z3.If(b, BV(1, 64), BV(0, 64))


def b2all(b):
    """Bool -> 0/~0 as BV64"""
    return z3.If(b, BV(2 ** 64 - 1, 64), BV(0, 64))


# ---- FLAT --------------------------------------------------------------------------------------

def popcount64(m):
    s = BV(0, 64)
    for i in range(64):
        s = s + z3.ZeroExt(63, z3.Extract(i, i, m))
    return s


def msb_pos(m):
    """position of the highest set bit (undefined value 0 for m == 0)"""
    r = BV(0, 64)
    for i in range(64):
        r = z3.If(_bit(m, i), BV(i, 64), r)
    return r


def FLAT_summary(mask, index, carried, position):
    """effect of flatten_bits on the scalar state (deltas themselves are described by lemma A6):
    index' = index + popcount, position' = position + (p_last + 1 + carried), carried' = 63 - p_last
    (or carried + 64 and position unchanged when mask == 0)"""
    z = mask == 0
    pl = msb_pos(mask)
    return (index + popcount64(mask),
            z3.If(z, carried + 64, 63 - pl),
            z3.If(z, position, position + pl + 1 + carried))


# ---- REF-STR (one unescape step) ------------------------------------------------------------------

ESC = {0x22: 0x22, 0x5C: 0x5C, 0x2F: 0x2F, 0x62: 0x08, 0x66: 0x0C, 0x6E: 0x0A, 0x72: 0x0D, 0x74: 0x09}


def hexval(b):
    """(valid, 16-bit value) of one hex digit byte"""
    v = z3.If(z3.And(z3.UGE(b, 0x30), z3.ULE(b, 0x39)), z3.ZeroExt(8, b - 0x30),
              z3.If(z3.And(z3.UGE(b, 0x41), z3.ULE(b, 0x46)), z3.ZeroExt(8, b - 0x41 + 10),
                    z3.ZeroExt(8, b - 0x61 + 10)))
    ok = z3.Or(z3.And(z3.UGE(b, 0x30), z3.ULE(b, 0x39)), z3.And(z3.UGE(b, 0x41), z3.ULE(b, 0x46)),
               z3.And(z3.UGE(b, 0x61), z3.ULE(b, 0x66)))
    return ok, v


def hex4(bs):
    oks, v = [], BV(0, 16)
    for b in bs:
        ok, d = hexval(b)
        oks.append(ok)
        v = (v << 4) | d
    return z3.And(*oks), v


def utf8(cp):
    """cp: 32-bit code point term -> (length term (64 bit), [4 byte terms])"""
    c = cp
    e = lambda hi, lo: z3.Extract(hi, lo, c)
    b1 = [z3.Extract(7, 0, c)]
    b2 = [BV(0xC0, 8) | z3.ZeroExt(3, e(10, 6)), BV(0x80, 8) | z3.ZeroExt(2, e(5, 0))]
    b3 = [BV(0xE0, 8) | z3.ZeroExt(4, e(15, 12)), BV(0x80, 8) | z3.ZeroExt(2, e(11, 6)), BV(0x80, 8) | z3.ZeroExt(2, e(5, 0))]
    b4 = [BV(0xF0, 8) | z3.ZeroExt(5, e(20, 18)), BV(0x80, 8) | z3.ZeroExt(2, e(17, 12)), BV(0x80, 8) | z3.ZeroExt(2, e(11, 6)),
          BV(0x80, 8) | z3.ZeroExt(2, e(5, 0))]
    c1, c2, c3 = z3.ULT(c, 0x80), z3.ULT(c, 0x800), z3.ULT(c, 0x10000)
    ln = z3.If(c1, BV(1, 64), z3.If(c2, BV(2, 64), z3.If(c3, BV(3, 64), BV(4, 64))))
    out = []
    for i in range(4):
        alts = [x[i] if i < len(x) else BV(0, 8) for x in (b1, b2, b3, b4)]
        out.append(z3.If(c1, alts[0], z3.If(c2, alts[1], z3.If(c3, alts[2], alts[3]))))
    return ln, out


def STR_escape(e):
    """the escape starting at a backslash; e = list of >= 12 byte terms, e[0] is the backslash.
    returns dict: ok (accepted), dontcare, consumed (64-bit), outlen (64-bit), out (4 byte terms)"""
    c = e[1]
    simple_ok = z3.Or(*[c == k for k in ESC])
    simple_out = BV(0, 8)
    for k, v in ESC.items():
        simple_out = z3.If(c == k, BV(v, 8), simple_out)
    is_u = c == 0x75
    ok1, h = hex4(e[2:6])
    hi_sur = z3.And(z3.UGE(h, 0xD800), z3.ULE(h, 0xDBFF))
    lo_sur = z3.And(z3.UGE(h, 0xDC00), z3.ULE(h, 0xDFFF))
    ok2, l = hex4(e[8:12])
    pair_syntax = z3.And(e[6] == 0x5C, e[7] == 0x75, ok2)
    l_is_low = z3.And(z3.UGE(l, 0xDC00), z3.ULE(l, 0xDFFF))
    cp_pair = BV(0x10000, 32) + (z3.ZeroExt(16, h - 0xD800) << 10) + z3.ZeroExt(16, l - 0xDC00)
    cp = z3.If(hi_sur, cp_pair, z3.ZeroExt(16, h))
    ulen, ub = utf8(cp)
    dontcare = z3.And(is_u, ok1, z3.Or(lo_sur, z3.And(hi_sur, z3.Not(z3.And(pair_syntax, l_is_low)))))
    ok = z3.If(is_u, z3.And(ok1, z3.Not(lo_sur), z3.Implies(hi_sur, z3.And(pair_syntax, l_is_low))), simple_ok)
    consumed = z3.If(is_u, z3.If(hi_sur, BV(12, 64), BV(6, 64)), BV(2, 64))
    outlen = z3.If(is_u, ulen, BV(1, 64))
    out = [z3.If(is_u, ub[0], simple_out)] + [ub[i] for i in range(1, 4)]
    return {"ok": ok, "dontcare": dontcare, "consumed": consumed, "outlen": outlen, "out": out, "is_u": is_u,
            "ok1": ok1, "hi_sur": hi_sur}


def first_event(W, n=32):
    """first index i < n with W[i] in {quote, backslash}: (has_event Bool, index as 64-bit term)"""
    ev = BV(0, 64)
    has = z3.BoolVal(False)
    for i in reversed(range(n)):
        hit = z3.Or(W[i] == 0x22, W[i] == 0x5C)
        ev = z3.If(hit, BV(i, 64), ev)
        has = z3.Or(hit, has)
    return has, ev


# ---- concrete REF-STR over a whole string (expectation for native replays) ----------------------------------------

def str_py(buf):
    """returns (status, str_len, out): status in accept / reject / dontcare / unterminated"""
    HEX = b"0123456789abcdefABCDEF"
    c = 0
    out = bytearray()
    n = len(buf)
    while c < n:
        b = buf[c]
        if b == 0x22:
            return "accept", c, bytes(out)
        if b != 0x5C:
            out.append(b)
            c += 1
            continue
        e = buf[c + 1] if c + 1 < n else 0
        if e in ESC:
            out.append(ESC[e])
            c += 2
            continue
        if e != 0x75:
            return "reject", c, bytes(out)
        h4 = buf[c + 2:c + 6]
        if len(h4) < 4 or any(x not in HEX for x in h4):
            return "reject", c, bytes(out)
        h = int(h4.decode(), 16)
        if 0xDC00 <= h <= 0xDFFF:
            return "dontcare", c, bytes(out)
        if 0xD800 <= h <= 0xDBFF:
            l4 = buf[c + 8:c + 12]
            if buf[c + 6:c + 8] != b"\\u" or len(l4) < 4 or any(x not in HEX for x in l4):
                return "dontcare", c, bytes(out)
            l = int(l4.decode(), 16)
            if not (0xDC00 <= l <= 0xDFFF):
                return "dontcare", c, bytes(out)
            cp = 0x10000 + ((h - 0xD800) << 10) + (l - 0xDC00)
            out += chr(cp).encode("utf-8")
            c += 12
            continue
        out += chr(h).encode("utf-8")
        c += 6
    return "unterminated", c, bytes(out)
