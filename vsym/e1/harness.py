"""Harness layer shared by the E1 lemmas and the translator validation: setting up machine states for the
kernels (ABI0 wrapper calls, subroutine register contracts), concrete evaluation of references, frame checks."""
import z3
from .. import common
from . import x86, refs
from .x86 import BV, simp, fresh_state, set_args, get_result, bytes_of, join, zext

Inconclusive = common.Inconclusive

INIT512 = ["__init_odd_backslash_sequences_avx512", "__init_quote_mask_and_bits_avx512",
           "__init_whitespace_and_structurals_avx512", "__init_newline_delimiters_avx512"]
CONST512 = ["zmm%d" % i for i in range(16, 27)]

# register contracts (DESIGN Appendix A.2): outputs and clobber sets of the stage-1 subroutines.
# "cells": pointer registers whose 8-byte target may be written.
CONTRACT = {
    "__find_odd_backslash_sequences": dict(out=["rax"], clobber=["rcx", "rsi", "rdi", "r8", "r9", "r10", "zmm0", "zmm1"], cells=["rdx"]),
    "__find_odd_backslash_sequences_avx512": dict(out=["rax"], clobber=["rcx", "rsi", "rdi", "r8", "r9", "r10", "k1"], cells=["rdx"]),
    "__find_quote_mask_and_bits": dict(out=["rax"], clobber=["rsi", "rdx", "r10", "zmm0", "zmm1", "zmm2", "zmm3"], cells=["rcx", "r8", "r9"]),
    "__find_quote_mask_and_bits_avx512": dict(out=["rax", "k6", "k4"], clobber=["rdx", "k1", "k2", "zmm0", "zmm2", "zmm3"], cells=["rcx"]),
    "__find_whitespace_and_structurals": dict(out=[], clobber=["rax", "rsi", "rcx", "r8", "zmm0", "zmm1", "zmm2", "zmm3", "zmm4", "zmm5"], cells=["rdx", "rcx"]),
    "__find_whitespace_and_structurals_avx512": dict(out=["k5", "k7"], clobber=["zmm0", "zmm3"], cells=[]),
    "__finalize_structurals": dict(out=["rax"], clobber=["rdi", "rsi", "rcx", "r9"], cells=["r8"]),
    "__finalize_structurals_avx512": dict(out=["rax"], clobber=["rdi", "rsi", "rcx", "r9"], cells=["r8"]),
    "__find_newline_delimiters": dict(out=["rbx"], clobber=["rcx", "zmm10", "zmm11"], cells=[]),
    "__find_newline_delimiters_avx512": dict(out=["rbx"], clobber=["k1"], cells=[]),
    "__flatten_bits_incremental": dict(out=["rbx", "rdx", "r10"], clobber=["rax", "rcx", "r8", "r9"], cells=[]),
}


def sub_name(base, fam):
    return base + ("_avx512" if fam == "avx512" else "")


def call_sub(ex, st, name):
    """executes subroutine `name` as if CALLed from the current state; returns final states (after its RET)"""
    ex.push(st, BV(x86.SENTINEL_RET, 64), None)
    st.pc = ex.prog.entry(name)
    st.exit = None
    return ex.run(st)


def run_inits(ex, st):
    """runs the real __init_*_avx512 routines (the constants Z16..Z26 are whatever the code loads)"""
    for n in INIT512:
        fin = call_sub(ex, st, n)
        if len(fin) != 1 or fin[0].exit != "ret":
            raise Inconclusive("init routine %s did not run straight through" % n)
        st = fin[0]
    return st


def havoc_gprs(st, tag):
    for r in x86.GPR64:
        if r != "rsp":
            st.regs[r] = z3.BitVec("h_%s_%s" % (r, tag), 64)
    for f in st.flags:
        st.flags[f] = None


def havoc_scratch_vec(st, tag, keep=()):
    for i in range(32):
        r = "zmm%d" % i
        if r not in keep:
            st.regs[r] = z3.BitVec("h_%s_%s" % (r, tag), 512)
    for i in range(8):
        r = "k%d" % i
        if r not in keep:
            st.regs[r] = z3.BitVec("h_%s_%s" % (r, tag), 64)


def set_block(st, fam, B):
    """input block in Z8 (avx512) or Y8/Y9 (avx2)"""
    if fam == "avx512":
        st.regs["zmm8"] = simp(join(B))
    else:
        st.regs["zmm8"] = simp(z3.ZeroExt(256, join(B[:32])))
        st.regs["zmm9"] = simp(z3.ZeroExt(256, join(B[32:])))


def cval64(t):
    t = simp(t)
    if not z3.is_bv_value(t):
        raise Inconclusive("expected a concrete value, got %s" % str(t)[:120])
    return t.as_long()


def bval(t):
    t = simp(t)
    if z3.is_true(t):
        return True
    if z3.is_false(t):
        return False
    raise Inconclusive("expected a concrete Boolean")


def conc_block(bs):
    return [BV(b, 8) for b in bs]


def frame_check(ex, st, init, name, extra_regs=(), prove=None):
    """registers outside the contract of `name` unchanged; rsp popped; stores only to contract cells and own stack.
    Returns list of violations (text)."""
    c = CONTRACT[name]
    allowed = set(c["out"]) | set(c["clobber"]) | set(extra_regs)
    bad = []
    for r, v0 in init.items():
        if r in allowed or r == "rsp":
            continue
        v1 = st.regs[r]
        if v1.eq(v0):
            continue
        if prove is not None and prove(v1 == v0):
            continue
        bad.append("register %s is changed by %s but is not in its contract" % (r, name))
    return bad


def eval_model(m, t):
    v = m.eval(t, model_completion=True)
    if z3.is_bv_value(v):
        return v.as_long()
    if z3.is_true(v):
        return 1
    if z3.is_false(v):
        return 0
    raise Inconclusive("model evaluation did not yield a value")
