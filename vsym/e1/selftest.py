"""Self-test of the E1 lemmas (DESIGN §3.8, Appendix C): applies the mutations m01–m08, m26, m27 one at a time to a
scratch copy of the repository (rsync to /var/tmp, selected through VERIF_REPO), confirms that each mutant still
builds, runs the lemmas the design names (plus A8 where it is instructive) and reports which lemma kills it.

    python3-vt -m vsym.e1.selftest [m01 m03 ...] [--tier quick]
"""
import json, os, shutil, subprocess, sys, tempfile, time
from concurrent.futures import ThreadPoolExecutor

HERE = os.path.dirname(os.path.abspath(__file__))
VERIF = os.path.dirname(os.path.dirname(HERE))

# id: (file, old text, new text, occurrence index, lemmas to run [(function, args)], lemmas expected to report sat)
MUT = {
    "m01": ("find_whitespace_and_structurals_amd64.s", "DATA LCDATA1<>+0x008(SB)/8, $0x00000902010c0800",
            "DATA LCDATA1<>+0x008(SB)/8, $0x0000090201080c00", 0,
            [("A3", ("avx2",)), ("A3", ("avx512",)), ("A8", (["A3"],))], ["A3(avx2)", "A3(avx512)"],
            "two bytes of the low-nibble table swapped (shared by both families: A8 stays green, A3 is needed)"),
    "m01b": ("find_whitespace_and_structurals_amd64.s", "$0x00000902010c0800", "$0x0000090201080c00", "all",
             [("A3", ("avx2",)), ("A3", ("avx512",)), ("A8", (["A3"],))], ["A3(avx2)", "A3(avx512)"],
             "same swap in all four replicated lanes of the table (not a single-line edit): both families wrong in the same way, "
             "A8 stays green - the case DESIGN App. C had in mind for m01"),
    "m02": ("find_quote_mask_and_bits_amd64.s", "DATA LCDATA1<>+0x080(SB)/8, $0xa0a0a0a0a0a0a0a0",
            "DATA LCDATA1<>+0x080(SB)/8, $0xa0a0a0a0a0a0a0a1", 0,
            [("A2", ("avx2",)), ("A2", ("avx512",))], ["A2(avx2)", "A2(avx512)"], "control-character threshold 0x20 -> 0x21 in lane 0"),
    "m03": ("find_odd_backslash_sequences_amd64.s", "SETCS CX", "SETCC CX", 0,
            [("A1", ("avx2",)), ("A1", ("avx512",))], ["A1(avx2)", "A1(avx512)"], "carry-out of the odd-backslash run inverted"),
    "m04": ("find_quote_mask_and_bits_amd64.s", "\tKNOTQ      K_TEMP1, K_TEMP1\n", "", 0,
            [("A2", ("avx512",)), ("A2", ("avx2",)), ("A8", (["A2"],))], ["A2(avx512)", "A8.A2"], "AVX-512 only: odd_ends no longer inverted"),
    "m05": ("finalize_structurals_amd64.s", "SHRQ  $63, AX", "SHRQ  $62, AX", 0,
            [("A4", ("avx2",)), ("A8", (["A4"],))], ["A4(avx2)"], "pseudo-pred carry shift (AVX2 routine)"),
    "m06": ("find_structural_bits_amd64.s", "DATA MASKTABLE<>+0x018(SB)/8, $0x00ffffffffffffff",
            "DATA MASKTABLE<>+0x018(SB)/8, $0xffffffffffffffff", 0,
            [("A7", ("avx2", [(0, 31), (0, 63), (1, 31)])), ("A7", ("avx2", [(0, 1), (0, 32), (1, 0)]))], ["A7(avx2)"],
            "tail mask one byte too long (AVX2 driver)"),
    "m07": ("flatten_bits_amd64.s", "\tSHRQ $1, MASK\n", "", 0, [("A6", ())], ["A6"], "first-iteration double shift removed"),
    "m08": ("find_newline_delimiters_amd64.s", "ANDNQ     BX, DX, BX", "MOVQ      BX, BX", 0,
            [("A5", ("avx2",)), ("A8", (["A5"],))], ["A5(avx2)"], "quoted LF becomes a delimiter (AVX2 routine)"),
    "m26": ("parse_string_amd64.s", "DATA LCDATA1<>+0x168(SB)/8, $0x2f00000000000000", "DATA LCDATA1<>+0x168(SB)/8, $0x0000000000000000", 0,
            [("S1", ()), ("S3", ())], ["S1", "S3"], "escape_map entry for '/' cleared"),
    "m27": ("parse_string_amd64.s", "LONG $0x00c08141; WORD $0xa000; BYTE $0xfc // add    r8d, -56623104",
            "LONG $0x00c08141; WORD $0xa004; BYTE $0xfc // add    r8d, -56622080", 0,
            [("S3", ()), ("S1", ())], ["S3"], "_parse_string: surrogate-pair constant off by 0x400 (validate-only routine untouched)"),
}


def child(mid):
    """runs inside a process whose VERIF_REPO points at the mutated copy"""
    from vsym import common, lemmas_e1 as LM
    file, old, new, occ, lemmas, expect, note = MUT[mid]
    tier = os.environ.get("VERIF_TIER", "quick")
    out = {"mutation": mid, "lemmas": {}, "violations": [], "inconclusive": []}
    ctx = LM.SubCtx("SELFTEST", tier, 0)
    # the unchanged tree already violates S1/S3 through defect F3 (digittoval[0x00..0x2f] = 0); in the self-test that class is
    # treated as a known finding so that a mutant is "killed" only by a *different* counterexample
    ctx.known = [{"id": "F3", "status": "finding", "property": "SELFTEST", "exclusion": "u_hex_digit_below_0x30",
                  "what": "digittoval[0x00..0x2f]=0: non-hex \\u digit below '0' accepted"}]
    for fn, args in lemmas:
        try:
            getattr(LM, fn)(ctx, *args)
        except common.Inconclusive as e:
            ctx.report_inconclusive("%s%s: %s" % (fn, args, e))
        except Exception as e:
            import traceback
            ctx.report_inconclusive("%s%s: engine error %s" % (fn, args, traceback.format_exc()[-800:]))
    for l in ctx.lemmas:
        out["lemmas"][l["name"]] = l["verdict"]
    for kind, a, b in ctx.pending:
        if kind == "violation":
            out["violations"].append({"what": a, "witness": b})
        elif kind == "inconclusive":
            out["inconclusive"].append(a)
    print("SELFTEST-RESULT " + json.dumps(out, default=str))


def run_mutation(mid, tier):
    file, old, new, occ, lemmas, expect, note = MUT[mid]
    t0 = time.time()
    work = tempfile.mkdtemp(prefix="verif-selftest-%s-" % mid, dir="/var/tmp")
    res = {"mutation": mid, "note": note, "expect": expect}
    try:
        copy = os.path.join(work, "repo")
        subprocess.run(["rsync", "-a", "--exclude", ".git", os.environ.get("VERIF_REPO_BASE", "/repo") + "/", copy + "/"], check=True)
        p = os.path.join(copy, file)
        src = open(p).read()
        if occ == "all":
            if old not in src:
                res["error"] = "mutation site not found in %s" % file
                return res
            open(p, "w").write(src.replace(old, new))
        else:
            if src.count(old) < occ + 1:
                res["error"] = "mutation site not found in %s" % file
                return res
            pos = -1
            for _ in range(occ + 1):
                pos = src.index(old, pos + 1)
            open(p, "w").write(src[:pos] + new + src[pos + len(old):])
        env = dict(os.environ)
        env.update({"GOFLAGS": "-mod=mod", "GOPROXY": "off", "GOSUMDB": "off", "GOTOOLCHAIN": "local", "VERIF_REPO": copy,
                    "PYTHONPATH": VERIF, "VERIF_TIER": tier, "VERIF_SKIP_TV": "1"})
        b = subprocess.run(["go", "test", "-c", "-vet=off", "-o", os.path.join(work, "m.test"), "."], cwd=copy, env=env,
                           stdout=subprocess.PIPE, stderr=subprocess.STDOUT, text=True)
        res["builds"] = b.returncode == 0
        if b.returncode != 0:
            res["error"] = "mutant does not build: " + b.stdout[-400:]
            return res
        r = subprocess.run(["python3-vt", "-m", "vsym.e1.selftest", "--child", mid], cwd=VERIF, env=env,
                           stdout=subprocess.PIPE, stderr=subprocess.STDOUT, text=True, timeout=3600)
        for line in r.stdout.splitlines():
            if line.startswith("SELFTEST-RESULT "):
                res.update(json.loads(line[len("SELFTEST-RESULT "):]))
        if "lemmas" not in res:
            res["error"] = "child failed: " + r.stdout[-1500:]
        res["log"] = [l for l in r.stdout.splitlines() if "[replay]" in l]
        return res
    finally:
        res["wall_s"] = round(time.time() - t0, 1)
        shutil.rmtree(work, ignore_errors=True)


def main(argv):
    if len(argv) >= 2 and argv[0] == "--child":
        child(argv[1])
        return 0
    tier = "quick"
    if "--tier" in argv:
        i = argv.index("--tier")
        tier = argv[i + 1]
        argv = argv[:i] + argv[i + 2:]
    ids = [a for a in argv if a in MUT] or sorted(MUT)
    with ThreadPoolExecutor(max_workers=min(len(ids), 12)) as tp:
        results = list(tp.map(lambda m: run_mutation(m, tier), ids))
    ok = True
    print("%-5s %-7s %-34s %-s" % ("mut", "builds", "killed by", "other lemmas run"))
    for r in results:
        if "error" in r:
            print("%-5s ERROR %s" % (r["mutation"], r["error"]))
            ok = False
            continue
        lem = {k: v for k, v in r["lemmas"].items() if not k.endswith(".bounds") or v == "sat"}
        killed = sorted(k for k, v in lem.items() if v == "sat")
        other = sorted("%s=%s" % (k, v) for k, v in lem.items() if v != "sat")
        missing = [e for e in r["expect"] if not any(k == e or k.startswith(e + "[") for k in killed)]
        print("%-5s %-7s %-34s %s  [%ss]%s" % (r["mutation"], r.get("builds"), ",".join(killed) or "-", " ".join(other), r["wall_s"],
                                             ("  MISSING: %s" % missing) if missing else ""))
        for v in r["violations"]:
            print("        witness: %s" % json.dumps(v["witness"], default=str)[:300])
        for inc in r["inconclusive"]:
            print("        inconclusive: %s" % inc[:300])
        if missing:
            ok = False
    print("selftest:", "all expected kills observed" if ok else "GAPS (see above)")
    return 0 if ok else 1


if __name__ == "__main__":
    sys.exit(main(sys.argv[1:]))
