"""Native execution of the real assembly functions through a `go test -overlay` test (DESIGN §3.5).

native(requests) -> results;  a request is {"op", "fam", "buf" (bytes), "a" (list of uint64)}.
Used for translator validation and for replaying every solver counterexample."""
import json, os, shutil
from .. import common

GO_SRC = r'''
package simdjson

import (
	"encoding/hex"
	"encoding/json"
	"os"
	"testing"
	"unsafe"
)

type verifE1Req struct {
	Op  string   `json:"op"`
	Fam string   `json:"fam"`
	Buf string   `json:"buf"`
	A   []uint64 `json:"a"`
}

type verifE1Res struct {
	R   []uint64 `json:"r"`
	Out string   `json:"out,omitempty"`
	Idx []uint32 `json:"idx,omitempty"`
	Str []string `json:"str,omitempty"`
	Oob int      `json:"oob,omitempty"` // entries written beyond the 1536-entry index buffer (guard zone)
}

const verifGuard = 256

func verifIndexBuf() ([]uint32, *[indexSize]uint32) {
	big := make([]uint32, indexSize+verifGuard)
	for i := range big {
		big[i] = 0xDEADBEEF
	}
	return big, (*[indexSize]uint32)(unsafe.Pointer(&big[0]))
}

func verifOob(big []uint32) (n int) {
	for i := indexSize; i < len(big); i++ {
		if big[i] != 0xDEADBEEF {
			n++
		}
	}
	return
}

func verifE1One(q verifE1Req) (res verifE1Res) {
	buf, _ := hex.DecodeString(q.Buf)
	a := q.A
	x5 := q.Fam == "avx512"
	switch q.Op {
	case "oe":
		c := a[0]
		var m uint64
		if x5 {
			m = find_odd_backslash_sequences_avx512(buf, &c)
		} else {
			m = find_odd_backslash_sequences(buf, &c)
		}
		res.R = []uint64{m, c}
	case "qm":
		piq, qb, em := a[1], uint64(0), a[2]
		var m uint64
		if x5 {
			m = find_quote_mask_and_bits_avx512(buf, a[0], &piq, &qb, &em)
		} else {
			m = find_quote_mask_and_bits(buf, a[0], &piq, &qb, &em)
		}
		res.R = []uint64{m, qb, piq, em}
	case "ws":
		var ws, st uint64
		if x5 {
			find_whitespace_and_structurals_avx512(buf, &ws, &st)
		} else {
			find_whitespace_and_structurals(buf, &ws, &st)
		}
		res.R = []uint64{ws, st}
	case "fin":
		pp := a[4]
		out := finalize_structurals(a[0], a[1], a[2], a[3], &pp)
		res.R = []uint64{out, pp}
	case "nl":
		var m uint64
		if x5 {
			m = _find_newline_delimiters_avx512(buf, a[0])
		} else {
			m = _find_newline_delimiters(buf, a[0])
		}
		res.R = []uint64{m}
	case "flat":
		big, base := verifIndexBuf()
		idx := int(a[0])
		carried := int(a[2])
		pos := a[3]
		flatten_bits_incremental(base, &idx, a[1], &carried, &pos)
		res.R = []uint64{uint64(idx), uint64(carried), pos}
		if idx >= int(a[0]) && idx <= len(big) {
			res.Idx = append([]uint32{}, big[a[0]:idx]...)
		}
		res.Oob = verifOob(big)
	case "block":
		esc, piq, em, pp := a[0], a[1], a[2], a[3]
		var s uint64
		if x5 {
			// _find_structural_bits_avx512 does not initialise K4 (KORQ K4,K4,K4): zero it through the quote wrapper first
			sp := make([]byte, 64)
			for i := range sp {
				sp[i] = ' '
			}
			var p0, q0, e0 uint64
			find_quote_mask_and_bits_avx512(sp, 0, &p0, &q0, &e0)
			s = find_structural_bits_avx512(buf, &esc, &piq, &em, 0, &pp)
		} else {
			s = find_structural_bits(buf, &esc, &piq, &em, 0, &pp)
		}
		res.R = []uint64{s, esc, piq, em, pp}
	case "slice":
		n := a[0]
		esc, piq, em, pp := a[1], a[2], a[3], a[4]
		big, indexes := verifIndexBuf()
		index := int(a[5])
		carried, position := a[6], a[7]
		var processed uint64
		if x5 {
			processed = find_structural_bits_in_slice_avx512(buf[:n], &esc, &piq, &em, &pp, indexes, &index, &carried, &position, a[8])
		} else {
			processed = find_structural_bits_in_slice(buf[:n], &esc, &piq, &em, &pp, indexes, &index, &carried, &position, a[8])
		}
		res.R = []uint64{processed, esc, piq, em, pp, uint64(index), carried, position}
		if index >= int(a[5]) && index <= len(big) {
			res.Idx = append([]uint32{}, big[a[5]:index]...)
		}
		res.Oob = verifOob(big)
	case "psv":
		maxs, sl, dl := a[0], a[1], a[2]
		r := _parse_string_validate_only(unsafe.Pointer(&buf[0]), unsafe.Pointer(&maxs), unsafe.Pointer(&sl), unsafe.Pointer(&dl))
		res.R = []uint64{r, sl, dl}
	case "ps":
		dst := make([]byte, a[0])
		for i := range dst {
			dst[i] = 0xEE
		}
		loc := unsafe.Pointer(&dst[0])
		r := _parse_string(unsafe.Pointer(&buf[0]), unsafe.Pointer(&dst[0]), unsafe.Pointer(&loc))
		res.R = []uint64{r, uint64(uintptr(loc) - uintptr(unsafe.Pointer(&dst[0])))}
		res.Out = hex.EncodeToString(dst)
	case "pstests":
		for _, tc := range tests {
			res.Str = append(res.Str, hex.EncodeToString([]byte(tc.str)))
		}
	default:
		panic("verif: unknown op " + q.Op)
	}
	return
}

func TestVerifE1Replay(t *testing.T) {
	in, err := os.ReadFile(os.Getenv("VERIF_E1_IN"))
	if err != nil {
		t.Fatal(err)
	}
	var reqs []verifE1Req
	if err := json.Unmarshal(in, &reqs); err != nil {
		t.Fatal(err)
	}
	out := make([]verifE1Res, len(reqs))
	for i, q := range reqs {
		out[i] = verifE1One(q)
	}
	b, _ := json.Marshal(out)
	if err := os.WriteFile(os.Getenv("VERIF_E1_OUT"), b, 0o644); err != nil {
		t.Fatal(err)
	}
}
'''


def native(requests, timeout=600):
    """runs the requests against the real build; returns list of result dicts (r, out bytes, idx)"""
    d = common.scratch("verif-e1io-")
    try:
        fin = os.path.join(d, "in.json")
        fout = os.path.join(d, "out.json")
        enc = []
        for q in requests:
            enc.append({"op": q["op"], "fam": q.get("fam", "avx2"), "buf": bytes(q.get("buf", b"")).hex(),
                        "a": [int(x) & (2 ** 64 - 1) for x in q.get("a", [])]})
        with open(fin, "w") as f:
            json.dump(enc, f)
        rc, out = common.go_test_overlay({"zz_verif_e1_test.go": GO_SRC}, "^TestVerifE1Replay$", timeout=timeout,
                                         extra_env={"VERIF_E1_IN": fin, "VERIF_E1_OUT": fout})
        if rc != 0 or not os.path.exists(fout):
            raise common.Inconclusive("native replay run failed (rc=%d): %s ... %s" % (rc, out[:1500], out[-300:]))
        res = json.load(open(fout))
        for r in res:
            r["out"] = bytes.fromhex(r.get("out", "") or "")
            r["idx"] = r.get("idx") or []
            r["r"] = r.get("r") or []
            r["str"] = [bytes.fromhex(x) for x in (r.get("str") or [])]
            r["oob"] = r.get("oob") or 0
        return res
    finally:
        shutil.rmtree(d, ignore_errors=True)
