"""Translator validation (DESIGN §3.1): the lifter + interpreter are run on concrete inputs and compared with the
native assembly functions called through an overlay test.  Any disagreement = engine error (Inconclusive)."""
import os, random, re
import z3
from .. import common
from . import x86, harness as H, replay
from .x86 import BV, simp, fresh_state, set_args, get_result

Inconclusive = common.Inconclusive
STAGE1_OPS = ["oe", "qm", "ws", "fin", "nl", "flat", "block", "slice"]
STRING_OPS = ["psv", "ps"]
INDEX_SIZE = 1536


def go_consts():
    """(indexSize, indexSizeWithSafetyBuffer) as declared in parsed_json.go of the tree under check"""
    src = open(os.path.join(common.REPO, "parsed_json.go")).read()
    m1 = re.search(r"^const indexSize = (\d+)", src, re.M)
    m2 = re.search(r"^const indexSizeWithSafetyBuffer = indexSize - (\d+)", src, re.M)
    if not (m1 and m2):
        raise Inconclusive("cannot read indexSize / indexSizeWithSafetyBuffer from parsed_json.go")
    return int(m1.group(1)), int(m1.group(1)) - int(m2.group(1))


def _buf_region(st, name, data, writable=False, size=None):
    return st.add_region(name, size if size is not None else len(data), writable=writable, default="zero",
                         data=[BV(b, 8) for b in data])


def _cell(st, name, v):
    return BV(st.cell(name, BV(v & (2 ** 64 - 1), 64)), 64)


def _c(t):
    return H.cval64(t)


def lifted(prog, q):
    """runs request q (same format as replay.native) through the interpreter; returns {"r": [...], "idx": [...], "out": bytes}"""
    ex = x86.Executor(prog, timeout_ms=20000)
    ex.loop_bound = 80
    op, fam, buf, a = q["op"], q.get("fam", "avx2"), bytes(q.get("buf", b"")), list(q.get("a", []))
    x5 = fam == "avx512"
    st = fresh_state()
    res = {"r": [], "idx": [], "out": b""}

    def run(name):
        st.pc = prog.entry(name)
        fin = ex.run(st)
        if len(fin) != 1 or fin[0].exit != "ret":
            raise Inconclusive("translator validation: %s did not run to a single return on concrete input" % name)
        f = fin[0]
        for o in f.obligations:
            raise Inconclusive("translator validation: concrete run of %s violates a bounds obligation: %s" % (name, o.what))
        return f

    if op == "oe":
        b = _buf_region(st, "buf", buf)
        c = _cell(st, "esc", a[0])
        set_args(st, [BV(b.base, 64), c])
        f = run(H.sub_name("_find_odd_backslash_sequences", fam))
        res["r"] = [_c(get_result(f, 2)), _c(f.read_cell("esc"))]
    elif op == "qm":
        b = _buf_region(st, "buf", buf)
        piq = _cell(st, "piq", a[1])
        if x5:
            set_args(st, [BV(b.base, 64), BV(a[0], 64), piq])
            f = run("_find_quote_mask_and_bits_avx512")
            res["r"] = [_c(get_result(f, 5)), _c(get_result(f, 4)), _c(f.read_cell("piq")), _c(get_result(f, 3))]
        else:
            qb = _cell(st, "qb", 0)
            em = _cell(st, "em", a[2])
            set_args(st, [BV(b.base, 64), BV(a[0], 64), piq, qb, em])
            f = run("_find_quote_mask_and_bits")
            res["r"] = [_c(get_result(f, 5)), _c(f.read_cell("qb")), _c(f.read_cell("piq")), _c(f.read_cell("em"))]
    elif op == "ws":
        b = _buf_region(st, "buf", buf)
        if x5:
            set_args(st, [BV(b.base, 64)])
            f = run("_find_whitespace_and_structurals_avx512")
            res["r"] = [_c(get_result(f, 1)), _c(get_result(f, 2))]
        else:
            ws = _cell(st, "ws", 0)
            s_ = _cell(st, "st", 0)
            set_args(st, [BV(b.base, 64), ws, s_])
            f = run("_find_whitespace_and_structurals")
            res["r"] = [_c(f.read_cell("ws")), _c(f.read_cell("st"))]
    elif op == "fin":
        pp = _cell(st, "pp", a[4])
        set_args(st, [BV(a[0], 64), BV(a[1], 64), BV(a[2], 64), BV(a[3], 64), pp])
        f = run("_finalize_structurals")
        res["r"] = [_c(get_result(f, 5)), _c(f.read_cell("pp"))]
    elif op == "nl":
        b = _buf_region(st, "buf", buf)
        set_args(st, [BV(b.base, 64), BV(len(buf), 64), BV(len(buf), 64), BV(a[0], 64)])
        f = run(H.sub_name("_find_newline_delimiters", fam))
        res["r"] = [_c(get_result(f, 4))]
    elif op == "flat":
        base = st.add_region("indexes", INDEX_SIZE * 4, default="zero")
        idx = _cell(st, "index", a[0])
        car = _cell(st, "carried", a[2])
        pos = _cell(st, "position", a[3])
        set_args(st, [BV(base.base, 64), idx, BV(a[1], 64), car, pos])
        f = run("_flatten_bits_incremental")
        i1 = _c(f.read_cell("index"))
        res["r"] = [i1, _c(f.read_cell("carried")), _c(f.read_cell("position"))]
        r = f.region("indexes")
        res["idx"] = [_c(x86.join([r.byte(4 * k + j, f) for j in range(4)])) for k in range(a[0], i1)]
    elif op == "block":
        b = _buf_region(st, "buf", buf)
        esc, piq, em, pp = _cell(st, "esc", a[0]), _cell(st, "piq", a[1]), _cell(st, "em", a[2]), _cell(st, "pp", a[3])
        sin = _cell(st, "st_in", 0)
        if x5:
            st.regs["k4"] = BV(0, 64)      # native side zeroes K4 first (the wrapper itself does not initialise it)
            set_args(st, [BV(b.base, 64), esc, piq, em, sin, pp])
            f = run("_find_structural_bits_avx512")
            s = _c(get_result(f, 6))
        else:
            qb, ws = _cell(st, "qb", 0), _cell(st, "ws", 0)
            set_args(st, [BV(b.base, 64), esc, piq, qb, em, ws, sin, pp])
            f = run("_find_structural_bits")
            s = _c(get_result(f, 8))
        res["r"] = [s] + [_c(f.read_cell(n)) for n in ("esc", "piq", "em", "pp")]
    elif op == "slice":
        n = a[0]
        b = _buf_region(st, "buf", buf)
        esc, piq, em, pp = _cell(st, "esc", a[1]), _cell(st, "piq", a[2]), _cell(st, "em", a[3]), _cell(st, "pp", a[4])
        base = st.add_region("indexes", INDEX_SIZE * 4, default="zero")
        idx, car, pos = _cell(st, "index", a[5]), _cell(st, "carried", a[6]), _cell(st, "position", a[7])
        lim = BV(go_consts()[1], 64)        # the Go wrappers pass indexSizeWithSafetyBuffer
        if x5:
            set_args(st, [BV(b.base, 64), BV(n, 64), esc, piq, em, pp, BV(base.base, 64), idx, lim, car, pos, BV(a[8], 64)])
            f = run("_find_structural_bits_in_slice_avx512")
            processed = _c(get_result(f, 12))
        else:
            qb, ws, sin = _cell(st, "qb", 0), _cell(st, "ws", 0), _cell(st, "st_in", 0)
            set_args(st, [BV(b.base, 64), BV(n, 64), esc, piq, qb, em, ws, sin, pp, BV(base.base, 64), idx, lim, car, pos, BV(a[8], 64)])
            f = run("_find_structural_bits_in_slice")
            processed = _c(get_result(f, 15))
        i1 = _c(f.read_cell("index"))
        res["r"] = [processed] + [_c(f.read_cell(nm)) for nm in ("esc", "piq", "em", "pp")] + [i1, _c(f.read_cell("carried")), _c(f.read_cell("position"))]
        r = f.region("indexes")
        if a[5] <= i1 <= INDEX_SIZE:      # translator-validation vectors never overflow the buffer
            res["idx"] = [_c(x86.join([r.byte(4 * k + j, f) for j in range(4)])) for k in range(a[5], i1)]
    elif op == "psv":
        b = _buf_region(st, "src", buf)
        ms, sl, dl = _cell(st, "maxs", a[0]), _cell(st, "slen", a[1]), _cell(st, "dlen", a[2])
        set_args(st, [BV(b.base, 64), ms, sl, dl])
        f = run("_parse_string_validate_only")
        res["r"] = [_c(get_result(f, 4)), _c(f.read_cell("slen")), _c(f.read_cell("dlen"))]
    elif op == "ps":
        b = _buf_region(st, "src", buf)
        dst = st.add_region("dst", a[0], default="zero", data=[BV(0xEE, 8)] * a[0])
        loc = _cell(st, "loc", dst.base)
        set_args(st, [BV(b.base, 64), BV(dst.base, 64), loc])
        f = run("_parse_string")
        res["r"] = [_c(get_result(f, 3)), (_c(f.read_cell("loc")) - dst.base) & (2 ** 64 - 1)]
        r = f.region("dst")
        res["out"] = bytes(_c(r.byte(i, f)) for i in range(a[0]))
    else:
        raise Inconclusive("translator validation: unknown op %s" % op)
    res["_stats"] = (ex.transitions, sorted(ex.mnems_used), sorted(ex.funcs_used))
    return res


# ---- vectors --------------------------------------------------------------------------------------------------

def repo_blocks(repo):
    """64-byte raw string literals of find_subroutines_amd64_test.go (the repository's own kernel vectors)"""
    out = []
    p = os.path.join(repo, "find_subroutines_amd64_test.go")
    if os.path.exists(p):
        src = open(p, errors="replace").read()
        for m in re.finditer(r"`([^`]{64})`", src):
            s = m.group(1).encode("latin-1", "replace")
            if len(s) == 64 and s not in out:
                out.append(s)
    return out


INTERESTING = b'"\\\\\\""  {}[]:,\n\t\r \x00\x1f\x20\x7f\x80\xffau0129afAF/bfnrt'


def rnd_block(rng, n=64):
    mode = rng.randrange(4)
    if mode == 0:
        return bytes(rng.randrange(256) for _ in range(n))
    if mode == 1:
        return bytes(rng.choice(INTERESTING) for _ in range(n))
    if mode == 2:
        return bytes(rng.choice(b'\\\\\\"" a') for _ in range(n))
    return bytes(rng.choice(INTERESTING) if rng.random() < 0.5 else rng.randrange(256) for _ in range(n))


def rnd_string(rng):
    parts = []
    for _ in range(rng.randrange(1, 6)):
        k = rng.randrange(10)
        if k < 3:
            parts.append(bytes(rng.choice(b"abcXYZ 019,:{}[]/\x80\xc3\xff\x01") for _ in range(rng.randrange(0, 40))))
        elif k < 5:
            parts.append(b"\\" + bytes([rng.choice(b'"\\/bfnrtuxa0 ')]))
        elif k < 8:
            parts.append(b"\\u" + bytes(rng.choice(b"0123456789abcdefABCDEF") for _ in range(4)))
        elif k < 9:
            parts.append(b"\\ud8" + bytes(rng.choice(b"0123456789abcdef") for _ in range(2)) + b"\\udc" + bytes(rng.choice(b"0123456789abcdef") for _ in range(2)))
        else:
            parts.append(b"\\u" + bytes(rng.choice(b"0123456789abcdefg,/ -\"") for _ in range(4)))
    s = b"".join(parts)
    if rng.random() < 0.85:
        s += b'"'
    return s


def make_requests(repo, ops, seed, nrandom):
    rng = random.Random(seed * 7919 + 17)
    LIM = go_consts()[1]
    reqs = []
    blocks = repo_blocks(repo) if any(o in STAGE1_OPS for o in ops) else []
    rblocks = [rnd_block(rng) for _ in range(nrandom)]
    M64 = 2 ** 64 - 1

    def rmask():
        return rng.choice([0, M64, rng.getrandbits(64), rng.getrandbits(64) & rng.getrandbits(64), 1 << rng.randrange(64),
                           (1 << 63) | rng.getrandbits(8)])
    for fam in ("avx2", "avx512"):
        for i, b in enumerate(blocks + rblocks):
            rep = i < len(blocks)
            for op in ops:
                if op == "oe" and (rep or i % 4 == 0):
                    reqs.append({"op": op, "fam": fam, "buf": b, "a": [rng.randrange(2)]})
                elif op == "qm" and (rep or i % 4 == 1):
                    reqs.append({"op": op, "fam": fam, "buf": b, "a": [rng.choice([0, 1, rng.getrandbits(64)]), rng.choice([0, M64]), 0 if fam == "avx512" else rng.choice([0, rng.getrandbits(64)])]})
                elif op == "ws" and (rep or i % 4 == 2):
                    reqs.append({"op": op, "fam": fam, "buf": b, "a": []})
                elif op == "nl" and (rep or i % 4 == 3):
                    reqs.append({"op": op, "fam": fam, "buf": b, "a": [rmask()]})
                elif op == "block" and (i % 5 == 0):
                    reqs.append({"op": op, "fam": fam, "buf": b, "a": [rng.randrange(2), rng.choice([0, M64]), 0 if fam == "avx512" else rng.choice([0, 5]), rng.randrange(2)]})
        if "fin" in ops and fam == "avx2":
            for _ in range(max(8, nrandom // 8)):
                reqs.append({"op": "fin", "fam": fam, "buf": b"", "a": [rmask(), rmask(), rmask(), rmask(), rng.randrange(2)]})
        if "flat" in ops and fam == "avx2":
            for _ in range(max(8, nrandom // 8)):
                reqs.append({"op": "flat", "fam": fam, "buf": b"", "a": [rng.randrange(0, 1400), rmask(), rng.randrange(0, 200), rng.choice([M64, rng.randrange(1 << 20)])]})
        if "slice" in ops:
            for _ in range(max(6, nrandom // 10)):
                nb = rng.randrange(0, 3)
                r = rng.choice([0, 0, 1, 31, 32, 33, 63, rng.randrange(64)])
                n = nb * 64 + r
                if n == 0:
                    continue
                data = b"".join(rnd_block(rng) for _ in range(nb + 2))
                reqs.append({"op": "slice", "fam": fam, "buf": data, "a": [n, rng.randrange(2), rng.choice([0, M64]), rng.choice([0, 9]), rng.randrange(2),
                                                                           rng.choice([0, 1, LIM - 8, LIM - 1]), rng.randrange(100), rng.choice([M64, 77]), rng.choice([0, 1])]})
    if "psv" in ops or "ps" in ops:
        strs = [rnd_string(rng) for _ in range(nrandom)]
        for i, s in enumerate(strs):
            pad = s + bytes(rng.randrange(256) for _ in range(8)) + b'"' + b"\x00" * 96     # _parse_string has no length bound: a quote must follow
            if "psv" in ops:
                reqs.append({"op": "psv", "fam": "avx2", "buf": pad, "a": [rng.choice([0, len(s), len(s) + 1, max(0, len(s) - 1), len(s) + 7]), 0, 0], "_s": s})
            if "ps" in ops and i % 2 == 0:
                reqs.append({"op": "ps", "fam": "avx2", "buf": pad, "a": [len(pad) + 64], "_s": s})
    return reqs


def _lift_one(args):
    prog, q = args
    try:
        return lifted(prog, q)
    except Inconclusive as e:
        return {"error": str(e)}


_PROG = None


def _worker(q):
    return _lift_one((_PROG, q))


def validate(ctx, prog, ops, nrandom=None, pool=None):
    """raises Inconclusive on any disagreement; returns number of vectors compared"""
    global _PROG
    if nrandom is None:
        nrandom = 48 if ctx.tier == "quick" else 200
    reqs = make_requests(common.REPO, ops, ctx.seed, nrandom)
    if "psv" in ops or "ps" in ops:
        # the repository's own string table (parse_string_test.go: package-level `tests`) is read natively
        t = replay.native([{"op": "pstests"}])[0]["str"]
        for s in t:
            pad = s + b'"' + b"\x00" * 96
            if "psv" in ops:
                reqs.append({"op": "psv", "fam": "avx2", "buf": pad, "a": [len(s) + 1, 0, 0]})
            if "ps" in ops:
                reqs.append({"op": "ps", "fam": "avx2", "buf": pad, "a": [len(pad) + 64]})
    nat = replay.native(reqs)
    ctx.replays += len(reqs)
    _PROG = prog
    if pool is not None:
        lifted_res = pool.map(_worker, reqs, chunksize=4)
    else:
        lifted_res = [_worker(q) for q in reqs]
    used = set()
    for q, n, l in zip(reqs, nat, lifted_res):
        if "error" in l:
            raise Inconclusive("translator validation: " + l["error"])
        used.update(l["_stats"][1])
        if list(n["r"]) != list(l["r"]) or list(n["idx"]) != list(l["idx"]) or bytes(n["out"]) != bytes(l["out"]):
            raise Inconclusive("translator validation MISMATCH op=%s fam=%s buf=%s a=%s native=%s/%s/%s lifted=%s/%s/%s"
                               % (q["op"], q.get("fam"), bytes(q.get("buf", b""))[:80].hex(), q.get("a"), n["r"], n["idx"][:8], n["out"][:48].hex(),
                                  l["r"], l["idx"][:8], l["out"][:48].hex()))
    ctx.extra.setdefault("translator_validation", {})
    ctx.extra["translator_validation"].update({"vectors": len(reqs), "ops": sorted(set(q["op"] for q in reqs)),
                                               "mnemonics_exercised": sorted(used), "result": "agree"})
    ctx.log("[tv] translator validation: %d vectors (%d repo blocks + seeded random, ops %s): agree; %d mnemonics exercised"
            % (len(reqs), len(repo_blocks(common.REPO)), ",".join(sorted(set(q["op"] for q in reqs))), len(used)))
    return len(reqs)
