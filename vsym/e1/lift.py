"""Lifter: builds the test binary of the repository, disassembles the assembly kernels with
llvm-objdump-14 (intel syntax) and exposes instructions + rodata bytes.  Nothing is cached across runs."""
import os, re, shutil, struct, subprocess
from .. import common

PKG = common.PKG
OBJDUMP = "llvm-objdump-14"
NM = "llvm-nm-14"

GPR64 = ["rax", "rcx", "rdx", "rbx", "rsp", "rbp", "rsi", "rdi"] + ["r%d" % i for i in range(8, 16)]
_SUB = {}
for _i, _r in enumerate(GPR64):
    if _i < 8:
        _n = _r[1:]
        _SUB["e" + _n] = (_r, 32)
        _SUB[_n] = (_r, 16)
        if _n in ("ax", "cx", "dx", "bx"):
            _SUB[_n[0] + "l"] = (_r, 8)
        else:
            _SUB[_n + "l"] = (_r, 8)
    else:
        _SUB[_r + "d"] = (_r, 32)
        _SUB[_r + "w"] = (_r, 16)
        _SUB[_r + "b"] = (_r, 8)
    _SUB[_r] = (_r, 64)
HIGH8 = {"ah", "ch", "dh", "bh"}
PTRSZ = {"byte": 8, "word": 16, "dword": 32, "qword": 64, "xmmword": 128, "ymmword": 256, "zmmword": 512}


class Reg:
    __slots__ = ("name", "base", "width", "kind")

    def __init__(self, name):
        self.name = name
        if name in _SUB:
            self.base, self.width = _SUB[name]
            self.kind = "gpr"
        elif re.fullmatch(r"[xyz]mm\d+", name):
            self.base = "zmm" + name[3:]
            self.width = {"x": 128, "y": 256, "z": 512}[name[0]]
            self.kind = "vec"
        elif re.fullmatch(r"k[0-7]", name):
            self.base, self.width, self.kind = name, 64, "k"
        elif name == "rip":
            self.base, self.width, self.kind = "rip", 64, "rip"
        else:
            raise common.Inconclusive("lifter: unknown register %r" % name)

    def __repr__(self):
        return self.name


class Imm:
    __slots__ = ("value",)

    def __init__(self, v):
        self.value = v

    def __repr__(self):
        return str(self.value)


class Mem:
    __slots__ = ("size", "base", "index", "scale", "disp", "seg", "abs")

    def __init__(self, size, base, index, scale, disp, seg=None):
        self.size, self.base, self.index, self.scale, self.disp, self.seg = size, base, index, scale, disp, seg
        self.abs = None      # absolute address for rip-relative operands

    def __repr__(self):
        return "m%s[%s+%s*%s+%s]" % (self.size, self.base, self.index, self.scale, self.disp if self.abs is None else hex(self.abs))


class Label:
    __slots__ = ("addr", "sym")

    def __init__(self, addr, sym):
        self.addr, self.sym = addr, sym

    def __repr__(self):
        return "L%x<%s>" % (self.addr, self.sym)


class Instr:
    __slots__ = ("addr", "next", "mnem", "ops", "text", "func")

    def __repr__(self):
        return "%x: %s" % (self.addr, self.text)


def _num(s):
    s = s.strip()
    neg = s.startswith("-")
    if neg:
        s = s[1:].strip()
    v = int(s, 16) if s.startswith("0x") else int(s)
    return -v if neg else v


def _parse_mem(size, inner, seg):
    base = index = None
    scale = 1
    disp = 0
    toks = re.findall(r"([+-]?)\s*([^+-]+)", inner)
    for sign, t in toks:
        t = t.strip()
        if "*" in t:
            a, b = [x.strip() for x in t.split("*")]
            if a.isdigit():
                a, b = b, a
            if index is not None or sign == "-":
                raise common.Inconclusive("lifter: memory operand %r" % inner)
            index, scale = Reg(a), int(b)
        elif re.fullmatch(r"(0x[0-9a-f]+|\d+)", t):
            disp += -_num(t) if sign == "-" else _num(t)
        else:
            if sign == "-":
                raise common.Inconclusive("lifter: memory operand %r" % inner)
            r = Reg(t)
            if base is None:
                base = r
            elif index is None:
                index = r
            else:
                raise common.Inconclusive("lifter: memory operand %r" % inner)
    return Mem(size, base, index, scale, disp, seg)


def _parse_operand(s):
    s = s.strip()
    m = re.fullmatch(r"(?:(byte|word|dword|qword|xmmword|ymmword|zmmword) ptr )?(?:(fs|gs):)?\[(.*)\]", s)
    if m:
        return _parse_mem(PTRSZ.get(m.group(1)), m.group(3), m.group(2))
    m = re.fullmatch(r"(0x[0-9a-f]+) <(.*)>", s)
    if m:
        return Label(int(m.group(1), 16), m.group(2))
    if re.fullmatch(r"-?(0x[0-9a-f]+|\d+)", s):
        return Imm(_num(s))
    if "{" in s or s in HIGH8:
        raise common.Inconclusive("lifter: unsupported operand %r" % s)
    return Reg(s)


class Elf:
    def __init__(self, path):
        with open(path, "rb") as f:
            self.data = f.read()
        d = self.data
        if d[:4] != b"\x7fELF" or d[4] != 2 or d[5] != 1:
            raise common.Inconclusive("lifter: not a little-endian ELF64 file")
        shoff, = struct.unpack_from("<Q", d, 0x28)
        shentsize, shnum, _ = struct.unpack_from("<HHH", d, 0x3A)
        self.sections = []
        for i in range(shnum):
            o = shoff + i * shentsize
            name, typ, flags, addr, off, size = struct.unpack_from("<IIQQQQ", d, o)
            self.sections.append((typ, flags, addr, off, size))

    def read(self, addr, n):
        for typ, flags, a, off, size in self.sections:
            if (flags & 2) and a <= addr and addr + n <= a + size:
                if typ == 8:        # NOBITS
                    return bytes(n)
                return self.data[off + addr - a: off + addr - a + n]
        raise common.Inconclusive("lifter: address %#x+%d is not in any loaded section" % (addr, n))


class Program:
    """instructions (addr -> Instr), function symbols (short name -> (addr, size)), data symbols, ELF reader."""

    def __init__(self):
        self.instrs = {}
        self.funcs = {}
        self.func_at = {}
        self.datasyms = []
        self.elf = None
        self.build_s = 0.0
        self.src_of = {}

    def entry(self, name):
        if name not in self.funcs:
            raise common.Inconclusive("lifter: no assembly symbol %r in the binary" % name)
        return self.funcs[name][0]

    def func_instrs(self, name):
        a, size = self.funcs[name]
        return [i for ad, i in sorted(self.instrs.items()) if a <= ad < a + size and i.mnem != "int3"]

    def data_symbol(self, addr):
        for a, size, name in self.datasyms:
            if a <= addr < a + size:
                return a, size, name
        return None

    def rodata(self, addr, n):
        return self.elf.read(addr, n)

    def mnemonics(self):
        return sorted({i.mnem for i in self.instrs.values() if i.mnem != "int3"})


def asm_sources(repo):
    """short symbol name -> .s file declaring it (for src hashes)"""
    out = {}
    for fn in sorted(os.listdir(repo)):
        if fn.endswith(".s"):
            for line in open(os.path.join(repo, fn), errors="replace"):
                m = re.match(r"TEXT\s+·(\w+)\(SB\)", line)
                if m:
                    out[m.group(1)] = fn
    return out


def lift(repo=None, log=None):
    import time
    repo = repo or common.REPO
    t0 = time.time()
    work = common.scratch("verif-e1-")
    try:
        binp = os.path.join(work, "sj.test")
        env = dict(common.GOENV)
        r = subprocess.run(["go", "test", "-c", "-vet=off", "-o", binp, "."], cwd=repo, env=env,
                           stdout=subprocess.PIPE, stderr=subprocess.STDOUT, text=True)
        if r.returncode != 0 or not os.path.exists(binp):
            raise common.Inconclusive("lifter: go test -c failed: " + r.stdout[-2000:])
        p = Program()
        p.build_s = time.time() - t0
        nm = subprocess.run([NM, "-S", "--defined-only", binp], stdout=subprocess.PIPE, stderr=subprocess.DEVNULL, text=True)
        if nm.returncode != 0:
            raise common.Inconclusive("lifter: llvm-nm failed")
        full = {}
        for line in nm.stdout.splitlines():
            parts = line.split(None, 3)
            if len(parts) != 4:
                continue
            addr, size, typ, name = int(parts[0], 16), int(parts[1], 16), parts[2], parts[3]
            if typ in "Tt" and name.startswith(PKG + "._") and name.endswith(".abi0"):
                short = name[len(PKG) + 1:-len(".abi0")]
                p.funcs[short] = (addr, size)
                p.func_at[addr] = short
                full[short] = name
            elif typ in "rRdDbB" and size > 0:
                p.datasyms.append((addr, size, name))
        if not p.funcs:
            raise common.Inconclusive("lifter: no assembly symbols found")
        od = subprocess.run([OBJDUMP, "-d", "--x86-asm-syntax=intel", "--no-show-raw-insn",
                             "--disassemble-symbols=" + ",".join(full.values()), binp],
                            stdout=subprocess.PIPE, stderr=subprocess.PIPE, text=True)
        if od.returncode != 0:
            raise common.Inconclusive("lifter: objdump failed: " + od.stderr[-500:])
        p.elf = Elf(binp)
        cur = None
        rows = []
        for line in od.stdout.splitlines():
            m = re.match(r"^([0-9a-f]+) <(.+)>:$", line)
            if m:
                nme = m.group(2)
                cur = nme[len(PKG) + 1:-len(".abi0")] if nme.startswith(PKG + "._") and nme.endswith(".abi0") else None
                continue
            m = re.match(r"^\s*([0-9a-f]+):\s*\t([^\t]*)(?:\t(.*))?$", line)
            if m and cur:
                rows.append((int(m.group(1), 16), m.group(2).strip(), (m.group(3) or "").strip(), cur))
        for k, (addr, mnem, opstr, fn) in enumerate(rows):
            ins = Instr()
            ins.addr, ins.mnem, ins.func = addr, mnem, fn
            fa, fs = p.funcs[fn]
            ins.next = rows[k + 1][0] if k + 1 < len(rows) and rows[k + 1][3] == fn else fa + fs
            ins.text = (mnem + " " + opstr).strip()
            if not mnem:
                raise common.Inconclusive("lifter: undecodable bytes at %#x in %s" % (addr, fn))
            if "<unknown>" in mnem or "(bad)" in mnem:
                raise common.Inconclusive("lifter: undecodable instruction at %#x" % addr)
            ops = []
            if mnem != "int3":
                body = opstr.split("#")[0].strip()
                if body:
                    # split on commas that are not inside <...> or [...]
                    depth = 0
                    curtok = ""
                    for ch in body:
                        if ch in "<[":
                            depth += 1
                        elif ch in ">]":
                            depth -= 1
                        if ch == "," and depth == 0:
                            ops.append(curtok)
                            curtok = ""
                        else:
                            curtok += ch
                    ops.append(curtok)
                ops = [_parse_operand(o) for o in ops]
                for o in ops:
                    if isinstance(o, Mem) and o.base is not None and o.base.kind == "rip":
                        if o.index is not None:
                            raise common.Inconclusive("lifter: rip-relative with index at %#x" % addr)
                        o.abs = ins.next + o.disp
            ins.ops = ops
            p.instrs[addr] = ins
        srcs = asm_sources(repo)
        for f in p.funcs:
            if f in srcs:
                p.src_of[f] = srcs[f]
        if log:
            log("[build] go test -c %s -> sj.test (%.1fs); objdump %d symbols, %d instructions, %d mnemonics"
                % (repo, p.build_s, len(p.funcs), sum(1 for i in p.instrs.values() if i.mnem != "int3"), len(p.mnemonics())))
        return p
    finally:
        shutil.rmtree(work, ignore_errors=True)
