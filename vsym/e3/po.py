"""E3, part 2: the interleaving semantics as an SMT problem (partial-order encoding).

A *scenario* is one extracted trace per thread of the region. Every synchronisation event e gets two integer
timestamps b(e) <= f(e) (begin / completion). The Go memory model's rules become ordering constraints:

  program order            f(e_i) < b(e_{i+1})                        within a thread
  go                       f(go) < start(child) < b(first event of child)
  channel (value flow)     b(send) < f(recv)                          for the send a receive took its value from
  channel, capacity c > 0  b(recv_k) < f(send_{k+c})                  ("k-th receive is synchronised before the completion of the
                                                                        (k+c)-th send")
  channel, capacity 0      b(recv_k) < f(send_k)                      (rendezvous: neither completes before the other began)
  close                    b(close) < f(recv that observed the close)
  WaitGroup                b(done_i) < f(wait)                        for the Done calls that bring the counter to zero
  select/default           a `default` outcome: the operation it could have done was not possible yet
  FIFO with several        rank(send) = 1 + #sends on the channel completing earlier ; a receive that took the k-th value
  sending threads          took it from the send of rank k

Three kinds of query are built on it:
  * feasible():   the complete scenario has a schedule (sat = realizable; vacuity witness of every safety query)
  * overlap():    two segments (stretches between consecutive events, whose memory accesses were summarised) can be
                  concurrent: sat(lo_A < hi_B /\\ lo_B < hi_A)  -> race / ring-slot refill before last read
  * stuck():      deadlock: some prefix-closed set of executed events is consistent and every started, unfinished thread
                  has a blocking next event that is disabled in the final state (cut encoding, executed(e) := cut_t > index(e))
"""
import time
import z3
from .extract import SYM_TERMS

NONBLOCKING = ("go", "atomic", "close", "wg.add", "wg.done", "tryrecv", "trysend", "mark")


class Scenario:
    def __init__(self, traces, chans=None, env_chans=None):
        self.traces = {t.tid: t for t in traces}
        self.order = [t.tid for t in traces]
        self.chans = {}
        for t in traces:
            self.chans.update(t.chans)
        if chans:
            self.chans.update(chans)
        self.env = dict(env_chans or {})       # channel id -> "recv" (environment receives) | "send"
        self.parent = {}                       # tid -> (parent tid, go event)
        for t in traces:
            for e in t.events:
                if e.kind == "go":
                    self.parent[e.info] = (t.tid, e)

    def cap(self, ch):
        return self.chans.get(ch, (0, None, None))[0]

    def events(self):
        for tid in self.order:
            for e in self.traces[tid].events:
                yield e

    def nevents(self):
        return sum(len(t.events) for t in self.traces.values())


class PO:
    def __init__(self, sc, timeout_ms=60000):
        self.sc = sc
        self.timeout_ms = timeout_ms
        self.b = {}
        self.f = {}
        self.start = {}
        self.end = {}
        self.queries = 0
        self.solver_s = 0.0
        for e in sc.events():
            self.b[(e.tid, e.i)] = z3.Int("b_%s_%d" % (e.tid, e.i))
            self.f[(e.tid, e.i)] = z3.Int("f_%s_%d" % (e.tid, e.i))
        for tid in sc.order:
            self.start[tid] = z3.Int("start_%s" % tid)
            self.end[tid] = z3.Int("end_%s" % tid)
        self._index()

    # ---- static structure -------------------------------------------------------------------------------------
    def _index(self):
        sc = self.sc
        self.sends = {}         # ch -> list of send events (all threads), in (thread order, program order)
        self.recvs = {}
        self.closes = {}
        self.sender_threads = {}
        self.recv_threads = {}
        for e in sc.events():
            if e.kind in ("send", "trysend") and e.out != "default":
                self.sends.setdefault(e.ch, []).append(e)
                self.sender_threads.setdefault(e.ch, set()).add(e.tid)
            elif e.kind in ("recv", "tryrecv") and e.out != "default":
                self.recvs.setdefault(e.ch, []).append(e)
                self.recv_threads.setdefault(e.ch, set()).add(e.tid)
            elif e.kind == "close":
                self.closes.setdefault(e.ch, []).append(e)
        self.unsupported = []
        for ch, ths in self.recv_threads.items():
            if len(ths) > 1 and ch not in sc.env:
                self.unsupported.append("channel %s is received from by %d threads (receive ordinals would be schedule dependent)" % (ch, len(ths)))
        atom = {}
        for e in sc.events():
            if e.kind == "atomic":
                atom.setdefault(e.ch, set()).add(e.tid)
        for loc, ths in atom.items():
            if len(ths) > 1:
                self.unsupported.append("atomic location %s is updated by %d threads (values recorded in isolation would be wrong)" % (loc, len(ths)))

    def ev(self, ref):
        tid, i = ref
        return self.sc.traces[tid].events[i]

    def send_of_ordinal(self, ch, k):
        """k-th send on a channel with a single sending thread (else None)"""
        ss = self.sends.get(ch, [])
        if len(self.sender_threads.get(ch, ())) <= 1:
            return ss[k - 1] if 0 < k <= len(ss) else None
        return None

    def recv_of_ordinal(self, ch, k):
        rs = [r for r in self.recvs.get(ch, []) if r.src != "closed" and r.src is not None]
        return rs[k - 1] if 0 < k <= len(rs) else None

    # ---- constraints ---------------------------------------------------------------------------------------------
    def constraints(self, ex=None):
        """ex: None (complete execution: every event executed) or dict (tid,i) -> z3 Bool `executed`.
        Returns a list of z3 constraints."""
        sc = self.sc
        cs = []
        B, F = self.b, self.f

        def X(e):
            return True if ex is None else ex[(e.tid, e.i)]

        def imp(guards, c):
            gs = [g for g in guards if g is not True]
            if not gs:
                return c
            return z3.Implies(z3.And(gs) if len(gs) > 1 else gs[0], c)

        for tid in sc.order:
            evs = sc.traces[tid].events
            prev = None
            for e in evs:
                k = (tid, e.i)
                cs.append(B[k] <= F[k])
                if prev is None:
                    cs.append(self.start[tid] < B[k])
                else:
                    cs.append(F[(tid, prev.i)] < B[k])
                prev = e
            if prev is not None:
                cs.append(F[(tid, prev.i)] < self.end[tid])
            else:
                cs.append(self.start[tid] < self.end[tid])
            if tid in sc.parent:
                ptid, ge = sc.parent[tid]
                cs.append(F[(ptid, ge.i)] < self.start[tid])
        # value flow + rendezvous + observed close
        multi = {ch for ch, ths in self.sender_threads.items() if len(ths) > 1}
        for ch, rs in self.recvs.items():
            cap = sc.cap(ch)
            for r in rs:
                rk = (r.tid, r.i)
                if r.src is None:
                    cs.append(imp([X(r)], z3.BoolVal(False)))        # no send exists: can never complete
                    continue
                if r.src == "closed":
                    cl = self.closes.get(ch, [])
                    if not cl:
                        cs.append(imp([X(r)], z3.BoolVal(False)))
                    else:
                        c = cl[0]
                        cs.append(imp([X(r)], z3.And(X(c), B[(c.tid, c.i)] < F[rk]) if X(c) is not True else B[(c.tid, c.i)] < F[rk]))
                        # every send has been received before a receive observes the close
                        n_before = len([x for x in rs if x.tid == r.tid and x.i < r.i and x.src not in ("closed", None)])
                        for s in self.sends.get(ch, []):
                            pass
                    continue
                if r.src in ("env",):
                    continue
                s = self.ev(r.src)
                sk = (s.tid, s.i)
                xs = X(s)
                if cap > 0:
                    # the value is in the buffer: the send has completed
                    c = F[sk] < F[rk]
                    cs.append(imp([X(r)], z3.And(xs, c) if xs is not True else c))
                else:
                    c = z3.And(B[sk] < F[rk], B[rk] < F[sk])
                    cs.append(imp([X(r)], z3.And(xs, c) if xs is not True else c))
                    cs.append(imp([xs], z3.And(X(r), c) if X(r) is not True else c))
                if ch in multi:
                    # FIFO: this receive is the k-th on ch, so its send is the k-th to complete
                    others = [o for o in self.sends[ch] if o is not s]
                    k = r.k
                    terms = []
                    for o in others:
                        t = F[(o.tid, o.i)] < F[sk]
                        if X(o) is not True:
                            t = z3.And(X(o), t)
                        terms.append(z3.If(t, 1, 0))
                    cs.append(imp([X(r)], z3.Sum(terms) == k - 1 if terms else z3.BoolVal(k == 1)))
        # capacity
        for ch, ss in self.sends.items():
            cap = sc.cap(ch)
            if cap <= 0 or ch in sc.env:
                continue
            if ch in multi:
                # k-th completing send needs the (k-cap)-th receive: with rank variables
                rs = [r for r in self.recvs.get(ch, []) if r.src not in ("closed", None)]
                for s in ss:
                    sk = (s.tid, s.i)
                    others = [o for o in ss if o is not s]
                    rank = 1 + z3.Sum([z3.If(z3.And(X(o), F[(o.tid, o.i)] < F[sk]) if X(o) is not True else F[(o.tid, o.i)] < F[sk], 1, 0) for o in others]) if others else z3.IntVal(1)
                    for j, r in enumerate(rs):
                        # if rank == j+1+cap then recv j+1 began before s completed
                        c = B[(r.tid, r.i)] < F[sk]
                        cs.append(imp([X(s), rank == j + 1 + cap], z3.And(X(r), c) if X(r) is not True else c))
                    if len(ss) > cap + len(rs):
                        cs.append(imp([X(s)], rank <= cap + len(rs)))
                continue
            for s in ss:
                k = s.k
                if k <= cap:
                    continue
                r = self.recv_of_ordinal(ch, k - cap)
                if r is None:
                    cs.append(imp([X(s)], z3.BoolVal(False)))
                else:
                    c = B[(r.tid, r.i)] < F[(s.tid, s.i)]
                    cs.append(imp([X(s)], z3.And(X(r), c) if X(r) is not True else c))
        # non-blocking outcomes
        for e in sc.events():
            if e.kind in ("tryrecv", "trysend") and e.out == "default":
                for (ch, what, k) in (e.info[1] if e.info else ()):
                    if ch in sc.env:
                        continue
                    cap = sc.cap(ch)
                    if what == "recv":
                        s = self.send_of_ordinal(ch, k)
                        cands = [s] if s is not None else ([] if len(self.sender_threads.get(ch, ())) <= 1 else
                                                           [x for x in self.sends.get(ch, [])])
                        # default taken: nothing receivable yet. single sender: the k-th send had not completed (cap>0) /
                        # not begun (cap 0). several senders: fewer than k sends had completed.
                        if len(cands) == 1:
                            s = cands[0]
                            t = (F[(e.tid, e.i)] < F[(s.tid, s.i)]) if cap > 0 else (F[(e.tid, e.i)] < B[(s.tid, s.i)])
                            cs.append(imp([X(e)], z3.Or(z3.Not(X(s)), t) if X(s) is not True else t))
                        elif cands:
                            done = z3.Sum([z3.If(z3.And(X(x), F[(x.tid, x.i)] < F[(e.tid, e.i)]) if X(x) is not True else F[(x.tid, x.i)] < F[(e.tid, e.i)], 1, 0) for x in cands])
                            cs.append(imp([X(e)], done < k))
                    else:
                        # a send was not possible: buffer full / no receiver waiting
                        if cap > 0:
                            r = self.recv_of_ordinal(ch, k - cap)
                            if k <= cap:
                                cs.append(imp([X(e)], z3.BoolVal(False)))
                            elif r is not None:
                                t = F[(e.tid, e.i)] < F[(r.tid, r.i)]
                                cs.append(imp([X(e)], z3.Or(z3.Not(X(r)), t) if X(r) is not True else t))
                        else:
                            r = self.recv_of_ordinal(ch, k)
                            if r is not None:
                                t = F[(e.tid, e.i)] < B[(r.tid, r.i)]
                                cs.append(imp([X(e)], z3.Or(z3.Not(X(r)), t) if X(r) is not True else t))
            if e.kind == "trysend" and e.out == "sent" and e.ch not in sc.env and sc.cap(e.ch) == 0:
                r = self.recv_of_ordinal(e.ch, e.k)
                if r is None:
                    cs.append(imp([X(e)], z3.BoolVal(False)))
                else:
                    c = B[(r.tid, r.i)] < F[(e.tid, e.i)]
                    cs.append(imp([X(e)], z3.And(X(r), c) if X(r) is not True else c))
        # wait groups
        wgs = {}
        for e in sc.events():
            if e.kind.startswith("wg."):
                wgs.setdefault(e.ch, []).append(e)
        for wg, evs in wgs.items():
            adds = sum(e.info for e in evs if e.kind == "wg.add")
            dones = [e for e in evs if e.kind == "wg.done"]
            for w in [e for e in evs if e.kind == "wg.wait"]:
                if len(dones) < adds:
                    cs.append(imp([X(w)], z3.BoolVal(False)))
                else:
                    for d in dones:
                        c = B[(d.tid, d.i)] < F[(w.tid, w.i)]
                        cs.append(imp([X(w)], z3.And(X(d), c) if X(d) is not True else c))
        return cs

    # ---- queries ----------------------------------------------------------------------------------------------------
    def _solve(self, cs, want_model=True):
        s = z3.Solver()
        s.set("timeout", self.timeout_ms)
        for c in cs:
            s.add(c)
        t0 = time.time()
        r = s.check()
        self.solver_s += time.time() - t0
        self.queries += 1
        if r == z3.sat:
            return "sat", (s.model() if want_model else None)
        if r == z3.unsat:
            return "unsat", None
        return "unknown", None

    def feasible(self, extra=()):
        return self._solve(self.constraints() + list(extra))

    def seg_bounds(self, tid, seg):
        """(lo, hi) timestamps of segment `seg` of thread tid (accesses made after event seg-1 and before event seg)"""
        evs = self.sc.traces[tid].events
        lo = self.f[(tid, seg - 1)] if seg > 0 else self.start[tid]
        hi = self.b[(tid, seg)] if seg < len(evs) else self.end[tid]
        return lo, hi

    def overlap_term(self, a, b):
        (ta, sa), (tb, sb) = a, b
        la, ha = self.seg_bounds(ta, sa)
        lb, hb = self.seg_bounds(tb, sb)
        return z3.And(la < hb, lb < ha)

    def conflicts(self, objfilter=None):
        """pairs of accesses from different threads to overlapping locations, at least one a write.
        Returns list of ((tid,seg,kind,obj,path), (tid,seg,kind,obj,path), location-equality constraint or True)"""
        by_obj = {}
        for tid in self.sc.order:
            for (seg, kind, obj, path) in self.sc.traces[tid].acc:
                if objfilter is not None and not objfilter(obj, path):
                    continue
                by_obj.setdefault(obj, []).append((tid, seg, kind, obj, path))
        out = []
        for obj, accs in by_obj.items():
            ths = {a[0] for a in accs}
            if len(ths) < 2 or not any(a[2] == "w" for a in accs):
                continue
            ws = [a for a in accs if a[2] == "w"]
            for w in ws:
                for o in accs:
                    if o[0] == w[0]:
                        continue
                    if o[2] == "w" and (o[0], o[1]) < (w[0], w[1]):
                        continue        # each w/w pair once
                    eq = path_overlap(w[4], o[4])
                    if eq is False:
                        continue
                    out.append((w, o, eq))
        return out

    def race_query(self, pairs, pcs=()):
        """sat iff some pair of conflicting segments can overlap in time. Returns (verdict, witness pair, model)"""
        if not pairs:
            return "unsat", None, None
        base = self.constraints() + list(pcs)
        sel = []
        terms = []
        for i, (w, o, eq) in enumerate(pairs):
            t = self.overlap_term((w[0], w[1]), (o[0], o[1]))
            if eq is not True:
                t = z3.And(t, eq)
            p = z3.Bool("pair_%d" % i)
            sel.append(p)
            terms.append(z3.Implies(p, t))
        r, m = self._solve(base + terms + [z3.Or(sel)])
        if r != "sat":
            return r, None, None
        for i, p in enumerate(sel):
            if z3.is_true(m.eval(p, model_completion=True)):
                return r, pairs[i], m
        return r, None, m

    def stuck(self, pcs=(), live_env=True):
        """deadlock query (see module doc). Returns (verdict, description of the stuck configuration, model)"""
        sc = self.sc
        cut = {tid: z3.Int("cut_%s" % tid) for tid in sc.order}
        ex = {}
        cs = []
        for tid in sc.order:
            evs = sc.traces[tid].events
            n = len(evs)
            cs.append(cut[tid] >= 0)
            cs.append(cut[tid] <= n)
            for e in evs:
                ex[(tid, e.i)] = cut[tid] > e.i
        started = {}
        for tid in sc.order:
            if tid in sc.parent:
                ptid, ge = sc.parent[tid]
                started[tid] = ex[(ptid, ge.i)]
                cs.append(z3.Implies(z3.Not(started[tid]), cut[tid] == 0))
            else:
                started[tid] = z3.BoolVal(True)
        cs += self.constraints(ex)
        # blocked(next event) per thread
        some = []
        for tid in sc.order:
            tr = sc.traces[tid]
            evs = tr.events
            n = len(evs)
            alts = [z3.Not(started[tid]), cut[tid] == n] if True else []
            for e in evs:
                bl = self.blocked(e, ex, cut)
                if bl is not None:
                    alts.append(z3.And(cut[tid] == e.i, bl))
            cs.append(z3.Or(alts))
            some.append(z3.And(started[tid], cut[tid] < n))
        cs.append(z3.Or(some))
        r, m = self._solve(cs + list(pcs))
        if r != "sat":
            return r, None, None
        desc = {}
        for tid in sc.order:
            c = m.eval(cut[tid], model_completion=True).as_long()
            evs = sc.traces[tid].events
            desc[tid] = {"executed": c, "of": len(evs), "blocked_at": repr(evs[c]) if c < len(evs) else None}
        return r, desc, (m, cut)

    def blocked(self, e, ex, cut):
        """condition under which e, as the next event of its thread, can never complete in the final state; None = never blocked"""
        sc = self.sc
        if e.kind in NONBLOCKING:
            return None
        if e.kind == "wg.wait":
            evs = [x for x in sc.events() if x.kind.startswith("wg.") and x.ch == e.ch]
            adds = sum(x.info for x in evs if x.kind == "wg.add")
            dones = [x for x in evs if x.kind == "wg.done"]
            if len(dones) < adds:
                return z3.BoolVal(True)
            return z3.Not(z3.And([ex[(d.tid, d.i)] for d in dones])) if dones else None
        if e.kind == "send":
            if e.ch in sc.env:
                return None               # live environment: always eventually received
            cap = sc.cap(e.ch)
            if len(self.sender_threads.get(e.ch, ())) > 1:
                rs = [r for r in self.recvs.get(e.ch, []) if r.src not in ("closed", None)]
                nsent = z3.Sum([z3.If(ex[(s.tid, s.i)], 1, 0) for s in self.sends[e.ch]])
                nrecv = z3.Sum([z3.If(ex[(r.tid, r.i)], 1, 0) for r in rs]) if rs else z3.IntVal(0)
                if cap > 0:
                    return nsent - nrecv >= cap
                waiting = [z3.And(cut[r.tid] == r.i) for r in rs]
                return z3.Not(z3.Or(waiting)) if waiting else z3.BoolVal(True)
            if cap > 0:
                if e.k <= cap:
                    return None
                r = self.recv_of_ordinal(e.ch, e.k - cap)
                return z3.BoolVal(True) if r is None else z3.Not(ex[(r.tid, r.i)])
            r = self.recv_of_ordinal(e.ch, e.k)
            if r is None:
                return z3.BoolVal(True)
            # rendezvous: not blocked iff the receiver is at (or past) its matching receive
            return z3.Not(z3.And(self._started(r.tid, ex), cut[r.tid] >= r.i))
        if e.kind == "recv":
            if e.src is None:
                return z3.BoolVal(True)
            if e.src == "env":
                return None
            if e.src == "closed":
                cl = self.closes.get(e.ch, [])
                return z3.BoolVal(True) if not cl else z3.Not(ex[(cl[0].tid, cl[0].i)])
            s = self.ev(e.src)
            if sc.cap(e.ch) > 0:
                return z3.Not(ex[(s.tid, s.i)])
            return z3.Not(z3.And(self._started(s.tid, ex), cut[s.tid] >= s.i))
        return None

    def _started(self, tid, ex):
        if tid in self.sc.parent:
            ptid, ge = self.sc.parent[tid]
            return ex[(ptid, ge.i)]
        return z3.BoolVal(True)

    # ---- models -> schedules ----------------------------------------------------------------------------------------
    def schedule(self, m, cut=None):
        """total order of the executed events in a model: list of events sorted by completion time"""
        evs = []
        for e in self.sc.events():
            if cut is not None:
                c = m.eval(cut[e.tid], model_completion=True).as_long()
                if e.i >= c:
                    continue
            fb = m.eval(self.f[(e.tid, e.i)], model_completion=True).as_long()
            bb = m.eval(self.b[(e.tid, e.i)], model_completion=True).as_long()
            evs.append((fb, bb, e.tid, e.i, e))
        evs.sort(key=lambda x: (x[0], x[1], x[2], x[3]))
        return [x[4] for x in evs]


def path_overlap(pa, pb):
    """True / False / z3 constraint: the locations (same object) overlap when one path is a prefix of the other"""
    cs = []
    for x, y in zip(pa, pb):
        if type(x) is int and type(y) is int:
            if x != y:
                return False
        else:
            tx = SYM_TERMS[x[1]] if type(x) is tuple else x
            ty = SYM_TERMS[y[1]] if type(y) is tuple else y
            if type(tx) is int:
                tx = z3.BitVecVal(tx, ty.size())
            if type(ty) is int:
                ty = z3.BitVecVal(ty, tx.size())
            cs.append(tx == ty)
    if not cs:
        return True
    return z3.And(cs) if len(cs) > 1 else cs[0]
