"""E3 region model for ParseNDStream (C09): the contracts that surround the ~100 lines of real code.

  abstract stream   L symbolic bytes s[0..L) (L concrete per run), terminal condition after T bytes: io.EOF (T = L) or a reader
                    fault (T <= L, arbitrary non-EOF error). The underlying io.Reader returns, per call, 1..min(len p, T - fetched)
                    bytes with a nil error, or — when those are the last bytes — optionally the terminal error in the same call,
                    or (0, terminal error) when nothing is left. (0, nil) reads are excluded (io.Reader discourages them; bufio
                    would retry).
  bufio.Reader      Read(p) with len(p) >= buffer size (as in the repository: both are tmpSize): buffered data first
                    (n = min(len p, buffered), nil); else a pending error from an earlier fill; else ONE direct read of the
                    underlying reader whose (n, err) is passed through.  ReadBytes(delim): scans buffered bytes, fills with one
                    underlying read at a time until the delimiter or an error; returns the data (incl. delimiter), err != nil iff
                    the data does not end in delim; bytes fetched beyond the delimiter stay buffered.
  sync.Pool         Get returns New() or any value Put earlier; Put records the value (and counts as a write to its backing
                    array: whoever Gets it may overwrite it).
  runtime.GOMAXPROCS(0)   the value configured for the run (the check iterates over the values that give distinct conc).
  parseMessage(chunk,true)  uninterpreted: reads the chunk, returns nil or an error (both explored); the chunk is recorded.
  res / reuse       environment channels: the consumer of `res` may or may not be ready at a select, and eventually receives
                    every blocking send; `reuse` delivers, when it delivers, a *ParsedJson nobody else references any more.
"""
import z3
from ..e2.values import *
from ..e2.engine import EngineError, Forks
from .extract import E3Intrinsics, E3Engine, H, PKG


class NDIntrinsics(E3Intrinsics):
    def _register(self):
        super()._register()
        reg = self.reg

        @reg(H + "verifE3Reader")
        def e3_reader(eng, st, fr, args, ins):
            return IfaceV("e3:reader", "stream")

        @reg(H + "verifE3EnvChans")
        def e3_env(eng, st, fr, args, ins):
            eng.env_chans[args[0].obj] = "recv"
            eng.env_chans[args[1].obj] = "send"
            st.notes["envchans"] = ((args[0].obj, "recv"), (args[1].obj, "send"))
            return None

        @reg("runtime.GOMAXPROCS")
        def gomaxprocs(eng, st, fr, args, ins):
            return int(eng.opts.get("e3_gomaxprocs", 1))

        @reg("bufio.NewReaderSize")
        def new_reader(eng, st, fr, args, ins):
            size = eng.need_int(st, args[1], ins.get("pos"), "bufio size")
            L = int(eng.opts["e3_stream_len"])
            T = int(eng.opts.get("e3_stream_end", L))
            fault = bool(eng.opts.get("e3_stream_fault", False))
            conc_bytes = eng.opts.get("e3_stream_bytes")
            bs = [z3.BitVec("s!%d" % i, 8) for i in range(L)] if conc_bytes is None else list(conc_bytes)
            for b in bs:
                if z3.is_expr(b):
                    st.pc.append(z3.ULT(b, 0x80))        # ASCII streams (stated): multi-byte white space is outside the claim
            oid = st.alloc(tuple(bs), "stream")
            st.notes["stream"] = oid
            # (consumed, fetched, pending error already reported by the underlying reader, size)
            st.notes["bufio"] = (0, 0, False, size, T, fault)
            return PtrV(st.alloc(("bufio",), "bufio"), ())

        def terminal(eng, st):
            (_, _, _, _, T, fault) = st.notes["bufio"]
            if fault:
                e = st.notes.get("faulterr")
                if e is None:
                    e = IfaceV("error:fault", ErrV("fault", "reader-fault"))
                    st.notes["faulterr"] = e
                return e
            return eng.deref(st, PtrV(eng.global_obj(st, "io.EOF"), ()), None)

        def underlying(eng, st, maxlen):
            """outcomes of one Read of the underlying reader: list of (n, err-or-None)"""
            (pos, fetched, pend, size, T, fault) = st.notes["bufio"]
            rem = T - fetched
            script = eng.opts.get("e3_read_script")
            if script is not None:
                # one prescribed fragmentation (used where only the event shape matters)
                i = len(st.notes.get("reads", ()))
                if i < len(script):
                    n, e = script[i]
                    if n > rem or n > maxlen or (e and n != rem):
                        raise EngineError("read script does not fit the stream")
                    return [(n, "T" if e else None)]
                return [(0, "T")] if rem <= 0 else []
            if rem <= 0:
                outs = [(0, "T")]
            else:
                outs = []
                for n in range(1, min(maxlen, rem) + 1):
                    outs.append((n, None))
                    if n == rem:
                        outs.append((n, "T"))
            pref = eng.opts.get("e3_read_prefix")
            if pref is not None:
                # work splitting: this run covers only the executions whose first underlying reads have these sizes
                i = len(st.notes.get("reads", ()))
                if i < len(pref):
                    outs = [o for o in outs if o[0] == pref[i]]
            return outs

        def note_read(st, n, e):
            st.notes["reads"] = st.notes.get("reads", ()) + ((n, e),)

        @reg("(*bufio.Reader).Read")
        def bufio_read(eng, st, fr, args, ins):
            p = args[1]
            pos_ = ins.get("pos")
            lp = eng.need_int(st, p.len, pos_, "Read buffer length")
            (pos, fetched, pend, size, T, fault) = st.notes["bufio"]
            stream = st.mem[st.notes["stream"]]

            def deliver(s, pos, n, err):
                if n:
                    off = eng.need_int(s, p.off, pos_, "Read buffer offset")
                    arr = eng.load_path(s.mem[p.obj], p.path, s, pos_)
                    arr = arr[:off] + tuple(stream[pos:pos + n]) + arr[off + n:]
                    s.mem[p.obj] = eng.store_path(s.mem[p.obj], p.path, arr, s, pos_)
                    eng.log_access(s, "w", p.obj, p.path, pos_)
                return (n, err if err is not None else NILIFACE)
            if fetched > pos:
                n = min(lp, fetched - pos)
                st.notes["bufio"] = (pos + n, fetched, pend, size, T, fault)
                return deliver(st, pos, n, None)
            if pend:
                st.notes["bufio"] = (pos, fetched, False, size, T, fault)
                return (0, terminal(eng, st))
            outs = underlying(eng, st, lp)
            if not outs:
                st.status = "dead"
                return (0, NILIFACE)
            items = []
            for j, (n, e) in enumerate(outs):
                s = st if j == len(outs) - 1 else st.fork()
                note_read(s, n, e)
                s.nondet.append(("read", n * 2 + (1 if e else 0), 64))
                s.notes["bufio"] = (pos + n, fetched + n, False, size, T, fault)
                v = deliver(s, pos, n, terminal(eng, s) if e else None)
                s.notes["bufio"] = (pos + n, fetched + n, False, size, T, fault)
                items.append((s, v))
            return Forks(items) if len(items) > 1 else items[0][1]

        @reg("(*bufio.Reader).ReadBytes")
        def bufio_readbytes(eng, st, fr, args, ins):
            delim = eng.need_int(st, args[1], ins.get("pos"), "delimiter")
            stream = st.mem[st.notes["stream"]]
            results = []        # (state, value)

            def finish(s, start, end, err):
                data = list(stream[start:end])
                sl = eng.mk_slice(s, data, label="rb") if data else NILSLICE
                results.append((s, (sl, err if err is not None else NILIFACE)))

            def scan(s, start, i):
                """s: state; bytes [start,i) already scanned without delimiter"""
                work = [(s, i)]
                while work:
                    s, i = work.pop()
                    (pos, fetched, pend, size, T, fault) = s.notes["bufio"]
                    if i < fetched:
                        c = (stream[i] == delim) if type(stream[i]) is int else simp(stream[i] == delim)
                        outs = eng.branch(s, c)
                        for s2, b in outs:
                            if b:
                                s2.notes["bufio"] = (i + 1, fetched, pend, size, T, fault)
                                finish(s2, start, i + 1, None)
                            else:
                                work.append((s2, i + 1))
                        continue
                    if pend:
                        s.notes["bufio"] = (fetched, fetched, False, size, T, fault)
                        finish(s, start, fetched, terminal(eng, s))
                        continue
                    outs = underlying(eng, s, max(1, T))       # fill: one underlying read of any size
                    if not outs:
                        s.status = "dead"
                    for j, (n, e) in enumerate(outs):
                        s2 = s if j == len(outs) - 1 else s.fork()
                        note_read(s2, n, e)
                        s2.nondet.append(("fill", n * 2 + (1 if e else 0), 64))
                        s2.notes["bufio"] = (pos, fetched + n, bool(e), size, T, fault)
                        work.append((s2, i))
            (pos, fetched, pend, size, T, fault) = st.notes["bufio"]
            scan(st, pos, pos)
            # st must be among the results (it is the last fork of every split)
            if len(results) == 1 and results[0][0] is st:
                return results[0][1]
            if not any(s is st for s, _ in results):
                st.status = "dead"
            return Forks(results)

        @reg("bytes.TrimSpace")
        def trim_space(eng, st, fr, args, ins):
            """ASCII white space trimmed from both ends. Only the LENGTH of the result is modelled (0 iff every byte is white
            space, else some k in 1..len): the result keeps symbolic bounds, so any use other than len() makes the engine stop
            with an error (= inconclusive) instead of computing something wrong."""
            x = args[0]
            pos = ins.get("pos")
            n = eng.need_int(st, x.len, pos, "TrimSpace argument length")
            if n == 0:
                return SliceV(x.obj, x.path, x.off, 0, x.cap) if x.obj is not None else NILSLICE
            bs = eng.slice_read_all(st, x, pos)
            blank = []
            for b in bs:
                if type(b) is int:
                    blank.append(z3.BoolVal(b in (9, 10, 11, 12, 13, 32)))
                else:
                    blank.append(z3.Or(b == 9, b == 10, b == 11, b == 12, b == 13, b == 32))
            allb = simp(z3.And(blank))
            if allb is True:
                return SliceV(x.obj, x.path, x.off, 0, x.cap)
            k = eng.path_fresh(st, "trim.len", 64, pos)
            st.pc.append(z3.And(z3.UGE(k, 1), z3.ULE(k, n)))
            ln = k if allb is False else z3.If(allb, z3.BitVecVal(0, 64), k)
            return SliceV(x.obj, x.path, x.off, ln, x.cap)

        @reg("(*sync.Pool).Put")
        def pool_put(eng, st, fr, args, ins):
            pool, x = args
            key = eng.loc_id(pool)
            st.notes["pool"] = st.notes.get("pool", ()) + ((key, x),)
            v = x.val if isinstance(x, IfaceV) else x
            if isinstance(v, SliceV) and v.obj is not None:
                eng.log_access(st, "w", v.obj, v.path, ins.get("pos"))
                n = v.len if type(v.len) is int else eng.concretize(st, v.len)
                data = ()
                if n:
                    eng.raw = True
                    data = tuple(eng.slice_read_all(st, SliceV(v.obj, v.path, v.off, n, v.cap), ins.get("pos")))
                    eng.raw = False
                st.notes["puts"] = st.notes.get("puts", ()) + ((len(st.notes.get("ev", ())), v.obj, ins.get("pos"), data),)
            return None

        @reg("verif:nd.parse")
        def nd_parse(eng, st, fr, args, ins):
            pj, msg, nd = args
            pos = ins.get("pos")
            n = eng.need_int(st, msg.len, pos, "chunk length")
            data = eng.slice_read_all(st, msg, pos) if n else []
            eng.log_access(st, "r", msg.obj, msg.path, pos)
            st.notes["parsed"] = st.notes.get("parsed", ()) + ((tuple(data), msg.obj),)
            # the parser state this chunk is parsed with: string copying must be on (the chunk buffer goes back to the pool, C16)
            cs = None
            for tid, t in eng.p.types.items():
                if t.get("k") == "struct" and t.get("name", "").endswith(".internalParsedJson"):
                    names = [f["name"] for f in t["fields"]]
                    if "copyStrings" in names:
                        cs = eng.deref(st, pj, pos)[names.index("copyStrings")]
                    break
            st.notes["parse_copy"] = st.notes.get("parse_copy", ()) + ((cs, pos),)
            mode = eng.opts.get("e3_parse_outcomes", "both")
            ok_state = st
            items = []
            if mode in ("both", "fail"):
                s = st.fork() if mode == "both" else st
                s.nondet.append(("parse.fail", 1, 64))
                items.append((s, self.new_err("parse")))
            if mode in ("both", "ok"):
                st.nondet.append(("parse.fail", 0, 64))
                items.append((st, NILIFACE))
            return Forks(items) if len(items) > 1 else items[0][1]


class NDEngine(E3Engine):
    POOL_GET = "(*sync.Pool).Get"

    def do_call(self, st, fr, callee, args, dest, ins):
        if callee.name == self.POOL_GET:
            return self.pool_get(st, fr, args, dest, ins)
        return super().do_call(st, fr, callee, args, dest, ins)

    def pool_get(self, st, fr, args, dest, ins):
        """Get: New() (the real closure is executed) or any value Put before (one fork each)"""
        pool = args[0]
        key = self.loc_id(pool)
        self.intr.used.add(self.POOL_GET)
        t = None
        for tid, tt in self.p.types.items():
            if tt.get("name") == "sync.Pool" and tt.get("k") == "struct":
                t = tt
        fi = [f["name"] for f in t["fields"]].index("New")
        self.raw = True
        newf = self.deref(st, PtrV(pool.obj, pool.path + (fi,)), ins.get("pos"))
        self.raw = False
        forks = []
        puts = [x for k, x in st.notes.get("pool", ()) if k == key]
        mode = self.opts.get("e3_pool_reuse", True)
        if mode == "havoc" and puts:
            # one path for "New() or any recycled buffer": a New() buffer whose first bytes are arbitrary (stale data)
            st.notes["pool_havoc"] = True
        if mode is True:
            for x in puts:
                s = st.fork()
                s.notes["pool"] = tuple((k, y) for k, y in s.notes.get("pool", ()) if not (k == key and y is x))
                if dest is not None:
                    s.top().env[dest] = x
                s.nondet.append(("pool.get", 1, 64))
                forks.append(s)
        st.nondet.append(("pool.get", 0, 64))
        if newf.name is None:
            if dest is not None:
                fr.env[dest] = NILIFACE
            return forks
        if st.notes.get("pool_havoc"):
            def havoc_dest(s2, res, _dest=dest):
                v = res[0]
                sl = v.val if isinstance(v, IfaceV) else v
                if isinstance(sl, SliceV) and sl.obj is not None:
                    arr = list(s2.mem[sl.obj])
                    for i in range(min(len(arr), int(self.opts.get("e3_pool_havoc_len", 16)))):
                        arr[i] = self.path_fresh(s2, "stale", 8, "pool")
                    s2.mem[sl.obj] = tuple(arr)
                if _dest is not None:
                    s2.top().env[_dest] = v
            r = super().do_call(st, fr, newf, [], havoc_dest, ins)
            return forks + (r or [])
        r = super().do_call(st, fr, newf, [], dest, ins)
        return forks + (r or [])

    def env_value(self, st, ch, tid, pos):
        """a *ParsedJson handed back by the consumer: nobody else references it; its Message buffer is either large enough
        to be recycled or not (both explored by the caller through the capacity choice)"""
        t = self.p.types[tid]
        et = t["elem"]
        big = self.opts.get("e3_reuse_big", True)
        pjv = list(self.p.zero(et))
        names = [f["name"] for f in self.p.types[et]["fields"]]
        cap = int(self.opts.get("e3_reuse_cap", 0))
        if cap:
            buf = st.alloc((0,) * cap, "reusebuf")
            pjv[names.index("Message")] = SliceV(buf, (), 0, 0, cap)
        oid = st.alloc(tuple(pjv), "reuse", typ=et)
        return PtrV(oid, ())
