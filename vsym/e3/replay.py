"""E3, part 3: native replay of schedule counterexamples.

From a model of the partial-order encoding a total order of hand-off steps is derived; the repository files that
contain the event sites are copied with cmd/e3instr's hooks around those statements and compiled into the package
with `go test -overlay`, together with harness/zz_verif_e3rt.go (the scheduler) and a generated test that runs the
REAL entry point (Parse / ParseNDStream) on a crafted input under that schedule.
A counterexample that cannot be forced natively is reported as such (never as a violation).
"""
import os, re, subprocess
from .. import common

E3INSTR = os.path.join(common.VERIF, "bin", "e3instr")


def ensure_tool():
    src = os.path.join(common.VERIF, "cmd", "e3instr", "main.go")
    if not os.path.exists(E3INSTR) or os.path.getmtime(E3INSTR) < os.path.getmtime(src):
        common.sh(["go", "build", "-o", E3INSTR, "./cmd/e3instr"], cwd=common.VERIF)


def site_lines(sites):
    """{'file.go': {line,...}} from 'file.go:line' strings (harness files are never instrumented)"""
    out = {}
    for s in sites:
        if not s:
            continue
        f, l = s.rsplit(":", 1)
        if f.startswith("zz_verif"):
            continue
        out.setdefault(f, set()).add(int(l))
    return out


def instrument(sites, sources=None):
    """returns {file name: instrumented source}; raises common.Inconclusive if a site cannot be hooked.
    sources: {file name: path} of files that replace the repository's (constant-scaled copies the positions refer to)"""
    ensure_tool()
    d = common.scratch("verif-e3i-")
    out = {}
    for f, lines in site_lines(sites).items():
        src = (sources or {}).get(f) or os.path.join(common.REPO, f)
        if (sources or {}).get(f):
            # e3instr names the sites after the file's base name: keep the repository's name
            tmp = os.path.join(d, "src_" + f)
            os.makedirs(os.path.dirname(tmp), exist_ok=True)
            with open(src) as fi, open(os.path.join(d, "in", f) if os.makedirs(os.path.join(d, "in"), exist_ok=True) is None else tmp, "w") as fo:
                fo.write(fi.read())
            src = os.path.join(d, "in", f)
        dst = os.path.join(d, f)
        r = subprocess.run([E3INSTR, "-file", src, "-lines", ",".join(str(l) for l in sorted(lines)), "-out", dst],
                           stdout=subprocess.PIPE, stderr=subprocess.STDOUT, text=True, env=common.GOENV)
        if r.returncode != 0:
            raise common.Inconclusive("replay instrumentation failed for %s: %s" % (f, r.stdout.strip()))
        out[f] = open(dst).read()
    return out


class Schedule:
    def __init__(self):
        self.steps = []      # (tid, site, seg, occ)
        self.slots = []
        self.pre_only = []   # slots that complete when their pre-hook is reached
        self.alias = {}      # access site -> class name ("any of these statements")
        self.event_sites = set()
        self.sites = set()
        self.text = []

    def go_literals(self):
        steps = ", ".join('{"%s", "%s", %d, %d}' % s for s in self.steps)
        slots = ", ".join(str(x) for x in self.slots)
        evs = ", ".join('"%s"' % s for s in sorted(self.event_sites))
        return steps, slots, evs


def build_schedule(po, events_in_order, accesses=(), all_traces=None, reach_only=(), pos_of=None):
    """events_in_order: executed events in the order they must complete; accesses: list of (tid, seg, site, occ) appended
    after them in the given order. Events that are the two halves of a rendezvous share a slot. reach_only: events (subset of
    events_in_order) that only have to be reached, not completed."""
    reach = {(e.tid, e.i) for e in reach_only}
    pos_of = pos_of or {}

    def P(e):
        return pos_of.get((e.tid, e.i), e.pos)
    sc = po.sc
    sch = Schedule()
    traces = all_traces or list(sc.traces.values())
    for t in traces:
        for e in t.events:
            if P(e) and not P(e).startswith("zz_verif"):
                sch.event_sites.add(P(e))
                sch.sites.add(P(e))
    occ = {}
    for t in traces:
        cnt = {}
        for e in t.events:
            cnt[P(e)] = cnt.get(P(e), 0) + 1
            occ[(e.tid, e.i)] = cnt[P(e)]
    slot_of = {}
    nslot = 0
    for e in events_in_order:
        if not P(e) or P(e).startswith("zz_verif"):
            continue
        key = (e.tid, e.i)
        partner = None
        if e.kind in ("recv", "tryrecv") and isinstance(e.src, tuple) and sc.cap(e.ch) == 0:
            partner = e.src
        elif e.kind in ("send", "trysend") and sc.cap(e.ch) == 0:
            for r in po.recvs.get(e.ch, []):
                if r.src == key:
                    partner = (r.tid, r.i)
        if partner is not None and partner in slot_of:
            sl = slot_of[partner]
        else:
            sl = nslot
            nslot += 1
        slot_of[key] = sl
        sch.steps.append((e.tid, P(e), -1, occ[key]))
        sch.slots.append(sl)
        if key in reach:
            sch.pre_only.append(sl)
        sch.text.append("%d: t%s %s %s #%d" % (sl, e.tid, e.kind, P(e), occ[key]))
    for n, (tid, seg, site, o) in enumerate(accesses):
        if isinstance(site, (list, tuple, set)):
            name = "access-class-%d" % n
            for s_ in site:
                sch.sites.add(s_)
                sch.alias[s_] = name
            site = name
        else:
            sch.sites.add(site)
        sch.steps.append((tid, site, seg, o))
        sch.slots.append(nslot)
        sch.text.append("%d: t%s access %s seg %d #%d" % (nslot, tid, site, seg, o))
        nslot += 1
    return sch


def run_replay(files, test_name, timeout=240, extra_env=None, extra_args=None):
    """files: {name: source}. Returns (rc, output, dict of VERIF-E3 key/values)"""
    keep = os.environ.get("VERIF_E3_KEEP")
    if keep:
        os.makedirs(keep, exist_ok=True)
        for n, t in files.items():
            with open(os.path.join(keep, n), "w") as f:
                f.write(t)
    rc, out = common.go_test_overlay(files, "^%s$" % test_name, timeout=timeout, extra_env=extra_env, extra_args=extra_args)
    if keep:
        with open(os.path.join(keep, "output.txt"), "w") as f:
            f.write(out)
    kv = {}
    for l in out.splitlines():
        m = re.match(r"VERIF-E3: (\w+) (.*)", l)
        if m:
            kv[m.group(1)] = m.group(2).strip()
    return rc, out, kv


def rt_source():
    return open(os.path.join(common.VERIF, "harness", "zz_verif_e3rt.go")).read()
