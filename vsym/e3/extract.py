"""E3, part 1: event extraction.

Every goroutine of a concurrent region is executed from the lowered go/ssa (E2's interpreter, subclassed here) IN
ISOLATION.  Channel operations, `go`, close, atomic adds and WaitGroup operations become *events* carrying their
(symbolic) payload; loads and stores are summarised per *segment* (the stretch of a thread between two consecutive
events) as sets of (object, path) locations.  Nothing here decides an interleaving: a send always "succeeds" and
records its value; a receive takes the value of a send chosen by the FIFO rule (k-th receive <- k-th send when the
channel has one sending thread; one fork per candidate otherwise) and records which send it took, so that the
partial-order encoder (po.py) can constrain/refute that choice with timestamps.  A receive for which no send exists
ends the thread with status "stuck" (the encoder decides whether that configuration is reachable).

Thread extraction order is the data-flow order (senders before receivers); regions with cyclic value flow between
goroutines are not supported (none of the two regions of this repository has one).
"""
import time
import z3
from ..e2.values import *
from ..e2.engine import Engine, EngineError, Forks, State
from ..e2.intrinsics import Intrinsics, PKG

H = PKG + "."

BLOCKING = ("send", "recv", "wg.wait", "select")


class Ev:
    """one synchronisation event of a thread"""
    __slots__ = ("kind", "tid", "i", "ch", "k", "val", "vt", "pos", "src", "out", "info")

    def __init__(self, kind, tid, i, ch=None, k=None, val=None, vt=None, pos=None, src=None, out=None, info=None):
        self.kind = kind    # go | send | recv | tryrecv | trysend | close | atomic | wg.add | wg.done | wg.wait | mark
        self.tid = tid
        self.i = i          # index in the thread's event list
        self.ch = ch        # channel / waitgroup / atomic location id
        self.k = k          # ordinal among this thread's completed operations of the same direction on ch (1-based)
        self.val = val      # payload (engine value)
        self.vt = vt        # type id of the payload
        self.pos = pos
        self.src = src      # for receives: (tid, event index) of the send taken, "closed", or None (= no send exists)
        self.out = out      # outcome of a non-blocking operation: "recv" | "sent" | "default" | "closed"
        self.info = info    # go: child id; mark: name; wg.add: delta

    def shape(self):
        return (self.kind, self.ch, self.k, self.pos, self.src, self.out, self.info if self.kind != "mark" else self.info[0])

    def with_val(self, v):
        return Ev(self.kind, self.tid, self.i, self.ch, self.k, v, self.vt, self.pos, self.src, self.out, self.info)

    def __repr__(self):
        return "<%s t%s#%s ch=%s k=%s %s%s @%s>" % (self.kind, self.tid, self.i, self.ch, self.k, self.out or "",
                                                   " src=%s" % (self.src,) if self.src is not None else "", self.pos)


class Trace:
    """one path of one thread"""
    def __init__(self, tid, st, status):
        self.tid = tid
        self.events = list(st.notes.get("ev", ()))
        self.acc = st.notes.get("acc", frozenset())       # set of (segment, 'r'|'w', obj, path)
        self.pc = list(st.pc)
        self.status = status                              # done | stuck
        self.spawns = st.notes.get("spawn", ())           # (child id, callee, args, snapshot state)
        self.nondet = list(st.nondet)
        self.result = st.notes.get("result")
        self.chans = dict(st.notes.get("chans", ()))      # channel id -> (capacity, elem type, pos)
        self.marks = st.notes.get("marks", ())
        self.parent = None
        self.otype = {a[2]: st.otype.get(a[2]) for a in self.acc}
        self.accpos = dict(st.notes.get("accpos", ()))
        self.stuck_why = st.notes.get("stuck")
        self.notes = st.notes
        self.steps = st.steps

    def sends(self, ch=None):
        return [e for e in self.events if e.kind in ("send", "trysend") and e.out != "default" and (ch is None or e.ch == ch)]

    def recvs(self, ch=None):
        return [e for e in self.events if e.kind in ("recv", "tryrecv") and e.out not in ("default",) and e.src is not None
                and (ch is None or e.ch == ch)]

    def signature(self, with_pos=True):
        if with_pos:
            return tuple(e.shape() for e in self.events) + (self.status,)
        return tuple(e.shape()[:3] + e.shape()[4:] for e in self.events) + (self.status,)


SYM_TERMS = {}      # z3 ast id -> term, for symbolic path elements of logged accesses


def _pathkey(path):
    out = []
    for p in path:
        if type(p) is int:
            out.append(p)
        else:
            SYM_TERMS[p.get_id()] = p
            out.append(("s", p.get_id()))
    return tuple(out)


class E3Intrinsics(Intrinsics):
    """E2's stubs + the concurrency primitives as event recorders + the stage-1 kernel contract."""

    def __init__(self):
        super().__init__()
        self.kernel_mode = "cover"      # cover: advance in {one block, all}; length arbitrary   |  real: early exit only at the limit
        self.kernel_calls = 0

    # ---- hooks called by the engine ---------------------------------------------------------------------
    def go_stmt(self, eng, st, fr, callee, args, ins):
        n = st.notes.get("nchild", 0) + 1
        st.notes["nchild"] = n
        cid = "%s.%d" % (st.notes.get("tid", "0"), n)
        eng.add_event(st, "go", pos=ins.get("pos"), info=cid)
        snap = st.fork()
        snap.frames = []
        st.notes["spawn"] = st.notes.get("spawn", ()) + ((cid, callee, tuple(args), snap),)
        return []

    def chan_send(self, eng, st, fr, ch, x, ins):
        if ch.obj is None:
            eng.stuck(st, "send on nil channel", ins.get("pos"))
            return []
        k = eng.count(st, "send", ch.obj) + 1
        vt = eng.chan_elem(st, ch.obj)
        x = eng.abstract_payload(st, x, vt, ins.get("pos"))
        eng.add_event(st, "send", ch=ch.obj, k=k, val=x, vt=vt, pos=ins.get("pos"))
        return []

    def chan_recv(self, eng, st, fr, ch, ins):
        return eng.do_recv(st, fr, ch, ins, blocking=True)

    def select_stmt(self, eng, st, fr, ins):
        return eng.do_select(st, fr, ins)

    def _register(self):
        super()._register()
        reg = self.reg

        @reg("(*sync.WaitGroup).Add")
        def wg_add(eng, st, fr, args, ins):
            d = eng.need_int(st, args[1], ins.get("pos"), "WaitGroup.Add delta")
            eng.add_event(st, "wg.add", ch=eng.loc_id(args[0]), pos=ins.get("pos"), info=signed(d, 64))

        @reg("(*sync.WaitGroup).Done")
        def wg_done(eng, st, fr, args, ins):
            eng.add_event(st, "wg.done", ch=eng.loc_id(args[0]), pos=ins.get("pos"))

        @reg("(*sync.WaitGroup).Wait")
        def wg_wait(eng, st, fr, args, ins):
            eng.add_event(st, "wg.wait", ch=eng.loc_id(args[0]), pos=ins.get("pos"))

        @reg("sync/atomic.AddUint64", "sync/atomic.AddInt64", "sync/atomic.AddUint32", "sync/atomic.AddInt32")
        def atomic_add(eng, st, fr, args, ins):
            p, d = args
            bits = 32 if ins["call"]["fn"].endswith("32") else 64
            eng.raw = True
            try:
                old = eng.deref(st, p, ins.get("pos"), bits)
                new = simp(bv(old, bits) + bv(d, bits))
                eng.store(st, p, new, ins.get("pos"), bits)
            finally:
                eng.raw = False
            eng.add_event(st, "atomic", ch=eng.loc_id(p), val=new, pos=ins.get("pos"))
            lim = eng.opts.get("e3_max_atomic")
            if lim is not None and eng.count(st, "atomic", eng.loc_id(p)) > lim:
                eng.cuts += 1
                st.status = "dead"          # bound on the number of ring acquisitions (stated bound)
            return new

        # ---- stage-1 kernels: contract stub (A6/A7/G1 are the lemmas about their content) ---------------------
        def kernel(avx512):
            def h(eng, st, fr, args, ins):
                if avx512:
                    (buf, ln, p_odd, p_quote, p_err, p_pred, indexes, index, limit, carried, position, nd) = args
                    scratch = ()
                else:
                    (buf, ln, p_odd, p_quote, p_qbits, p_err, p_ws, p_st, p_pred, indexes, index, limit, carried, position, nd) = args
                    scratch = (p_qbits, p_ws, p_st)
                pos = ins.get("pos")
                n = eng.need_int(st, ln, pos, "kernel slice length")
                limit = eng.need_int(st, limit, pos, "kernel early-exit limit")
                self.kernel_calls += 1
                eng.raw = True
                l_in = eng.deref(st, index, pos, 64)
                eng.raw = False
                eng.kernel_limit = limit
                # the kernel reads the message bytes and writes the index buffer it was handed
                kpos = eng.caller_pos(st) or pos
                eng.log_access(st, "r", buf.obj, buf.path[:-1], kpos)
                eng.log_access(st, "w", indexes.obj, indexes.path[:-1], kpos)
                full = n & ~63
                if n < 64:
                    advs = [n]
                elif self.kernel_mode == "real":
                    # minimal advance that can reach the limit (<= 64 indexes per block, at most one carried in) or everything
                    need = ((limit - 1 + 63) // 64) * 64
                    advs = [need, n] if need < full else [n]
                else:
                    advs = [64, n] if full > 64 or n > 64 else [n]
                items = []
                for j, adv in enumerate(advs):
                    s = st if j == len(advs) - 1 else st.fork()
                    eng.raw = True
                    s.nondet.append(("kernel.adv", adv, 64))       # concrete choice: keeps the two advances from being merged
                    for p in (p_odd, p_quote, p_err, p_pred, carried) + scratch:
                        t = eng.path_fresh(s, "k", 64, pos)
                        s.nondet.append(("kernel", t, 64))
                        eng.store(s, p, t, pos, 64)
                    # *position: the last structural found is reported at the last byte processed by this call (a concrete
                    # offset; the byte there is an unconstrained symbol of the message, so every strip/keep decision of the
                    # caller stays possible, independently per buffer)
                    p_in = eng.deref(s, position, pos, 64)
                    eng.store(s, position, simp(bv(p_in, 64) + adv) if n < 64 or adv == n and n <= 64 else (adv - 1) & M(64), pos, 64)
                    lo = eng.path_fresh(s, "k.len", 64, pos)
                    s.nondet.append(("kernel.len", lo, 64))
                    eng.store(s, index, lo, pos, 64)
                    eng.raw = False
                    L = bv(l_in, 64)
                    blocks = (adv + 63) // 64
                    cap = z3.If(L > limit - 1, L, z3.BitVecVal(limit - 1, 64)) + 64      # index < limit before the last block
                    cs = [L >= 0, lo >= L, lo <= cap, lo <= L + 64 * blocks]
                    if self.kernel_mode == "real" and adv < n:
                        cs.append(lo >= limit)         # the loop is left early only once the limit is reached
                    for c in cs:
                        c = simp(c)
                        if c is False:
                            s.status = "dead"
                        elif c is not True:
                            s.pc.append(c)
                    items.append((s, adv))
                return Forks(items) if len(items) > 1 else items[0][1]
            return h
        self.table[H + "_find_structural_bits_in_slice"] = kernel(False)
        self.table[H + "_find_structural_bits_in_slice_avx512"] = kernel(True)

        # ---- harness intrinsics -------------------------------------------------------------------------------
        @reg(H + "verifE3Message")
        def e3_message(eng, st, fr, args, ins):
            n = eng.need_int(st, args[0], ins.get("pos"), "message length")
            elems = [z3.BitVec("msg!%d" % i, 8) for i in range(n)]
            elems[0] = ord("{")
            elems[n - 1] = ord("}")
            return eng.mk_slice(st, elems, label="msg")

        @reg(H + "verifE3Skip")
        def e3_skip(eng, st, fr, args, ins):
            pj, to_end = args
            pos = ins.get("pos")
            fi = eng.field_index(pj, "indexesChan")
            base = PtrV(pj.obj, pj.path + (fi,))
            eng.raw = True
            idx = eng.deref(st, PtrV(base.obj, base.path + (0,)), pos, 64)
            ln = eng.deref(st, PtrV(base.obj, base.path + (1,)), pos, 64)
            held = eng.deref(st, PtrV(base.obj, base.path + (2,)), pos)
            I, L = bv(idx, 64), bv(ln, 64)
            hi = z3.If(I > L, I, L)
            if to_end is True:
                v = simp(hi)
            else:
                v = eng.path_fresh(st, "s2.skip", 64, pos)
                st.nondet.append(("s2.skip", v, 64))
                st.pc.append(z3.And(v >= I, v <= hi))
            eng.store(st, PtrV(base.obj, base.path + (0,)), v, pos, 64)
            eng.raw = False
            if held.obj is not None:
                eng.log_access(st, "r", held.obj, held.path)     # each skipped updateChar call reads the held slot
            return None

        @reg(H + "verifE3Outcome")
        def e3_outcome(eng, st, fr, args, ins):
            st.notes["result"] = args[0]
            return None


class E3Engine(Engine):
    def __init__(self, prog, intr, opts=None):
        super().__init__(prog, intr, opts)
        self.alias = dict((opts or {}).get("e3_alias", {}))
        self.raw = False                  # True while an intrinsic touches memory on behalf of a primitive
        self.provider = None              # f(st, ch, k, kind) -> list of (value, src) | [] (no send exists)
        self.cuts = 0
        self.assumed_panics = {}
        self.track = True
        self.kernel_limit = None
        self.env_chans = {}               # channel id -> "send" | "recv" (the other end is the environment)
        self.abstracted = 0
        self.interned = {}
        self.widen = set((opts or {}).get("e3_widen", ()))
        self.widened = 0
        self.havoc = None
        self._ncache = {}
        self._nkeep = []
        self.compacted = 0
        self.abstraction_failed = []

    # ---- solver: independence slicing -------------------------------------------------------------------------
    # Invariant kept by the engine (no lazy feasibility): the path condition of a live state is satisfiable. Then
    # pc /\ c is satisfiable iff slice(pc, c) /\ c is, where slice = the conjuncts transitively sharing a symbol with c.
    def _names(self, c):
        i = c.get_id()
        ns = self._ncache.get(i)
        if ns is None:
            ns = frozenset(consts_of(c, {}))
            self._ncache[i] = ns
            self._nkeep.append(c)
        return ns

    def _slice(self, pc, want):
        want = set(want)
        rest = [(c, self._names(c)) for c in pc]
        keep = []
        changed = True
        while changed and rest:
            changed = False
            nxt = []
            for c, ns in rest:
                if ns & want:
                    keep.append(c)
                    want |= ns
                    changed = True
                else:
                    nxt.append((c, ns))
            rest = nxt
        return keep

    def check(self, st, extra=None, nontrivial=False):
        if self.opts.get("e3_no_slicing"):
            return super().check(st, extra, nontrivial)
        t0 = time.time()
        self.queries += 1
        if nontrivial:
            self.nontrivial += 1
        pc = st.pc
        if extra is None:
            if not pc:
                return "sat"
            extra, pc = pc[-1], pc[:-1]
        extra = bl(extra)
        sl = self._slice(pc, self._names(extra))
        sol = z3.Solver()
        sol.set("timeout", self.timeout_ms)
        for c in sl:
            sol.add(c)
        sol.add(extra)
        r = sol.check()
        self.last_solver = sol
        self.solver_s += time.time() - t0
        return "sat" if r == z3.sat else "unsat" if r == z3.unsat else "unknown"

    def concretize(self, st, term, what="value"):
        term = simp(term)
        if type(term) is int:
            return term
        sl = self._slice(st.pc, self._names(term))
        sol = z3.Solver()
        sol.set("timeout", self.timeout_ms)
        for c in sl:
            sol.add(c)
        self.queries += 2
        t0 = time.time()
        try:
            if sol.check() != z3.sat:
                return None
            v = sol.model().eval(term, model_completion=True).as_long()
            if sol.check(term != v) == z3.unsat:
                return v
            return None
        finally:
            self.solver_s += time.time() - t0

    # ---- events -------------------------------------------------------------------------------------------
    def add_event(self, st, kind, **kw):
        evs = st.notes.get("ev", ())
        e = Ev(kind, st.notes.get("tid", "0"), len(evs), **kw)
        st.notes["ev"] = evs + (e,)
        return e

    def count(self, st, kind, ch):
        kinds = {"send": ("send", "trysend"), "recv": ("recv", "tryrecv")}.get(kind, (kind,))
        return sum(1 for e in st.notes.get("ev", ()) if e.kind in kinds and e.ch == ch and e.out != "default"
                   and not (e.kind in ("recv", "tryrecv") and e.src == "closed"))

    def abstract_payload(self, st, x, vt, pos):
        """payload abstraction with a checked invariant: a symbolic integer field of a sent struct is replaced by a fresh
        symbol constrained to [lo,hi] after the solver has shown that the path condition implies lo <= field <= hi (so the
        receiver sees a superset of the values the sender can produce; traces of equal shape become identical)"""
        rules = self.opts.get("e3_abstract")
        if not rules or vt is None:
            return x
        t = self.p.types[vt]
        rs = rules.get(t.get("name"))
        if not rs or type(x) is not tuple:
            return x
        x = list(x)
        for fname, lo, hi in rs:
            fi = [f["name"] for f in t["fields"]].index(fname)
            v = x[fi]
            if type(v) is int:
                continue
            bits = v.size()
            r = self.check(st, z3.Not(z3.And(v >= lo, v <= hi)), True)
            if r != "unsat":
                self.abstraction_failed.append((t.get("name"), fname, pos, r))
                continue
            nv = self.path_fresh(st, "abs.%s" % fname, bits, pos)
            st.nondet.append(("abs." + fname, nv, bits))
            st.pc.append(z3.And(nv >= lo, nv <= hi))
            x[fi] = nv
            self.abstracted += 1
        return tuple(x)

    def path_fresh(self, st, name, bits, site=None):
        """fresh symbol whose identity is a function of (thread, site, occurrence of that site along the path): sibling
        paths reuse the same symbols for corresponding nondeterministic values, which is what lets states merge (symbols
        are bound per path; a merged state continues with the maximum of both counters, so no symbol is reused on a path)"""
        cnt = dict(st.notes.get("nfc", ()))
        k = (name, site)
        n = cnt.get(k, 0) + 1
        cnt[k] = n
        st.notes["nfc"] = cnt
        key = "%s!t%s!%s!%d" % (name, st.notes.get("tid", "0"), site or "", n)
        t = self.interned.get((key, bits))
        if t is None:
            t = z3.BitVec(key, bits) if bits else z3.Bool(key)
            self.interned[(key, bits)] = t
        return t

    def stuck(self, st, why, pos):
        st.notes["stuck"] = (why, pos)
        st.status = "done"
        st.frames = []

    def caller_pos(self, st):
        """source position of the call instruction that created the current (top) frame"""
        if len(st.frames) < 2:
            return None
        fr = st.frames[-2]
        blk = fr.fn["blocks"][fr.blk]
        if fr.ip - 1 < 0 or fr.ip - 1 >= len(blk["ins"]):
            return None
        return blk["ins"][fr.ip - 1].get("pos")

    def loc_id(self, p):
        return (p.obj,) + _pathkey(p.path)

    def field_index(self, p, name):
        tid = None
        # p points to a struct object allocated with a known type
        for t in self.p.types.values():
            if t.get("k") == "struct" and any(f["name"] == name for f in t["fields"]) and t.get("name", "").endswith("internalParsedJson"):
                return [f["name"] for f in t["fields"]].index(name)
        raise EngineError("field %s not found" % name)

    def chan_elem(self, st, oid):
        return dict(st.notes.get("chans", ())).get(oid, (None, None, None))[1]

    def log_access(self, st, kind, obj, path, pos=None):
        if obj is None or obj.startswith("str:"):
            return
        seg = len(st.notes.get("ev", ()))
        key = (seg, kind, obj, _pathkey(path))
        acc = st.notes.get("acc")
        if acc is None:
            acc = frozenset()
        if key not in acc:
            st.notes["acc"] = acc | {key}
            if pos is not None and not pos.startswith("zz_verif"):
                ap = dict(st.notes.get("accpos", ()))
                ap[key] = pos
                st.notes["accpos"] = ap

    # ---- memory hooks -----------------------------------------------------------------------------------------
    def _havoc_loc(self, st, ptr):
        if self.havoc is None:
            self.havoc = set()
            for tname, fname in self.opts.get("e3_havoc_fields", ()):
                for tid, t in self.p.types.items():
                    if t.get("name") == tname and t.get("k") == "struct":
                        self.havoc.add((tid, [f["name"] for f in t["fields"]].index(fname)))
        if not self.havoc or not ptr.path or type(ptr.path[0]) is not int:
            return False
        return (st.otype.get(ptr.obj), ptr.path[0]) in self.havoc

    def deref(self, st, ptr, pos, bits=None):
        if self.track and not self.raw and ptr.obj is not None:
            self.log_access(st, "r", ptr.obj, ptr.path, pos)
            if self._havoc_loc(st, ptr) and bits:
                # contents of this region are written by code outside the model (asm kernels): a read returns an
                # arbitrary value (the access itself is still logged for the race obligations)
                return self.path_fresh(st, "havoc", bits, pos)
        return super().deref(st, ptr, pos, bits)

    def store(self, st, ptr, val, pos, bits=None):
        if self.track and not self.raw and ptr.obj is not None:
            self.log_access(st, "w", ptr.obj, ptr.path, pos)
            if self._havoc_loc(st, ptr):
                return None
        return super().store(st, ptr, val, pos, bits)

    def slice_read_all(self, st, s, pos):
        if self.track and not self.raw and s.obj is not None and not (type(s.len) is int and s.len == 0):
            self.log_access(st, "r", s.obj, s.path)
        return super().slice_read_all(st, s, pos)

    def bi_copy(self, st, dst, src, pos):
        if self.track and dst.obj is not None:
            self.log_access(st, "w", dst.obj, dst.path)
        return super().bi_copy(st, dst, src, pos)

    def bi_append(self, st, s, more, pos, ins):
        if self.track and s.obj is not None:
            self.log_access(st, "w", s.obj, s.path)
        return super().bi_append(st, s, more, pos, ins)

    # ---- obligations: sequential run-time panics are other lemmas' business ---------------------------------
    def oblige(self, st, cond, kind, msg, pos=None):
        if kind == "panic":
            cond = simp(cond)
            if cond is True:
                return True
            self.assumed_panics[(msg, pos)] = self.assumed_panics.get((msg, pos), 0) + 1
            return self.assume(st, cond)
        return super().oblige(st, cond, kind, msg, pos)

    # ---- control: only real loop back edges count as iterations (E2 counts every jump to a lower-numbered block, which
    #      makes the merge key history dependent) ------------------------------------------------------------------
    def back_edges(self, fn):
        be = fn.get("_backedges")
        if be is None:
            blocks = fn["blocks"]
            n = len(blocks)
            dom = [set(range(n)) for _ in range(n)]
            dom[0] = {0}
            changed = True
            while changed:
                changed = False
                for b in range(1, n):
                    ps = [p for p in blocks[b]["preds"]]
                    if not ps:
                        continue
                    new = set.intersection(*[dom[p] for p in ps]) | {b}
                    if new != dom[b]:
                        dom[b] = new
                        changed = True
            be = set()
            for b in range(n):
                for t in blocks[b]["succs"]:
                    if t in dom[b]:
                        be.add((b, t))
            fn["_backedges"] = be
            fn["_dom"] = dom
            defs = {}
            for b in blocks:
                for i in b["ins"]:
                    if "r" in i:
                        defs[i["r"]] = b["i"]
            fn["_defblk"] = defs
        return be

    def compact_pc(self, st, fr):
        """at a loop back edge: keep only the conjuncts of the path condition that (transitively) mention a symbol still
        reachable from the registers, the small heap objects or the recorded events. The state is feasible when this is
        called (no lazy feasibility), so dropping conjuncts over dead symbols only widens it (over-approximation)."""
        roots = []
        for f in st.frames:
            for v in f.env.values():
                _terms_of(v, roots)
        big = self.opts.get("e3_big_objects", 64)
        for k, v in st.mem.items():
            if type(v) is tuple and len(v) > big:
                continue
            _terms_of(v, roots)
        for e in st.notes.get("ev", ()):
            _terms_of(e.val, roots)
        keep = relevant_pc(st.pc, roots)
        if len(keep) < len(st.pc):
            self.compacted += len(st.pc) - len(keep)
            st.pc = keep

    def prune_dead(self, st):
        """drop registers of the top frame whose defining block does not dominate the current block (they cannot be used
        again); stale pointers in such registers would otherwise block state merging"""
        fr = st.top()
        fn = fr.fn
        self.back_edges(fn)
        dom = fn["_dom"][fr.blk]
        defs = fn["_defblk"]
        dead = [r for r in fr.env if r in defs and defs[r] not in dom]
        for r in dead:
            del fr.env[r]

    def goto(self, st, fr, target):
        if (fr.blk, target) in self.back_edges(fr.fn):
            if fr.iters is None:
                fr.iters = {}
            n = fr.iters.get(target, 0) + 1
            fr.iters[target] = n
            if n > self.max_iters:
                self.oblige(st, False, "unwind", "loop unwinding bound %d exceeded in %s" % (self.max_iters, fr.fn["name"]), fr.fn.get("pos"))
                st.status = "dead"
                return
            if fr.fn["name"] in self.merge_funcs:
                fr.tag = "head"
                if self.opts.get("e3_compact_pc", False):
                    self.compact_pc(st, fr)
        elif target <= fr.blk and fr.fn["name"] in self.merge_funcs:
            fr.tag = "head"         # join block: park for merging, no iteration count
        fr.prev = fr.blk
        fr.blk = target
        fr.ip = 0

    def op_phi(self, st, fr, ins):
        """loop-head widening (stated over-approximation): in the functions listed in e3_widen, a loop-carried integer
        whose value has become a compound symbolic term is replaced at the loop head by an unconstrained fresh symbol.
        The loop then sees a superset of the real values of that variable; dependencies between iterations are cut."""
        prev = fr.prev
        super().op_phi(st, fr, ins)
        fn = fr.fn
        if fn["name"] in self.widen and (prev, fr.blk) in self.back_edges(fn):
            blk = fn["blocks"][fr.blk]
            for p in blk["ins"]:
                if p["op"] != "phi":
                    break
                v = fr.env.get(p["r"])
                if z3.is_expr(v) and z3.is_bv(v) and not z3.is_const(v):
                    fr.env[p["r"]] = self.path_fresh(st, "w." + p["r"], v.size(), "%s:%d" % (fn["name"].split(".")[-1], fr.blk))
                    self.widened += 1

    # ---- calls -----------------------------------------------------------------------------------------------
    def do_call(self, st, fr, callee, args, dest, ins):
        a = self.alias.get(callee.name)
        if a is not None:
            callee = FuncV(a, callee.bindings)
        return super().do_call(st, fr, callee, args, dest, ins)

    # ---- channels --------------------------------------------------------------------------------------------
    def op_makechan(self, st, fr, ins):
        size = self.need_int(st, self.val(st, fr, ins["size"]), ins.get("pos"), "channel size")
        oid = st.alloc(ChanState(size), "chan")
        et = self.p.types[ins["t"]]["elem"]
        st.notes["chans"] = st.notes.get("chans", ()) + ((oid, (size, et, ins.get("pos"))),)
        fr.env[ins["r"]] = ChanV(oid)

    def builtin(self, st, fr, name, args, ins):
        if name == "close":
            ch = args[0]
            self.add_event(st, "close", ch=ch.obj, pos=ins.get("pos"))
            return None
        if name in ("len", "cap") and isinstance(args[0], ChanV):
            if name == "cap":
                return dict(st.notes.get("chans", ())).get(args[0].obj, (0,))[0]
            raise EngineError("len(chan) is schedule dependent: not modelled")
        return super().builtin(st, fr, name, args, ins)

    def candidates(self, st, ch, k, kind):
        """values the k-th receive of this thread on ch may take: own earlier sends first (a thread that both sends and
        receives on a channel sees them in FIFO order), then whatever the region's provider offers"""
        own = [e for e in st.notes.get("ev", ()) if e.kind in ("send", "trysend") and e.ch == ch and e.out != "default"]
        if own:
            if k <= len(own):
                e = own[k - 1]
                return [(e.val, (e.tid, e.i))]
            k2 = k - len(own)
        else:
            k2 = k
        if self.provider is not None:
            return self.provider(st, ch, k2, kind)
        return []

    def do_recv(self, st, fr, ch, ins, blocking):
        pos = ins.get("pos")
        commaok = ins.get("commaok")
        if ch.obj is None:
            self.stuck(st, "receive on nil channel", pos)
            return []
        k = self.count(st, "recv", ch.obj) + 1
        cands = self.candidates(st, ch.obj, k, "recv")
        if not cands:
            self.add_event(st, "recv", ch=ch.obj, k=k, pos=pos, src=None)
            self.stuck(st, "receive #%d on %s: no such send exists" % (k, ch.obj), pos)
            return []
        forks = []
        et = self.p.types[ins["t"]]
        for j, (v, src) in enumerate(cands):
            s = st if j == len(cands) - 1 else st.fork()
            f = s.top()
            if src == "closed":
                zt = ins["t"] if not commaok else et["elems"][0]
                z = self.p.zero(zt)
                self.add_event(s, "recv", ch=ch.obj, k=k, pos=pos, src="closed")
                f.env[ins["r"]] = (z, False) if commaok else z
            else:
                self.add_event(s, "recv", ch=ch.obj, k=k, val=v, pos=pos, src=src)
                f.env[ins["r"]] = (v, True) if commaok else v
            if s is not st:
                forks.append(s)
        return forks

    def op_select(self, st, fr, ins):
        return self.do_select(st, fr, ins)

    def do_select(self, st, fr, ins):
        """select: one fork per case that can fire (+ default). Result tuple: (index, recvOk, recv values...)"""
        sts = ins["states"]
        pos = ins.get("pos")
        tt = self.p.types[ins["t"]]
        nrecv = [s for s in sts if s["dir"] == 2]
        outs = []       # (case index, event builder)
        blocking = ins["blocking"]
        items = []
        for ci, s in enumerate(sts):
            ch = self.val(st, fr, s["chan"])
            if ch.obj is None:
                continue
            if s["dir"] == 2:
                k = self.count(st, "recv", ch.obj) + 1
                env = self.env_chans.get(ch.obj)
                if env == "send":
                    cands = [("env", "env")]
                else:
                    cands = self.candidates(st, ch.obj, k, "tryrecv")
                for v, src in cands:
                    items.append((ci, "recv", ch, k, v, src))
            else:
                k = self.count(st, "send", ch.obj) + 1
                x = self.val(st, fr, s["send"])
                items.append((ci, "send", ch, k, x, None))
        alone = not any(e.kind == "go" for e in st.notes.get("ev", ())) and st.notes.get("tid", "0") == "0"
        own_ready = alone and any(what == "recv" and isinstance(src, tuple) and src[0] == st.notes.get("tid", "0") for (_, what, _, _, _, src) in items)
        if not blocking and not own_ready:
            # (while no other goroutine exists, a buffered value this thread sent itself is certainly still there:
            #  `default` is impossible then and is not explored)
            items.append((-1, "default", None, None, None, None))
        if not items:
            self.add_event(st, "select", pos=pos, src=None)
            self.stuck(st, "select with no case that can ever fire", pos)
            return []
        forks = []
        kind_block = "select" if blocking and len(sts) > 1 else None
        for j, (ci, what, ch, k, v, src) in enumerate(items):
            s = st if j == len(items) - 1 else st.fork()
            f = s.top()
            res = [ci & M(64) if ci >= 0 else M(64), False]
            # one slot per receive case, in order
            ri = 0
            vals = []
            for cj, sd in enumerate(sts):
                if sd["dir"] == 2:
                    vals.append(self.p.zero(tt["elems"][2 + ri]))
                    ri += 1
            if what == "recv":
                pos_r = [cj for cj, sd in enumerate(sts) if sd["dir"] == 2].index(ci)
                if src == "closed":
                    self.add_event(s, "tryrecv" if not blocking else "recv", ch=ch.obj, k=k, pos=pos, src="closed", out="closed", info=("sel", ci))
                elif src == "env":
                    v = self.env_value(s, ch.obj, tt["elems"][2 + pos_r], pos)
                    self.add_event(s, "tryrecv" if not blocking else "recv", ch=ch.obj, k=k, val=v, pos=pos, src="env", out="recv", info=("sel", ci))
                    vals[pos_r] = v
                    res[1] = True
                else:
                    self.add_event(s, "tryrecv" if not blocking else "recv", ch=ch.obj, k=k, val=v, vt=self.chan_elem(s, ch.obj), pos=pos, src=src, out="recv", info=("sel", ci))
                    vals[pos_r] = v
                    res[1] = True
            elif what == "send":
                self.add_event(s, "trysend" if not blocking else "send", ch=ch.obj, k=k, val=v, vt=self.chan_elem(s, ch.obj), pos=pos, out="sent", info=("sel", ci))
            else:
                # default: record against every channel of the select (the encoder needs to know which sends had not happened)
                chs = []
                for sd in sts:
                    c2 = self.val(s, f, sd["chan"])
                    if c2.obj is not None:
                        kk = self.count(s, "recv" if sd["dir"] == 2 else "send", c2.obj) + 1
                        chs.append((c2.obj, "recv" if sd["dir"] == 2 else "send", kk))
                self.add_event(s, "tryrecv" if any(sd["dir"] == 2 for sd in sts) else "trysend", pos=pos, out="default", info=("default", tuple(chs)),
                               ch=chs[0][0] if chs else None, k=chs[0][2] if chs else None)
            f.env[ins["r"]] = tuple(res + vals)
            if s is not st:
                forks.append(s)
        return forks

    def env_value(self, st, ch, tid, pos):
        raise EngineError("receive from an environment channel needs a region-specific value model")

    # ---- state merging with event lists ------------------------------------------------------------------------
    def merge_group(self, group):
        """merge siblings first: states are ordered by their path-condition (identity) sequence so that those sharing the
        longest prefix are adjacent, and merged as a stack; the guards then stay local to the latest fork"""
        if len(group) < 2:
            return list(group)
        group = sorted(group, key=lambda s: [id(c) for c in s.pc])
        out = []
        for s in group:
            cur = s
            while out:
                m = self.try_merge(out[-1], cur)
                if m is None:
                    break
                out.pop()
                cur = m
                self.merges += 1
            out.append(cur)
        if len(out) > 1:
            out = super().merge_group(out)
        return out

    def ite_typed(self, c, a, b, tid):
        if a is b or (z3.is_expr(a) and z3.is_expr(b) and a.get_id() == b.get_id()):
            return a
        return super().ite_typed(c, a, b, tid)

    def ite_val(self, c, a, b, bits=None):
        if a is b or (z3.is_expr(a) and z3.is_expr(b) and a.get_id() == b.get_id()):
            return a
        return super().ite_val(c, a, b, bits)

    def try_merge(self, a, b):
        """E2's try_merge re-done for E3: (i) registers that are dead at the merge point are dropped first; (ii) the guard
        of the ite's is the *difference* of the two path-condition suffixes (conjuncts both sides share are factored out),
        which keeps guards from nesting across loop iterations; (iii) event lists must have the same shape, payloads are
        ite-merged; access summaries are united; per-site symbol counters take the maximum."""
        ea, eb = a.notes.get("ev", ()), b.notes.get("ev", ())
        if len(ea) != len(eb) or len(a.frames) != len(b.frames):
            return None
        for x, y in zip(ea, eb):
            if x is not y and x.shape() != y.shape():
                return None
        for key in ("spawn", "tid", "nchild", "stuck", "chans"):
            va, vb = a.notes.get(key), b.notes.get(key)
            if va is not vb and va != vb:
                return None
        if len(a.nondet) != len(b.nondet) or any(x[1] is not y[1] and not (type(x[1]) is int and x[1] == y[1]) for x, y in zip(a.nondet, b.nondet)):
            return None
        fa, fb = a.frames[-1], b.frames[-1]
        if fa.fn is not fb.fn or fa.blk != fb.blk or fa.ip != fb.ip:
            return None
        n = 0
        k = min(len(a.pc), len(b.pc))
        while n < k and a.pc[n] is b.pc[n]:
            n += 1
        ra, rb = a.pc[n:], b.pc[n:]
        if not ra or not rb:
            return None
        ida = {c.get_id() for c in ra}
        idb = {c.get_id() for c in rb}
        common = [c for c in ra if c.get_id() in idb]
        xa = [c for c in ra if c.get_id() not in idb]
        xb = [c for c in rb if c.get_id() not in ida]
        if not xa or not xb:
            return None
        ga = z3.And(xa) if len(xa) != 1 else xa[0]
        gb = z3.And(xb) if len(xb) != 1 else xb[0]
        try:
            self.prune_dead(a)
            self.prune_dead(b)
            fa, fb = a.frames[-1], b.frames[-1]
            env = {}
            fn = fa.fn
            for r in set(fa.env) | set(fb.env):
                if r in fa.env and r in fb.env:
                    va, vb = fa.env[r], fb.env[r]
                    env[r] = va if va is vb else self.ite_typed(gb, vb, va, self.regtype(fn, r))
                else:
                    env[r] = fa.env.get(r, fb.env.get(r))
            for i in range(len(a.frames) - 1):
                xfa, xfb = a.frames[i], b.frames[i]
                if xfa is xfb:
                    continue
                if xfa.fn is not xfb.fn or xfa.blk != xfb.blk or xfa.ip != xfb.ip:
                    return None
                for r in set(xfa.env) | set(xfb.env):
                    if xfa.env.get(r) is not xfb.env.get(r):
                        va, vb = xfa.env.get(r), xfb.env.get(r)
                        if type(va) in (int, bool) and va == vb:
                            continue
                        return None
            mem = {}
            for key in set(a.mem) | set(b.mem):
                if key in a.mem and key in b.mem:
                    va, vb = a.mem[key], b.mem[key]
                    mem[key] = va if va is vb else self.ite_typed(gb, vb, va, a.otype.get(key, b.otype.get(key)))
                else:
                    mem[key] = a.mem.get(key, b.mem.get(key))
            evs = []
            for x, y in zip(ea, eb):
                if x is y or x.val is y.val:
                    evs.append(x)
                elif x.vt is not None:
                    evs.append(x.with_val(self.ite_typed(gb, y.val, x.val, x.vt)))
                else:
                    evs.append(x.with_val(self.ite_val(gb, y.val, x.val, 64)))
            res = a.notes.get("result")
            rb2 = b.notes.get("result")
            if res is not rb2:
                res = self.ite_val(gb, rb2, res, None)
        except EngineError:
            return None
        s = a.fork()
        s.mem = mem
        top = fa.copy(s.id)
        top.env = env
        its = dict(fa.iters or {})
        for k2, v2 in (fb.iters or {}).items():
            its[k2] = max(its.get(k2, 0), v2)
        top.iters = its or None
        s.frames[-1] = top
        disj = simp(z3.Or(ga, gb))
        s.pc = a.pc[:n] + common + ([] if disj is True else [bl(disj)])
        s.nobj = max(a.nobj, b.nobj)
        ot = dict(b.otype)
        ot.update(a.otype)
        s.otype = ot
        s.reached = list(dict.fromkeys(a.reached + b.reached))
        s.steps = max(a.steps, b.steps)
        s.notes["ev"] = tuple(evs)
        if res is not None:
            s.notes["result"] = res
        s.notes["acc"] = (a.notes.get("acc") or frozenset()) | (b.notes.get("acc") or frozenset())
        pa, pb = a.notes.get("accpos"), b.notes.get("accpos")
        if pb and pa is not pb:
            ap = dict(pb)
            ap.update(pa or {})
            s.notes["accpos"] = ap
        ca, cb = a.notes.get("nfc", {}), b.notes.get("nfc", {})
        if ca is not cb:
            s.notes["nfc"] = {k3: max(ca.get(k3, 0), cb.get(k3, 0)) for k3 in set(ca) | set(cb)}
        return s


# ---------------------------------------------------------------------------------------------------------------
class Region:
    """drives the extraction of one concurrent region: main thread first, then the spawned threads in order"""

    def __init__(self, prog, entry, opts=None, intr=None, engine_cls=E3Engine):
        self.prog = prog
        self.entry = entry
        self.opts = dict(opts or {})
        self.intr = intr or E3Intrinsics()
        self.eng = engine_cls(prog, self.intr, self.opts)
        self.eng.keep_final = True
        self.eng.stop_after_violations = 10 ** 9
        self.eng.run_init()
        self.t_extract = 0.0

    def _collect(self, tid, finals):
        out = []
        for s in finals:
            if s.status not in ("done",):
                continue
            status = "stuck" if s.notes.get("stuck") else "done"
            out.append(Trace(tid, s, status))
        return out

    def run_main(self):
        t0 = time.time()
        st = self.eng.start(self.prog.main + "." + self.entry)
        st.notes["tid"] = "0"
        self.eng.provider = None
        fin = self.eng.explore([st])
        self.t_extract += time.time() - t0
        return self._collect("0", fin)

    def run_child(self, parent, spawn, sources, extra_pc=()):
        """spawn = (child id, callee, args, snapshot); sources = traces whose sends this thread may receive"""
        t0 = time.time()
        cid, callee, args, snap = spawn
        st = snap.fork()
        st.frames = []
        st.pc = list(parent.pc) + list(extra_pc)
        st.nondet = []
        per_thread = ("ev", "acc", "accpos", "spawn", "nchild", "stuck", "result", "nfc", "tid", "marks")
        st.notes = {k: v for k, v in snap.notes.items() if k not in per_thread}
        st.notes["tid"] = cid
        st.nobj = snap.nobj + 1000000 * (1 + sum(ord(c) for c in cid))
        st.status = "run"
        fn = self.prog.funcs.get(callee.name)
        if fn is None:
            raise EngineError("goroutine body without lowered code: %s" % callee.name)
        nfr = self.eng.push_call(st, callee.name, list(args), None)
        if callee.bindings:
            for fv, b in zip(fn["freevars"], callee.bindings):
                nfr.env[fv["n"]] = b

        def provider(s, ch, k, kind):
            senders = [t for t in sources if t.sends(ch)]
            closed = [(t, e) for t in sources for e in t.events if e.kind == "close" and e.ch == ch]
            if len(senders) <= 1:
                sd = senders[0].sends(ch) if senders else []
                if k <= len(sd):
                    e = sd[k - 1]
                    return [(e.val, (e.tid, e.i))]
                if closed:
                    return [(None, "closed")]
                return []
            # several sending threads: the next unreceived send of each is a candidate (the encoder checks the order)
            taken = {}
            for e in s.notes.get("ev", ()):
                if e.kind in ("recv", "tryrecv") and e.ch == ch and isinstance(e.src, tuple):
                    taken[e.src[0]] = taken.get(e.src[0], 0) + 1
            out = []
            for t in senders:
                sd = t.sends(ch)
                n = taken.get(t.tid, 0)
                if n < len(sd):
                    out.append((sd[n].val, (sd[n].tid, sd[n].i)))
            if not out and closed:
                return [(None, "closed")]
            return out
        self.eng.provider = provider
        fin = self.eng.explore([st])
        self.t_extract += time.time() - t0
        trs = self._collect(cid, fin)
        for t in trs:
            t.parent = parent
        return trs


def dedupe(traces, with_pc=True, with_pos=True):
    """merge traces whose event shapes and payloads (and, with_pc, the payload-relevant part of the path condition) coincide
    up to renaming of symbols. The representative gets the UNION of the access summaries (a superset of accesses is an
    over-approximation for the race obligations) and keeps every alternative as (result, pc, label) in .alts"""
    seen = {}
    out = []
    for t in traces:
        k = canon(t, with_pc, with_pos)
        r = seen.get(k)
        if r is not None:
            r.alts.append(t)
            r.acc = r.acc | t.acc
            for kk, vv in t.accpos.items():
                r.accpos.setdefault(kk, vv)
            r.otype.update(t.otype)
            continue
        t.alts = [t]
        seen[k] = t
        out.append(t)
    return out


def _terms_of(v, acc):
    if z3.is_expr(v):
        acc.append(v)
    elif type(v) is tuple:
        for x in v:
            _terms_of(x, acc)
    elif isinstance(v, (PtrV,)):
        for x in v.path:
            _terms_of(x, acc)
    elif isinstance(v, SliceV):
        for x in (v.off, v.len, v.cap):
            _terms_of(x, acc)
    elif isinstance(v, IfaceV):
        _terms_of(v.val, acc)


def consts_of(t, out):
    stack = [t]
    seen = set()
    while stack:
        x = stack.pop()
        i = x.get_id()
        if i in seen:
            continue
        seen.add(i)
        if z3.is_const(x) and x.decl().kind() == z3.Z3_OP_UNINTERPRETED:
            out[x.decl().name()] = x
        else:
            stack.extend(x.children())
    return out


_NAMES = {}
_NAMES_KEEP = []


def names_of(t):
    """names of the uninterpreted constants of a term (cached by AST id; the term is kept alive so ids stay unique)"""
    i = t.get_id()
    ns = _NAMES.get(i)
    if ns is None:
        ns = frozenset(consts_of(t, {}))
        _NAMES[i] = ns
        _NAMES_KEEP.append(t)
    return ns


def relevant_pc(pc, roots):
    """cone of influence: conjuncts of pc that (transitively) share a symbol with the root terms"""
    want = set()
    for r in roots:
        want |= names_of(r)
    rest = [(c, names_of(c)) for c in pc]
    keep = []
    changed = True
    while changed:
        changed = False
        nxt = []
        for c, ns in rest:
            if ns & want:
                keep.append(c)
                if not ns <= want:
                    want |= ns
                changed = True
            else:
                nxt.append((c, ns))
        rest = nxt
    order = {c.get_id(): i for i, c in enumerate(pc)}
    keep.sort(key=lambda c: order[c.get_id()])
    return keep


def payload_terms(trace):
    acc = []
    for e in trace.events:
        _terms_of(e.val, acc)
    if trace.result is not None:
        _terms_of(trace.result, acc)
    for (_, _, _, path) in trace.acc:
        for p in path:
            if type(p) is tuple:
                acc.append(SYM_TERMS[p[1]])
    return acc


def canon(trace, with_pc=True, with_pos=True):
    roots = []
    for e in trace.events:
        _terms_of(e.val, roots)
    accs = []
    pcs = relevant_pc(trace.pc, roots) if with_pc else []
    order = []
    seen = set()
    for r in roots + pcs:
        d = {}
        consts_of(r, d)
        for n in sorted(d, key=lambda n: d[n].get_id()):
            if n not in seen:
                seen.add(n)
                order.append(d[n])
    sub = []
    for i, c in enumerate(order):
        if z3.is_bool(c):
            sub.append((c, z3.Bool("c!%d" % i)))
        else:
            sub.append((c, z3.BitVec("c!%d" % i, c.size())))

    def s(t):
        return z3.substitute(t, *sub).sexpr() if sub else t.sexpr()
    vals = []
    for e in trace.events:
        a = []
        _terms_of(e.val, a)
        vals.append(tuple(s(x) for x in a) + (repr(e.val) if not a else "",))
    return (trace.signature(with_pos), tuple(vals), tuple(sorted(s(c) for c in pcs)),
            tuple(sorted((seg, k, o, tuple(p if type(p) is int else s(SYM_TERMS[p[1]]) for p in path)) for seg, k, o, path in accs)))
