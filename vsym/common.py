"""Shared plumbing for all checks: Go environment, scratch dirs, evidence writer,
known-findings handling, native replay through `go test -overlay`, solver portfolio.

Every check module under vsym/props exposes  run(ctx) ; ctx is a CheckCtx.
"""
import atexit, hashlib, json, os, shutil, subprocess, sys, tempfile, time

VERIF = os.path.dirname(os.path.dirname(os.path.abspath(__file__)))
REPO = os.environ.get("VERIF_REPO", "/repo")
PKG = "github.com/minio/simdjson-go"

GOENV = dict(os.environ)
GOENV.update({
    "GOFLAGS": "-mod=mod", "GOPROXY": "off", "GOSUMDB": "off", "GOTOOLCHAIN": "local",
    "GONOSUMDB": "*", "GONOSUMCHECK": "1", "GOFLAGS_EXTRA": "",
})

_scratch = []


def scratch(prefix="verif-"):
    base = "/var/tmp"
    d = tempfile.mkdtemp(prefix=prefix, dir=base)
    _scratch.append(d)
    return d


def _cleanup():
    for d in _scratch:
        shutil.rmtree(d, ignore_errors=True)


atexit.register(_cleanup)


def sh(cmd, cwd=None, env=None, timeout=None, check=True, input=None):
    r = subprocess.run(cmd, cwd=cwd, env=env or GOENV, timeout=timeout, input=input,
                       stdout=subprocess.PIPE, stderr=subprocess.STDOUT, text=True,
                       shell=isinstance(cmd, str))
    if check and r.returncode != 0:
        raise RuntimeError("command failed (%d): %s\n%s" % (r.returncode, cmd, r.stdout[-4000:]))
    return r


def file_sha(path):
    h = hashlib.sha256()
    with open(path, "rb") as f:
        h.update(f.read())
    return h.hexdigest()[:16]


def repo_file_hashes(names):
    out = {}
    for n in names:
        p = os.path.join(REPO, n)
        if os.path.exists(p):
            out[n] = file_sha(p)
    return out


class Inconclusive(Exception):
    """Engine error / solver unknown / unwinding failure: never a pass."""


class Violation(Exception):
    def __init__(self, what, witness=None):
        super().__init__(what)
        self.what = what
        self.witness = witness


# ---------------------------------------------------------------------------------------
# known findings

def load_known_findings():
    p = os.path.join(VERIF, "known_findings.jsonl")
    out = []
    if os.path.exists(p):
        for line in open(p):
            line = line.strip()
            if not line or line.startswith("#"):
                continue
            out.append(json.loads(line))
    return out


# ---------------------------------------------------------------------------------------
# evidence

class CheckCtx:
    def __init__(self, prop, tier, seed):
        self.prop = prop
        self.tier = tier
        self.seed = seed
        self.t0 = time.time()
        self.lemmas = []          # dicts: name, verdict, queries, solver_s, paths, bounds, note
        self.functions = {}       # name -> {instrs, src_hash}
        self.assumptions = []
        self.stubs = set()
        self.bounds = {}
        self.samples = []
        self.violations = []      # (what, replay path)
        self.known_hits = []      # known-finding lines printed
        self.inconclusive = []
        self.queries = 0
        self.nontrivial = 0
        self.solver_s = 0.0
        self.states = 0
        self.transitions = 0
        self.replays = 0
        self.vacuity = {}
        self.scaled = {}
        self.level = "model_checking"
        self.extra = {}
        self.known = [k for k in load_known_findings() if k.get("property") == prop]

    # -- bookkeeping used by engines -----------------------------------------------
    def log(self, *a):
        print("[%s %6.1fs]" % (self.prop, time.time() - self.t0), *a, flush=True)

    def add_lemma(self, name, verdict, **kw):
        d = {"name": name, "verdict": verdict}
        d.update(kw)
        self.lemmas.append(d)
        self.log("lemma %-28s %s %s" % (name, verdict,
                 " ".join("%s=%s" % (k, v) for k, v in kw.items() if k in ("paths", "queries", "solver_s", "bound"))))

    def assume(self, text):
        if text not in self.assumptions:
            self.assumptions.append(text)

    def sample(self, obj):
        if len(self.samples) < 12:
            self.samples.append(obj)

    def known_finding(self, fid):
        for k in self.known:
            if k.get("id") == fid and k.get("status") == "finding":
                return k
        return None

    def report_known(self, k):
        line = "KNOWN-FINDING: property=%s %s" % (self.prop, k["what"])
        if line not in self.known_hits:
            self.known_hits.append(line)
            print(line, flush=True)

    def report_violation(self, what, witness):
        rdir = os.path.join(os.environ.get("VERIF_EVIDENCE_DIR") or os.path.join(VERIF, "replays"), self.prop)
        os.makedirs(rdir, exist_ok=True)
        n = len(self.violations)
        path = os.path.join(rdir, "%s-%d.json" % (self.tier, n))
        with open(path, "w") as f:
            json.dump({"property": self.prop, "what": what, "witness": witness}, f, indent=1, default=str)
        self.violations.append((what, path))
        print("VIOLATION property=%s replay=%s" % (self.prop, path), flush=True)
        print("  " + what, flush=True)

    def report_inconclusive(self, what):
        self.inconclusive.append(what)
        print("INCONCLUSIVE property=%s obligation=%s" % (self.prop, what), flush=True)

    # -- output ---------------------------------------------------------------------
    def write_evidence(self):
        obligations = len(self.lemmas)
        discharged = sum(1 for l in self.lemmas if l["verdict"] in ("unsat", "holds", "known-finding"))
        cov = {
            "states": max(1, self.states),
            "transitions": max(1, self.transitions),
            "traces_validated_against_impl": self.replays,
            "evaluations": max(1, self.queries),
            "distinct_nontrivial": max(self.nontrivial, 0),
            "rule": "one evaluation = one SMT query (feasibility, obligation or vacuity witness) issued while "
                    "symbolically executing the real code; non-trivial = obligation queries that needed the solver "
                    "(not closed by term simplification) and are distinct by (lemma, path id, obligation site)",
            "obligations": obligations,
            "discharged": discharged,
            "checker_cmd": "./check %s --tier %s" % (self.prop, self.tier),
            "trusted_base": ["z3 5.1.0 (python API)", "go/ssa (x/tools v0.29.0)", "llvm-objdump-14 (E1 only)",
                             "vsym executors (validated per run against native execution, see translator_validation)"],
            "samples": self.samples or [{"note": "no sample recorded"}],
            "lemmas": self.lemmas,
            "functions_encoded": self.functions,
            "bounds": self.bounds,
            "scaled_constants": self.scaled,
            "stubs": sorted(self.stubs),
            "vacuity_witnesses": self.vacuity,
            "solver_s": round(self.solver_s, 2),
            "solvers": {"z3py": _z3_version()},
            "inconclusive": self.inconclusive,
            "known_findings_reported": self.known_hits,
            "exhaustive": False,
            "explanation": "bounded symbolic execution of the repository's code (regenerated from /repo on this run) "
                           "with SMT; 'unsat' = holds for every value inside the stated bounds, nothing is claimed outside",
        }
        cov.update(self.extra)
        ev = {
            "property_id": self.prop, "tier": self.tier, "seed": self.seed, "level": self.level,
            "coverage": cov, "assumptions": self.assumptions, "wall_s": round(time.time() - self.t0, 2),
            "violations": len(self.violations),
        }
        evdir = os.environ.get("VERIF_EVIDENCE_DIR") or os.path.join(VERIF, "evidence")
        os.makedirs(evdir, exist_ok=True)
        p = os.path.join(evdir, self.prop + ".json")
        with open(p + ".tmp", "w") as f:
            json.dump(ev, f, indent=1, default=str)
        os.replace(p + ".tmp", p)
        return p

    def exit_code(self):
        if self.violations:
            return 1
        if self.inconclusive:
            return 2
        return 0


def _z3_version():
    try:
        import z3
        return z3.get_version_string()
    except Exception:
        return "?"


# ---------------------------------------------------------------------------------------
# native replay

def go_test_overlay(files, run, timeout=600, tags=None, extra_env=None, extra_args=()):
    """files: {virtual name in /repo: source text}. Runs `go test -run <run>` on /repo with
    an overlay; returns (returncode, output)."""
    d = scratch("verif-replay-")
    repl = {}
    for name, text in files.items():
        real = os.path.join(d, name.replace("/", "_"))
        with open(real, "w") as f:
            f.write(text)
        repl[os.path.join(REPO, name)] = real
    ov = os.path.join(d, "overlay.json")
    with open(ov, "w") as f:
        json.dump({"Replace": repl}, f)
    env = dict(GOENV)
    env["GOCACHE"] = os.environ.get("GOCACHE", os.path.expanduser("~/.cache/go-build"))
    if extra_env:
        env.update(extra_env)
    cmd = ["go", "test", "-v", "-vet=off", "-count=1", "-overlay", ov, "-run", run, "-timeout", "%ds" % timeout]
    if tags:
        cmd += ["-tags", tags]
    cmd += list(extra_args or ())
    cmd += ["."]
    r = subprocess.run(cmd, cwd=REPO, env=env, stdout=subprocess.PIPE, stderr=subprocess.STDOUT, text=True,
                       timeout=timeout + 60)
    shutil.rmtree(d, ignore_errors=True)
    return r.returncode, r.stdout
