"""Stage-2 lemma sets (E2): P1/P3 (unifiedMachine vs the reference parser), shared by C01, C02, C05, C08, C15, C17."""
from .e2.checklib import Lemma
from .e2.intr_stage2 import Stage2SummIntrinsics, Stage2Intrinsics

FP3 = ["zz_verif_tape.go", "zz_verif_wf.go", "zz_verif_t1.go", "zz_verif_p3.go"]
PN = "github.com/minio/simdjson-go.parseNumber"


def p3_lemmas(tier, wf_only=False, ndjson=(0, 1), ks=None):
    """(K, width set, ndjson, copy) plans; K tokens incl. the final closer"""
    plan = []
    for nd in ndjson:
        if tier == "quick":
            plan += [(2, 0, nd, 1), (2, 0, nd, 0), (3, 0, nd, 1), (3, 0, nd, 0), (5, 1, nd, 1)]
        else:
            plan += [(K, 0, nd, cp) for K in (2, 3, 4) for cp in (1, 0)] + [(5, 1, nd, 1), (5, 1, nd, 0), (6, 1, nd, 1), (7, 1, nd, 1)]
    if ks is not None:
        plan = [p for p in plan if p[0] in ks]
    ls = []
    for K, wset, nd, cp in plan:
        gaps = "{1,2,4,5,8}" if wset == 0 else "{1,4,5}"
        ls.append(Lemma("P3.machine.K%d%s.%s.%s" % (K, "" if wset == 0 else "n", "ndjson" if nd else "json", "copy" if cp else "nocopy"),
                        "verifHarness_P3_Machine", FP3, splits=[{"K": K - 2, "wset": wset, "ndjson": nd, "copy": cp}],
                        split_depth=("auto" if K >= 3 else 0), intr=Stage2SummIntrinsics,
                        desc="unifiedMachine (real updateChar/peekSize over a pre-filled index channel split at arbitrary markup "
                             "points, real atom checkers, addNumber, parseString wrapper) on every message with %d structural "
                             "tokens at gaps from %s bytes, all bytes symbolic subject to REF-SCAN(message) = layout: "
                             "verdict = general reference parser; on accept: scope stack empty, tape well-formed, tape = "
                             "reference document under the traversal APIs, copy mode => every string flagged" % (K, gaps),
                        bound="%d structural tokens, gaps %s, message <= %d bytes; strings without escapes (escapes: lemmas S); parseNumber "
                              "= its summary (lemma P2)" % (K, gaps, (8 if wset == 0 else 5) * (K - 1) + 1),
                        expect_reach=["P3.returned"]))
    return ls
