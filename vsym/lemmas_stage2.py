"""Stage-2 lemma sets (E2): P1/P3 (unifiedMachine vs the reference parser), shared by C01, C02, C05, C08, C15, C17."""
from .e2.checklib import Lemma
from .e2.intr_stage2 import Stage2SummIntrinsics, Stage2Intrinsics, Stage2EscIntrinsics

FP3 = ["zz_verif_tape.go", "zz_verif_wf.go", "zz_verif_t1.go", "zz_verif_p3.go"]
PN = "github.com/minio/simdjson-go.parseNumber"


def p3_lemmas(tier, wf_only=False, ndjson=(0, 1), ks=None):
    """(K, width set, ndjson, copy) plans; K tokens incl. the final closer"""
    plan = []
    for nd in ndjson:
        if tier == "quick":
            plan += [(2, 0, nd, 1), (2, 0, nd, 0), (3, 0, nd, 1), (3, 0, nd, 0)]
        else:
            plan += [(K, 0, nd, cp) for K in (2, 3, 4) for cp in (1, 0)] + [(5, 1, nd, 1), (5, 2, nd, 0), (7, 2, nd, 1), (7, 2, nd, 0), (9, 2, nd, 1)]
    if ks is not None:
        plan = [p for p in plan if p[0] in ks]
    ls = []
    for K, wset, nd, cp in plan:
        gaps = {0: "{1,2,4,5,8}", 1: "{1,4,5}", 2: "alternating 1 and {4,5}"}[wset]
        ls.append(Lemma("P3.machine.K%d%s.%s.%s" % (K, {0: "", 1: "n", 2: "alt"}[wset], "ndjson" if nd else "json", "copy" if cp else "nocopy"),
                        "verifHarness_P3_Machine", FP3, splits=[{"K": K - 2, "wset": wset, "ndjson": nd, "copy": cp}],
                        split_depth=("auto" if K >= 3 else 0), intr=Stage2SummIntrinsics,
                        desc="unifiedMachine (real updateChar/peekSize over a pre-filled index channel split at arbitrary markup "
                             "points, real atom checkers, addNumber, parseString wrapper) on every message with %d structural "
                             "tokens at gaps from %s bytes, all bytes symbolic subject to REF-SCAN(message) = layout: "
                             "verdict = general reference parser; on accept: tape well-formed, tape = "
                             "reference document under the traversal APIs, copy mode => every string flagged" % (K, gaps),
                        bound="%d structural tokens, gaps %s, message <= %d bytes; strings without escapes (escapes: lemmas S); parseNumber "
                              "= its summary (lemma P2)" % (K, gaps, (8 if wset == 0 else 5) * (K - 1) + 1),
                        expect_reach=["P3.returned"]))
    if tier != "quick" and ks is None:
        # cross-check of the composition: the same harness with the REAL parseNumber (merged) instead of its summary
        for K in (2, 3):
            ls.append(Lemma("P3.machine.K%d.json.copy.realnum" % K, "verifHarness_P3_Machine", FP3,
                            splits=[{"K": K - 2, "wset": 0, "ndjson": 0, "copy": 1}], split_depth=("auto" if K >= 3 else 0),
                            intr=Stage2Intrinsics, opts={"merge_funcs": [PN]},
                            desc="as P3.machine.K%d with the real parseNumber (state-merged, strconv as contracts) on both the implementation "
                                 "and the reference side instead of the uninterpreted number oracle" % K,
                            bound="%d structural tokens, message <= %d bytes" % (K, 8 * (K - 1) + 1), expect_reach=["P3.returned"]))
    return ls


FU1 = ["zz_verif_tape.go", "zz_verif_wf.go", "zz_verif_t1.go", "zz_verif_p3.go", "zz_verif_u1.go"]
SCALE_U1 = {"indexSize": "131"}     # indexSizeWithSafetyBuffer = indexSize-128 = 3: index buffers are handed over after >= 3 entries


def u1_lemmas(tier, ndjson=(0, 1), havoc=(0, 1)):
    plan = []
    for nd in ndjson:
        for hv in havoc:
            if tier == "quick":
                ks = (2, 3) if (hv == 0 or nd == 0) else (2,)
            else:
                ks = (2, 3, 4) if hv == 0 else (2, 3)
            for K in ks:
                plan.append((K, nd, hv))
    ls = []
    for K, nd, hv in plan:
        ls.append(Lemma("U1.parseMessage.K%d.%s.%s" % (K, "ndjson" if nd else "json", "havoc" if hv else "fresh"),
                        "verifHarness_U1_ParseMessage", FU1,
                        splits=[{"K": K - 2, "ndjson": nd, "havoc": hv, "copy": cp, "wide": 0} for cp in ((1,) if (tier == "quick" or K >= 4) else (1, 0))],
                        split_depth="auto", intr=Stage2SummIntrinsics, scale=SCALE_U1,
                        desc="the whole synchronous parseMessage path on every message with %d structural tokens at gaps from {1,5,61} "
                             "bytes (so messages span up to %d 64-byte blocks and, with the index limit scaled to 3, several index "
                             "buffers with strip/restore of a dangling index), optional surrounding white space, both string modes, "
                             "%s; stage-1 kernel = its contract (lemmas A1-A7) incl. an injected error bit at any kernel call; "
                             "outcome = reference parser, tape well-formed and read back, index channel empty on every exit" % (
                                 K, (61 * (K - 1)) // 64 + 1, "every reusable field of the ParsedJson havoc'd" if hv else "fresh ParsedJson"),
                        bound="%d tokens, message <= %d bytes; index limit scaled 1408 -> 3 (indexSize 1536 -> 131); strings without escapes; "
                              "parseNumber = its summary" % (K, 61 * (K - 1) + 1),
                        expect_reach=["U1.returned"]))
    # index limit 2: with three tokens the first index buffer is handed over after two entries, the second of which may be a
    # dangling non-markup index (a string or scalar start) that has to be stripped and re-sent with the next buffer
    for nd in ndjson:
        if 0 in havoc:
            ls.append(Lemma("U1.parseMessage.K3.%s.fresh.limit2" % ("ndjson" if nd else "json"), "verifHarness_U1_ParseMessage", FU1,
                            splits=[{"K": 1, "ndjson": nd, "havoc": 0, "copy": 1, "wide": 1}], split_depth="auto", intr=Stage2SummIntrinsics,
                            scale={"indexSize": "130"},
                            desc="as U1.parseMessage with the index limit scaled to 2, so that 3-token messages with gaps from {1,5,131} (up to 5 blocks) "
                                 "exercise the hand-over of an index buffer that ends on a non-markup index (strip, restore, position bookkeeping)",
                            bound="3 tokens, message <= 263 bytes; index limit scaled 1408 -> 2 (indexSize 1536 -> 130)", expect_reach=["U1.returned"]))
        if 1 in havoc and (tier != "quick" or nd == 0):
            ls.append(Lemma("U1.parseMessage.K3.%s.havoc.limit2" % ("ndjson" if nd else "json"), "verifHarness_U1_ParseMessage", FU1,
                            splits=[{"K": 1, "ndjson": nd, "havoc": 1, "copy": 1, "wide": 1}], split_depth="auto", intr=Stage2SummIntrinsics,
                            scale={"indexSize": "130"},
                            desc="as U1.parseMessage.*.fresh.limit2 with every reusable field of the ParsedJson havoc'd: several index buffers are "
                                 "pending when stage 2 fails early, and the channel must be empty again on every exit for the next call",
                            bound="3 tokens, message <= 263 bytes; index limit scaled 1408 -> 2 (indexSize 1536 -> 130)", expect_reach=["U1.returned"]))
    # the asynchronous branch of parseMessage (messages above the 8 KiB threshold, here scaled to 16 bytes): stage-2 goroutine,
    # its error/drain logic and the final verdict, under the sequential schedule
    for nd in ndjson:
        if 0 in havoc:
            ls.append(Lemma("U1.parseMessage.K3.%s.fresh.limit2.async" % ("ndjson" if nd else "json"), "verifHarness_U1_ParseMessage", FU1,
                            splits=[{"K": 1, "ndjson": nd, "havoc": 0, "copy": 1, "wide": 1}], split_depth="auto", intr=Stage2SummIntrinsics,
                            scale={"indexSize": "130", "lit:8 << 10": "16"},
                            desc="as U1.parseMessage.*.limit2 with the sync/async threshold scaled from 8 KiB to 16 bytes: every message longer than that "
                                 "takes the concurrent branch (stage-2 goroutine, 'keep consuming' drain, error hand-over through the named result, "
                                 "wg.Wait); executed under the sequential schedule (stage 1 to its end, then the goroutine); every other "
                                 "interleaving gives the same outcome by Q1 (C07)",
                            bound="3 tokens, message <= 263 bytes; index limit 1408 -> 2; async threshold 8192 -> 16 bytes; one schedule",
                            expect_reach=["U1.returned"]))
            ls[-1].optional = True
    return ls


def u3_lemmas(tier, ndjson=(0, 1)):
    """the stage-1 driver alone on free layouts (U3)"""
    ls = []
    for limit, isz in ((2, "130"), (3, "131")):
        ks = (0, 1, 2) if tier == "quick" else (0, 1, 2, 3, 4)
        if tier == "quick" and limit == 3:
            ks = (2,)
        for k in ks:
            ls.append(Lemma("U3.stage1driver.K%d.limit%d" % (k + 1, limit), "verifHarness_U3_Stage1Driver", FU1 + ["zz_verif_u3.go"],
                            splits=[{"K": k, "ndjson": nd} for nd in ndjson], split_depth="auto", intr=Stage2SummIntrinsics,
                            scale={"indexSize": isz}, replay_patches=["kernelcontract"],
                            desc="findStructuralIndices alone on every layout of %d token starts at gaps from {1,5,64,131} bytes followed by a tail of "
                                 "{0,1,70,140} non-structural bytes (unfinished atom or string), message bytes fully symbolic, kernel = its contract "
                                 "(A1-A7 + carry hand-over) with an error bit injected at kernel call 0, 1, 2 or never and the message ending inside "
                                 "a string or not, index limit scaled to %d: the index stream reconstructed as stage 2 reads it names exactly the "
                                 "structural positions in order, the terminator is sent on every exit, the verdict is the documented one, and no "
                                 "index or slice expression of the driver goes out of range" % (k + 1, limit),
                            bound="%d tokens, message <= %d bytes (up to %d blocks); index limit scaled 1408 -> %d" % (
                                k + 1, 131 * k + 141, (131 * k + 141 + 63) // 64, limit),
                            expect_reach=["U3.returned", "U3.ok"]))
    return ls


def p3_skeleton_lemmas(tier, ndjson=(0, 1)):
    ls = []
    for nd in ndjson:
        n = 11 if nd == 0 else 4
        ids = range(n) if tier != "quick" else (range(0, n, 2) if nd == 0 else range(0, n))
        for i in ids:
            for cp in ((1,) if tier == "quick" else (1, 0)):
                ls.append(Lemma("P3.skeleton.%s%d.%s" % ("nd" if nd else "sk", i, "copy" if cp else "nocopy"), "verifHarness_P3_Skeleton", FP3,
                                splits=[{"ndjson": nd, "skeleton": i, "copy": cp, "split": 0, "sw": w} for w in ((0, 2) if tier == "quick" else (0, 1, 2))] +
                                       ([] if (tier == "quick" and nd == 0) else [{"ndjson": nd, "skeleton": i, "copy": cp, "split": 1, "sw": 0}]),
                                split_depth=0, intr=Stage2SummIntrinsics,
                                desc="unifiedMachine on valid token skeleton #%d (%s) with, in turn, each token left completely free (every "
                                     "single-token deviation of the skeleton and the skeleton itself), scalar slots of 1/4/5/8 symbolic bytes, "
                                     "index stream handed over at any markup point: verdict, tape format and contents vs the "
                                     "reference parser" % (i, "ndjson" if nd else "json"),
                                bound="documents up to 11 tokens (list in harness/zz_verif_p3.go), one free token at a time; strings without escapes; parseNumber = its summary",
                                expect_reach=["P3s.returned"]))
    return ls


def p3_escape_lemmas(tier):
    plan = [(0, 4), (0, 5), (0, 6), (1, 4)] if tier == "quick" else [(0, w) for w in (4, 5, 6, 7)] + [(1, 4), (1, 5)]
    ls = []
    for obj, w in plan:
        ls.append(Lemma("P3.escapes.%s.w%d" % ("obj" if obj else "arr", w), "verifHarness_P3_Escapes", FP3,
                        splits=[{"obj": obj, "w": w - 4}], split_depth="auto", intr=Stage2EscIntrinsics,
                        desc="strings with two-character escapes through stage 2 (%s, string bodies of %d free bytes, both string modes): the real "
                             "validating wrapper decides from the decoder's two lengths whether the string must be copied; accepted iff the "
                             "escapes are well-formed; exposed bytes = decoded bytes; assembly below the wrapper = REF-STR restricted to the "
                             "eight two-character escapes" % ('{"k":"v"}' if obj else '["v"]', w - 2),
                        bound="string bodies of %d bytes; \\u escapes excluded here (lemmas S1-S4)" % (w - 2), expect_reach=["P3e.returned", "P3e.accepted"]))
    return ls


def s6_lemmas(tier):
    return [Lemma("S6.parseString", "verifHarness_S6_ParseString", FP3, split_depth="auto", intr=Stage2SummIntrinsics,
                  desc="parseString on an escape-free string of 0..3 bytes with 4..83 bytes of message left and a string buffer of capacity 41 "
                       "filled to any level: the padded copy gives the decoder its 44 readable bytes beyond the cursor, the string buffer is "
                       "grown so that 32 bytes of slack remain behind the copy, offset / buffer flag / length are written as documented",
                  bound="message tail 4..83 bytes, string <= 3 bytes, string buffer 0..41 of 41 bytes used", expect_reach=["S6.parseString"])]


FDEEP = ["zz_verif_tape.go", "zz_verif_wf.go", "zz_verif_t1.go", "zz_verif_edit.go", "zz_verif_ser.go", "zz_verif_p3.go", "zz_verif_u1.go", "zz_verif_deep.go"]


def deep_lemmas(tier):
    from .e2.intr_stage2 import DeepIntrinsics
    ls = []
    for obj in (0, 1):
        ls.append(Lemma("Deep.%s" % ("obj" if obj else "arr"), "verifHarness_Deep", FDEEP, splits=[{"obj": obj}], split_depth=1,
                        intr=DeepIntrinsics, scale={"stringBits": "2"}, opts={"max_depth": 700}, replay_patches=("memhash",),
                        desc="one maximally nested document (%s, depths 3, 99, 100, 101, 127, 128, 129, 140: around the marshaller's 100-entry "
                             "stack and the parser's 128-entry scope stack) through the whole stack: parseMessage (kernel = contract), tape "
                             "format, AdvanceInto walk, MarshalJSON reproduces the text, Interface nests to the same depth, serialize round trip"
                             % ("alternating objects and arrays" if obj else "arrays"),
                        bound="nesting depth <= 140, one document shape per depth", expect_reach=["Deep.parsed", "Deep.done"]))
    return ls
