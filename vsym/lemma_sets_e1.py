"""Lemma groups of engine E1 for the check modules (C01, C04, C05, C06, C08, C17 …).

Each function runs its group through lemmas_e1.run_parallel (lift once, translator validation, worker pool) and merges
lemma entries, samples, functions, assumptions, vacuity witnesses and violations into ctx.  Memory-safety obligations
are reported as separate entries "<lemma>.bounds" (C05)."""
import os
from . import lemmas_e1 as LM
from .e1 import tv

FAMILIES = LM.FAMILIES


def _chunks(xs, n):
    return [xs[i:i + n] for i in range(0, len(xs), n)]


def a7_jobs(ctx, tier, ndjson=None, families=FAMILIES):
    tails = [0, 1, 31, 32, 33, 63] if tier == "quick" else list(range(64))
    cases = [(nb, r) for nb in (0, 1, 2) for r in tails]
    jobs = []
    for fam in families:
        # heaviest (2-block) cases first
        for ch in _chunks(sorted(cases, key=lambda c: -c[0]), 6 if tier == "quick" else 12):
            jobs.append(("A7", (fam, ch, ndjson)))
    return jobs


def stage1_jobs(ctx, tier):
    jobs = [("A6", ())] + a7_jobs(ctx, tier)
    for fam in FAMILIES:
        jobs += [(a, (fam,)) for a in ("A1", "A2", "A3", "A4", "A5")]
    if tier == "thorough":
        jobs += [("A9", (fam,)) for fam in FAMILIES]
    return jobs


def stage1_lemmas(ctx, tier=None):
    """A1–A7 for both kernel families (+ A9 in thorough): stage 1 == REF-SCAN per 64-byte block for any carry-in, the slice
    drivers compose the blocks (0–2 blocks + every tail in thorough), index-buffer store bound, register contracts"""
    tier = tier or ctx.tier
    LM.run_parallel(ctx, stage1_jobs(ctx, tier), tv.STAGE1_OPS)


def ndjson_lemmas(ctx, tier=None):
    """C08 stage-1 part: A5 (newline delimiters outside quotes) and A7 with ndjson = 1"""
    tier = tier or ctx.tier
    jobs = a7_jobs(ctx, tier, ndjson=1) + [("A5", (fam,)) for fam in FAMILIES]
    LM.run_parallel(ctx, jobs, tv.STAGE1_OPS)


def string_jobs(ctx, tier):
    if tier == "quick":
        s2 = [("S2", (2, (i, 16))) for i in range(16)]
    elif os.environ.get("VERIF_S2_ITERS_THOROUGH", "3") == "3":
        # 3 iterations (130 symbolic bytes): 68 shards of 5-17 CPU-minutes each; measured 74 min wall for the whole of C04 on 16
        # cores while the machine was shared (load average 30-45), estimated 25-30 min on an idle one;
        # VERIF_S2_ITERS_THOROUGH=2 keeps the thorough tier at the quick bound (2 min)
        s2 = [("S2", (3, (i, 17, j, 4))) for i in range(17) for j in range(4)] + [("S2", (2, (i, 16))) for i in range(16)]
    else:
        s2 = [("S2", (2, (i, 16))) for i in range(16)]
    return s2 + [("S3", ()), ("S4", ()), ("S1", ())]


def string_lemmas(ctx, tier=None):
    """S1–S4: the two string decoders == REF-STR (one iteration from an arbitrary cursor, whole function for <= 2 (quick) /
    3 (thorough) iterations), copy == validate-only, window/slack bounds"""
    tier = tier or ctx.tier
    LM.run_parallel(ctx, string_jobs(ctx, tier), tv.STRING_OPS)
