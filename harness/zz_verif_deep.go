package simdjson

// Deep: one maximally nested document ([[[...null...]]], depth around the internal constants 100 and 128) through
// the whole stack: parseMessage (kernel = contract), tape format, traversal, Interface, MarshalJSON, serialize round trip.
func verifHarness_Deep() {
	depths := []int{3, 99, 100, 101, 127, 128, 129, 140}
	D := depths[verifChoice("depth", len(depths))]
	obj := verifChoice("obj", 2) == 1 // alternate objects and arrays: {"k":[{"k":[ ... ]}]}
	var msg []byte
	for i := 0; i < D; i++ {
		if obj && i%2 == 0 {
			msg = append(msg, '{', '"', 'k', '"', ':')
		} else {
			msg = append(msg, '[')
		}
	}
	msg = append(msg, 'n', 'u', 'l', 'l')
	for i := D - 1; i >= 0; i-- {
		if obj && i%2 == 0 {
			msg = append(msg, '}')
		} else {
			msg = append(msg, ']')
		}
	}
	// one symbolic byte (the key's character) keeps the run symbolic without adding paths
	if obj {
		k := nondetU8("key")
		verifAssume(k >= 'a' && k <= 'z')
		for i := range msg {
			if msg[i] == 'k' {
				msg[i] = k
			}
		}
	}
	want := make([]uint8, len(msg))
	inStr := false
	for i, c := range msg {
		if i > 0 && msg[i-1] == '"' && inStr {
			// byte after an opening quote: inside the key
		}
		switch {
		case c == '"':
			if !inStr {
				want[i] = 1
			}
			inStr = !inStr
		case inStr:
		case c == 'n':
			want[i] = 1
		case c == 'u' || c == 'l':
		default:
			want[i] = 1
		}
	}
	verifWant = want
	verifWantNdjson = 0
	pj := &internalParsedJson{}
	pj.copyStrings = true
	err := pj.parseMessage(msg, false)
	verifReach("Deep.parsed")
	verifAssert(err == nil, "a deeply nested document is accepted")
	verifAssert(verifWFTape(&pj.ParsedJson, true, false), "its tape obeys the documented format")
	// walk down and up with AdvanceInto
	it := pj.Iter()
	verifAssert(it.AdvanceInto() == TagRoot, "root")
	for i := 0; i < D; i++ {
		if obj && i%2 == 0 {
			verifAssert(it.AdvanceInto() == TagObjectStart, "object start at every even level")
			verifAssert(it.AdvanceInto() == TagString, "key")
		} else {
			verifAssert(it.AdvanceInto() == TagArrayStart, "array start")
		}
	}
	verifAssert(it.AdvanceInto() == TagNull, "the innermost value")
	for i := D - 1; i >= 0; i-- {
		if obj && i%2 == 0 {
			verifAssert(it.AdvanceInto() == TagObjectEnd, "object end")
		} else {
			verifAssert(it.AdvanceInto() == TagArrayEnd, "array end")
		}
	}
	verifAssert(it.AdvanceInto() == TagRoot && it.AdvanceInto() == TagEnd, "closing root, end")
	// marshal reproduces the text exactly (there is no insignificant white space in it)
	mi := pj.Iter()
	out, merr := mi.MarshalJSONBuffer(nil)
	verifAssert(merr == nil && verifBytesEq(out, msg), "MarshalJSON reproduces the deeply nested text")
	// Interface: D nested containers
	ii := pj.Iter()
	v, ierr := ii.Interface()
	verifAssert(ierr == nil, "Interface succeeds")
	rs, ok := v.([]interface{})
	verifAssert(ok && len(rs) == 1, "one root")
	cur := rs[0]
	for i := 0; i < D; i++ {
		if obj && i%2 == 0 {
			m, isMap := cur.(map[string]interface{})
			verifAssert(isMap && len(m) == 1, "object level")
			for _, x := range m {
				cur = x
			}
		} else {
			a, isArr := cur.([]interface{})
			verifAssert(isArr && len(a) == 1, "array level")
			cur = a[0]
		}
	}
	verifAssert(cur == nil, "null at the bottom")
	// serialize round trip
	s := verifNewSerializer()
	res, derr := s.Deserialize(s.Serialize(nil, pj.ParsedJson), nil)
	verifAssert(derr == nil && len(res.Tape) == len(pj.Tape), "round trip succeeds")
	same := true
	for i := range res.Tape {
		if byte(pj.Tape[i]>>56) != '"' {
			same = same && res.Tape[i] == pj.Tape[i]
		}
	}
	verifAssert(same && verifWFTape(res, true, false), "round trip reproduces the tape (string offsets aside) and it is well-formed")
	verifReach("Deep.done")
}
