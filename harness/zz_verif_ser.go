package simdjson

// Z1: Deserialize(Serialize(tape)) denotes the same document, with number tags and float flags,
// and the reconstructed tape obeys the documented format incl. NOP runs (C11, C17). CompressNone
// arms only (S2/zstd are third-party code: contract dec(enc(x)) = x, trusted).

func verifCfgSer(inMsg bool) verifGenCfg {
	return verifGenCfg{nops: true, objects: true, arrays: true, strs: true, nums: true, ones: true, maxDepth: 3,
		strLen: 1, strLen2: 0, keyLen: 1, maxNop: 2, inMsg: inMsg}
}

func verifNewSerializer() *Serializer {
	s := NewSerializer()
	s.CompressMode(CompressNone)
	return s
}

func verifHarness_Z1_RoundTrip() {
	T := nondetSize("T")
	cfg := verifCfgSer(verifChoice("inmsg", 2) == 1)
	if verifChoice("cfg", 2) == 1 {
		// string-heavy shapes: flat arrays of strings (lengths 0/1/2) and NOP runs, so that several strings
		// (equal, prefix-related, colliding) fit into a small tape
		cfg.objects, cfg.nums, cfg.ones, cfg.maxDepth, cfg.strLen, cfg.strLen2, cfg.strLen3 = false, false, false, 0, 1, 0, 2
	}
	pj, root := verifGenDoc(cfg, T)
	s := verifNewSerializer()
	var dst *ParsedJson
	if verifChoice("havoc", 2) == 1 {
		// arbitrary leftovers of earlier Serialize/Deserialize calls on the same Serializer and destination
		verifHavocSerializer(s)
		dst = verifHavocDst(T)
	}
	out := s.Serialize(nil, *pj)
	ds := s
	if verifChoice("freshdeser", 2) == 1 {
		ds = NewSerializer() // CompressDefault: the deserializing side's own mode must not matter
	}
	res, err := ds.Deserialize(out, dst)
	verifReach("Z1.roundtrip")
	verifAssert(err == nil && res != nil, "Deserialize accepts what Serialize produced")
	verifAssert(verifWFTape(res, true, true), "the reconstructed tape obeys the documented format; NOP runs land on the next live entry")
	verifReadBack(res, root)
}

// verifHavocSerializer fills every reusable field of s with arbitrary contents (what any history of
// earlier calls could have left behind; the compression mode fields are left as set).
// capacity that Serialize considers sufficient for its tag/value scratch buffers under the scaling every lemma using this
// havoc runs with (tagBufSize 4, valBufSize 16); with the real 64 KiB constants it is simply too small and they are reallocated
const verifSerBufCap = 24

func verifHavocSerializer(s *Serializer) {
	s.stringBuf = nondetBytes("stale.stringBuf", 4)[:verifChoice("stale.stringBuf.len", 3)]
	for i := range s.stringsTable {
		s.stringsTable[i] = nondetU32("stale.stringsTable")
	}
	s.sMsg = nondetBytes("stale.sMsg", 3)
	s.tagsBuf = nondetBytes("stale.tagsBuf", 3)
	s.valuesBuf = nondetBytes("stale.valuesBuf", 3)
	if verifChoice("stale.bufs.big", 2) == 1 {
		// as an earlier Serialize allocated them and an earlier Deserialize left them: full capacity, non-zero length, old contents
		vb := make([]byte, 3, verifSerBufCap)
		copy(vb, s.valuesBuf)
		s.valuesBuf = vb
		tb := make([]byte, 3, verifSerBufCap)
		copy(tb, s.tagsBuf)
		s.tagsBuf = tb
	}
	s.valuesCompBuf = nondetBytes("stale.valuesCompBuf", 3)
	s.tagsCompBuf = nondetBytes("stale.tagsCompBuf", 3)
}

// verifHavocDst returns a destination whose slices hold stale data; its tape capacity is either
// too small (forcing reallocation) or large enough to be reused.
func verifHavocDst(T int) *ParsedJson {
	// 0: too small, 1: large and in use to its full capacity, 2: large capacity (arbitrary contents from an even earlier use)
	// of which the last use left only one word in use
	n := 2
	v := verifChoice("stale.dst.big", 3)
	if v >= 1 {
		n = T + 2
	}
	d := &ParsedJson{Tape: make([]uint64, n), Strings: &TStrings{B: nondetBytes("stale.dst.strings", 2)}, Message: nondetBytes("stale.dst.msg", 6)}
	for i := range d.Tape {
		d.Tape[i] = nondetU64("stale.dst.tape")
	}
	if v == 2 {
		d.Tape = d.Tape[:1]
	}
	return d
}
