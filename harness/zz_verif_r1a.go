package simdjson

import (
	"strconv"
	_ "unsafe"
)

// R1a: the repository's ryuFtoaShortest = the toolchain's strconv.ryuFtoaShortest, for a concrete binary
// exponent and a symbolic mantissa, both executed from their real code (computeBounds, mulByLog2Log10,
// mult128bitPow10 with the 128-bit power-of-ten table, divisibleByPower5, rounding/admissibility logic)
// down to the call of the digit emitter ryuDigits, which is replaced on both sides by an injective
// recorder of its arguments.

type verifSDec struct {
	d      []byte
	nd, dp int
}

type verifSFloatInfo struct {
	mantbits uint
	expbits  uint
	bias     int
}

// natively linked to strconv's unexported function (replay builds use -ldflags=-checklinkname=0); under the
// symbolic executor the call is redirected to the lowered body of strconv.ryuFtoaShortest.
//
//go:linkname verifStrconvRyu strconv.ryuFtoaShortest
func verifStrconvRyu(d *verifSDec, mant uint64, exp int, flt *verifSFloatInfo)

var verifKeepStrconv = strconv.AppendFloat // keeps strconv's float formatter (and ryuFtoaShortest) in the lowered program

// binary exponents (of the 53-bit mantissa) exercised by the quick tier: subnormals, the 1e-6 and 1e21 format
// switches, the range where integers stop being exactly printable, powers of ten, extremes
var verifExps = []int{-1074, -1073, -1000, -500, -120, -73, -72, -60, -53, -52, -51, -30, -10, -1, 0, 1, 2, 3, 5, 8, 10, 12, 15, 16, 17, 18, 30, 60, 100, 500, 970, 971}

func verifHarness_R1a_Shortest() {
	var exp int
	if verifChoice("allexps", 2) == 1 {
		exp = -1074 + verifChoice("expidx", 2046)
	} else {
		exp = verifExps[verifChoice("exp", 32)]
	}
	mant := nondetU64("mant")
	if exp == -1074 {
		verifAssume(mant < 1<<53) // subnormals and the smallest normals
	} else {
		verifAssume(mant >= 1<<52 && mant < 1<<53)
	}
	var a decimalSlice
	var b verifSDec
	var ba, bb [32]byte
	a.d, b.d = ba[:], bb[:]
	ryuFtoaShortest(&a, mant, exp)
	verifStrconvRyu(&b, mant, exp, &verifSFloatInfo{52, 11, -1023})
	verifReach("R1a.shortest")
	same := a.nd == b.nd && a.dp == b.dp
	for i := 0; i < 32; i++ {
		same = same && ba[i] == bb[i]
	}
	verifAssert(same, "ryuFtoaShortest hands the same bounds, exactness and rounding hints to the digit emitter as strconv's and applies the same decimal exponent")
}

// R1t: the same comparison for EVERY binary exponent and mantissa at once, with the helper functions uninterpreted
// (identical on both sides, justified by R1f) — what is compared is the glue of ryuFtoaShortest itself.
func verifHarness_R1t_Top() {
	exp := nondetInt("exp")
	verifAssume(exp >= -1074 && exp <= 971)
	mant := nondetU64("mant")
	verifAssume(mant < 1<<53)
	var a decimalSlice
	var b verifSDec
	var ba, bb [32]byte
	a.d, b.d = ba[:], bb[:]
	ryuFtoaShortest(&a, mant, exp)
	verifStrconvRyu(&b, mant, exp, &verifSFloatInfo{52, 11, -1023})
	verifReach("R1t.top")
	same := a.nd == b.nd && a.dp == b.dp
	for i := 0; i < 32; i++ {
		same = same && ba[i] == bb[i]
	}
	verifAssert(same, "ryuFtoaShortest hands the same bounds, exactness and rounding hints to the digit emitter as strconv's and applies the same decimal exponent")
}
