package simdjson

// U1 / G1: the whole synchronous parseMessage path — bytes.TrimSpace, initialize, the real
// findStructuralIndices driver (64-byte blocks, padded tail, index-buffer hand-over with
// strip/restore of a dangling index, end-of-message verdict, terminator), the real unifiedMachine
// and the drain loops — entered with every reusable field of internalParsedJson havoc'd. Only
// the stage-1 assembly kernel is replaced by its contract (lemmas A1-A7: kernel = REF-SCAN +
// FLAT), driven by the layout below; the assertions compare with references that never see
// the prior state.

// layout of the current message: want[i] == 1 iff byte i starts a structural / pseudo-structural
// token. Read by the kernel contract stub.
var verifWant []uint8

// the k-th kernel call (0-based) reports an error bit (control character inside a string, seen in
// that part of the input); -1: never.
var verifStage1ErrAt = -1

// set by the kernel contract stub when it actually reported the error
var verifStage1ErrInjected = false

var verifIndexLimit = indexSizeWithSafetyBuffer

// the message ends inside a string: the kernel contract stub leaves the inside-quote carry set after the last block
var verifEndInQuote = false

// the ndjson flag this parse runs with: the kernel contract stub requires every kernel call to pass exactly this value
// (what verifWant describes is REF-SCAN of the message in that mode)
var verifWantNdjson uint64

var verifWidthsU1 = []int{1, 5, 61}

// gaps for the hand-over scenario: more than 64 bytes must remain after the block that fills the index buffer
var verifWidthsU1Wide = []int{1, 5, 131}

func verifLayoutU1(maxK int) []int {
	K := 2 + verifChoice("K", maxK-1)
	ws := verifWidthsU1
	if verifChoice("wide", 2) == 1 {
		ws = verifWidthsU1Wide
	}
	pos := make([]int, K)
	p := 0
	for i := 0; i < K; i++ {
		pos[i] = p
		if i < K-1 {
			p += ws[verifChoice("w", len(ws))]
		}
	}
	return pos
}

func verifHavocInternal(pj *internalParsedJson) {
	// what any earlier Parse/ParseND (successful or failed, either string mode) and in-place edits may have left.
	// The structural alternatives (capacities either side of what is needed, nil or present buffers/channel, leftover
	// scope entries) are coupled into three variants; all contents are symbolic.
	v := verifChoice("stale.variant", 3)
	big, some, scopes := v >= 1, v == 1, v
	tapecap := 3
	if big {
		tapecap = 43
	}
	pj.Tape = make([]uint64, 3, tapecap)
	for i := range pj.Tape {
		pj.Tape[i] = nondetU64("stale.tape")
	}
	if some {
		pj.Strings = &TStrings{B: nondetBytes("stale.strings.b", 3)}
	}
	pj.Message = nondetBytes("stale.message", 2)
	pj.containingScopeOffset = make([]uint64, scopes, maxdepth)
	for i := range pj.containingScopeOffset {
		pj.containingScopeOffset[i] = nondetU64("stale.scope")
	}
	pj.isvalid = nondetBool("stale.isvalid")
	pj.ndjson = nondetU64("stale.ndjson")
	pj.buffersOffset = nondetU64("stale.buffersOffset")
	pj.indexesChan = indexChan{index: int(nondetU8("stale.ic.index")), length: int(nondetU8("stale.ic.length")), indexes: &pj.buffers[3]}
	if v != 1 {
		// representation invariant: an existing channel is empty and has the capacity parseMessage would give it
		pj.indexChans = make(chan indexChan, indexSlots-2)
	}
}

func verifHarness_U1_ParseMessage() {
	pos := verifLayoutU1(8)
	K := len(pos)
	N := pos[K-1] + 1
	msg := nondetBytes("msg", N)
	// long gaps: only the first 8 bytes of a slot are free, the rest of the gap is plain white space (the gap is there to
	// put tokens into different 64-byte blocks, not to vary its contents)
	for i := 0; i < K-1; i++ {
		for q := pos[i] + 8; q < pos[i+1]; q++ {
			msg[q] = ' '
		}
	}
	nd := verifChoice("ndjson", 2)
	want := make([]uint8, N)
	for _, p := range pos {
		want[p] = 1
	}
	verifAssume(verifScanOK(msg, want, uint8(nd)) == 1)
	for _, b := range msg {
		verifAssume(b != '\\')
	}
	// surrounding white space is trimmed by parseMessage
	lead := verifChoice("ws", 2)
	trail := lead
	raw := make([]byte, 0, N+2)
	if lead == 1 {
		// a blank before the document; in ndjson mode a blank line (what a stream chunk or an input starting with an empty line has)
		if nd == 1 {
			raw = append(raw, '\n')
		} else {
			raw = append(raw, ' ')
		}
	}
	raw = append(raw, msg...)
	if trail == 1 {
		raw = append(raw, '\n')
	}
	verifWant = want
	verifWantNdjson = uint64(nd)
	pj := &internalParsedJson{}
	if verifChoice("havoc", 2) == 1 {
		verifHavocInternal(pj)
	}
	pj.copyStrings = verifChoice("copy", 2) == 1
	if e := verifChoice("stage1err", 3); e >= 1 {
		verifStage1ErrAt = e - 1
	}
	err := pj.parseMessage(raw, nd == 1)
	verifReach("U1.returned")
	verifAssert(len(pj.indexChans) == 0, "the index channel is empty again on every exit (success, stage-1 failure, stage-2 failure)")
	lastOK := msg[N-1] == '}' || msg[N-1] == ']'
	if verifStage1ErrInjected || !lastOK {
		verifAssert(err != nil, "a stage-1 error (control character in a string, message not ending in '}' or ']') fails the parse")
		return
	}
	ref := &verifRefP{buf: msg, pos: pos, copyS: pj.copyStrings, ndjson: nd == 1}
	roots, refOK := ref.parse()
	if refOK {
		verifAssert(err == nil, "parseMessage accepts every document of the grammar, whatever the reused object held before")
	} else {
		verifAssert(err != nil, "parseMessage rejects everything outside the grammar, whatever the reused object held before")
	}
	if err != nil {
		return
	}
	verifReach("U1.accepted")
	verifAssert(verifBytesEq(pj.Message, msg), "Message is the trimmed input")
	verifAssert(verifWFTape(&pj.ParsedJson, true, false), "the produced tape obeys the documented format")
	verifCheckRoots(&pj.ParsedJson, roots)
}
