package simdjson

import (
	"strconv"
	_ "unsafe"
)

// R1f: the helper functions of the repository's copy of the Ryu digit generator against the toolchain's strconv,
// function by function on arbitrary symbolic arguments, both executed from their real code. Natively the stubs are
// linked to strconv's unexported functions (replay builds use -ldflags=-checklinkname=0); under the symbolic
// executor a call verifS_<name> is redirected to the lowered body of strconv.<name>.

type verifSFI struct {
	mantbits uint
	expbits  uint
	bias     int
}

//go:linkname verifS_computeBounds strconv.computeBounds
func verifS_computeBounds(mant uint64, exp int, flt *verifSFI) (lower, central, upper uint64, e2 int)

//go:linkname verifS_mulByLog2Log10 strconv.mulByLog2Log10
func verifS_mulByLog2Log10(x int) int

//go:linkname verifS_mulByLog10Log2 strconv.mulByLog10Log2
func verifS_mulByLog10Log2(x int) int

//go:linkname verifS_divmod1e9 strconv.divmod1e9
func verifS_divmod1e9(x uint64) (uint32, uint32)

//go:linkname verifS_mult128bitPow10 strconv.mult128bitPow10
func verifS_mult128bitPow10(m uint64, e2, q int) (resM uint64, resE int, exact bool)

//go:linkname verifS_divisibleByPower5 strconv.divisibleByPower5
func verifS_divisibleByPower5(m uint64, k int) bool

var verifKeepStrconvF = strconv.AppendFloat

func verifHarness_R1f_Helpers() {
	switch verifChoice("fn", 5) {
	case 0:
		mant := nondetU64("mant")
		verifAssume(mant < 1<<53)
		exp := nondetInt("exp")
		verifAssume(exp >= -1074 && exp <= 971)
		l1, c1, u1, e1 := computeBounds(mant, exp)
		l2, c2, u2, e2 := verifS_computeBounds(mant, exp, &verifSFI{52, 11, -1023})
		verifReach("R1f.fn")
		verifAssert(l1 == l2 && c1 == c2 && u1 == u2 && e1 == e2, "computeBounds = strconv.computeBounds (float64)")
	case 1:
		x := nondetInt("x")
		verifAssume(x >= -1600 && x <= 1600)
		verifReach("R1f.fn")
		verifAssert(mulByLog2Log10(x) == verifS_mulByLog2Log10(x) && mulByLog10Log2(x) == verifS_mulByLog10Log2(x), "mulByLog2Log10 / mulByLog10Log2 = strconv's")
	case 2:
		x := nondetU64("x")
		a1, b1 := divmod1e9(x)
		a2, b2 := verifS_divmod1e9(x)
		verifReach("R1f.fn")
		verifAssert(a1 == a2 && b1 == b2, "divmod1e9 = strconv.divmod1e9")
	case 3:
		m := nondetU64("m")
		e2 := nondetInt("e2")
		verifAssume(e2 >= -1200 && e2 <= 1200)
		q := -348 + verifChoice("q", 696)
		r1, x1, k1 := mult128bitPow10(m, e2, q)
		r2, x2, k2 := verifS_mult128bitPow10(m, e2, q)
		verifReach("R1f.fn")
		verifAssert(r1 == r2 && x1 == x2 && k1 == k2, "mult128bitPow10 (incl. the 128-bit power-of-ten table entry for this q) = strconv's")
	case 4:
		m := nondetU64("m")
		k := verifChoice("k", 28)
		verifReach("R1f.fn")
		verifAssert(divisibleByPower5(m, k) == verifS_divisibleByPower5(m, k), "divisibleByPower5 = strconv's")
	}
}

//go:linkname verifS_ryuDigits32 strconv.ryuDigits32
func verifS_ryuDigits32(d *verifSDec32, lower, central, upper uint32, c0, cup bool, endindex int)

//go:linkname verifS_ryuDigits strconv.ryuDigits
func verifS_ryuDigits(d *verifSDec32, lower, central, upper uint64, c0, cup bool)

type verifSDec32 struct {
	d      []byte
	nd, dp int
}

func verifSameDigits(a *decimalSlice, b *verifSDec32) bool {
	same := a.nd == b.nd && a.dp == b.dp && len(a.d) == len(b.d)
	for i := 0; same && i < a.nd && i < len(a.d); i++ {
		same = a.d[i] == b.d[i]
	}
	return same
}

// the digit emitters: same digits, digit count and decimal point as strconv's for arbitrary bounds
func verifHarness_R1f_Digits() {
	var a decimalSlice
	var b verifSDec32
	var ba, bb [32]byte
	a.d, b.d = ba[:], bb[:]
	c0 := nondetBool("c0")
	cup := nondetBool("cup")
	if verifChoice("fn", 2) == 0 {
		l, c, u := nondetU32("lower"), nondetU32("central"), nondetU32("upper")
		verifAssume(l <= c && c <= u && u < 1000000000)
		// case split on the number of decimal digits of the upper bound (fixes the trip count of the digit loop)
		p10 := []uint32{0, 10, 100, 1000, 10000, 100000, 1000000, 10000000, 100000000, 1000000000}
		ud := verifChoice("udigits", 9)
		verifAssume(u >= p10[ud] && u < p10[ud+1])
		ryuDigits32(&a, l, c, u, c0, cup, 8)
		verifS_ryuDigits32(&b, l, c, u, c0, cup, 8)
	} else {
		l, c, u := nondetU64("lower"), nondetU64("central"), nondetU64("upper")
		verifAssume(l <= c && c <= u && u < 1000000000000000000)
		ryuDigits(&a, l, c, u, c0, cup)
		verifS_ryuDigits(&b, l, c, u, c0, cup)
	}
	verifReach("R1f.digits")
	verifAssert(verifSameDigits(&a, &b), "ryuDigits / ryuDigits32 emit the same digits, count and decimal point as strconv's")
}

//go:linkname verifS_fmtF strconv.fmtF
func verifS_fmtF(dst []byte, neg bool, d verifSDec32, prec int) []byte

// the 'f' formatter itself against strconv's, on explicit digit strings: every digit count, every decimal point the
// ECMAScript switch sends to 'f', symbolic digits and sign (inputs are the harness's own, so a difference replays natively)
func verifHarness_R1f_FmtF() {
	nd := verifChoice("nd", 18)
	dp := -6 + verifChoice("dp", 29)
	digs := nondetBytes("digits", 17)
	for _, c := range digs {
		verifAssume(c >= '0' && c <= '9')
	}
	neg := nondetBool("neg")
	prec := max(nd-dp, 0)
	var ba, bb [32]byte
	copy(ba[:], digs)
	copy(bb[:], digs)
	a := fmtF(make([]byte, 0, 64), neg, decimalSlice{d: ba[:], nd: nd, dp: dp}, prec)
	b := verifS_fmtF(make([]byte, 0, 64), neg, verifSDec32{d: bb[:], nd: nd, dp: dp}, prec)
	verifReach("R1f.fmtF")
	same := len(a) == len(b)
	for i := 0; same && i < len(a); i++ {
		same = a[i] == b[i]
	}
	verifAssert(same, "fmtF = strconv.fmtF on every digit count 0..17 and decimal point -6..22")
}
