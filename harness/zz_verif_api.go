package simdjson

// Harness API. Under the symbolic executor every function in this file is intercepted by name
// (its body is never executed); compiled natively the same functions read the solver's model
// from a replay vector, so a counterexample becomes an ordinary run against the real build.

type verifStop struct{}

var (
	verifVec        []uint64
	verifPos        int
	verifFail       string
	verifAssumeFail bool
	verifReached    []string
	verifKnown      = map[string]bool{}
)

func verifNext() uint64 {
	var v uint64
	if verifPos < len(verifVec) {
		v = verifVec[verifPos]
	}
	verifPos++
	return v
}

func nondetU64(name string) uint64  { return verifNext() }
func nondetI64(name string) int64   { return int64(verifNext()) }
func nondetInt(name string) int     { return int(verifNext()) }
func nondetU32(name string) uint32  { return uint32(verifNext()) }
func nondetU8(name string) byte     { return byte(verifNext()) }
func nondetBool(name string) bool   { return verifNext()&1 == 1 }
func nondetF64(name string) float64 { return verifF64frombits(verifNext()) }

func nondetBytes(name string, n int) []byte {
	b := make([]byte, n)
	for i := range b {
		b[i] = byte(verifNext())
	}
	return b
}

// verifChoice is a case split: the executor explores every value 0..n-1 as a separate path.
func verifChoice(name string, n int) int {
	if n == 0 {
		verifAssumeFail = true
		panic(verifStop{})
	}
	v := int(verifNext())
	if v < 0 || v >= n {
		verifAssumeFail = true
		panic(verifStop{})
	}
	return v
}

func verifAssume(c bool) {
	if !c {
		verifAssumeFail = true
		panic(verifStop{})
	}
}

func verifAssert(c bool, msg string) {
	if !c && verifFail == "" {
		verifFail = msg
		panic(verifStop{})
	}
}

func verifReach(name string) { verifReached = append(verifReached, name) }

// verifKnownFinding reports whether the finding id is listed (status "finding") in
// /verif/known_findings.jsonl; harnesses use it to assume the finding's exclusion predicate.
func verifKnownFinding(id string) bool { return verifKnown[id] }

// verifSymbolic is true under the symbolic executor and false natively.
func verifSymbolic() bool { return false }
