package simdjson

// U2: option handling and adoption of a reused ParsedJson: whatever an earlier call left in the
// reused object's internal state, the options of THIS call decide (C15, C16).
func verifHarness_U2_Options() {
	var reuse *ParsedJson
	how := verifChoice("reuse", 3)
	if how >= 1 {
		in := &internalParsedJson{}
		in.copyStrings = nondetBool("stale.copyStrings")
		in.ndjson = nondetU64("stale.ndjson")
		in.isvalid = nondetBool("stale.isvalid")
		in.buffersOffset = nondetU64("stale.buffersOffset")
		if how == 1 {
			// as returned by Parse: the exported object points back at its internal state
			reuse = &in.ParsedJson
			reuse.internal = in
		} else {
			// a by-value copy kept by the caller
			cp := in.ParsedJson
			cp.internal = in
			reuse = &cp
		}
	}
	var opts []ParserOption
	want := true
	switch verifChoice("opt", 4) {
	case 1:
		opts = append(opts, WithCopyStrings(false))
		want = false
	case 2:
		opts = append(opts, WithCopyStrings(true))
	case 3:
		opts = append(opts, WithCopyStrings(false), WithCopyStrings(true))
	}
	pj, err := newInternalParsedJson(reuse, opts)
	verifReach("U2.options")
	verifAssert(err == nil && pj != nil, "newInternalParsedJson succeeds on a supported CPU")
	verifAssert(pj.copyStrings == want, "string copying is on unless THIS call disables it, whatever the reused object did before")
}
