package simdjson

// Generator of well-formed tapes (README "Tape format" + NOP runs as left behind by DeleteElems /
// SetNull) together with the abstract document each tape denotes. Shapes are chosen by
// verifChoice (one symbolic-execution path per shape); scalar payloads and string bytes are
// symbolic. The real iterator/editor/serializer code is then run on the tape and compared with
// the abstract document, which never goes through the code under test.

type verifNode struct {
	kind  byte // '{' '[' '"' 'l' 'u' 'd' 't' 'f' 'n'
	val   uint64
	flags uint64
	str   []byte
	kids  []*verifNode // array: elements; object: key0,val0,key1,val1,...
	pos   int          // tape index of the tag word
	size  int          // words occupied
}

type verifGenCfg struct {
	nops     bool
	objects  bool
	arrays   bool
	strs     bool
	nums     bool // 2-word numbers (tag symbolic among l/u/d unless numTag != 0)
	ones     bool // 1-word scalars n/t/f (tag symbolic)
	maxDepth int
	strLen   int  // length of generated strings
	strLen2  int  // if >= 0 a second possible length (chosen per string)
	strLen3  int  // if > 0 a third possible length
	inMsg    bool // strings live in Message (no STRINGBUFBIT) instead of Strings.B
	numTag   byte // fixed number tag, 0 = symbolic
	oneTag   byte // fixed 1-word tag, 0 = symbolic
	maxNop   int  // longest NOP run generated (0 = unbounded)
	keyLen   int  // length of object keys (-1: same as strLen)
}

type verifGen struct {
	cfg  verifGenCfg
	tape []uint64
	sb   []byte
	msg  []byte
}

func (g *verifGen) emit(w uint64) int {
	g.tape = append(g.tape, w)
	return len(g.tape) - 1
}

func (g *verifGen) genString(n int) *verifNode {
	b := nondetBytes("str", n)
	nd := &verifNode{kind: '"', str: b, size: 2}
	var off uint64
	if g.cfg.inMsg {
		off = uint64(len(g.msg))
		g.msg = append(g.msg, b...)
	} else {
		off = uint64(len(g.sb)) | STRINGBUFBIT
		g.sb = append(g.sb, b...)
	}
	nd.pos = g.emit(uint64('"')<<56 | off)
	g.emit(uint64(n))
	return nd
}

func (g *verifGen) strLenChoice() int {
	if g.cfg.strLen2 >= 0 {
		n := 2
		if g.cfg.strLen3 > 0 {
			n = 3
		}
		switch verifChoice("strlen", n) {
		case 1:
			return g.cfg.strLen2
		case 2:
			return g.cfg.strLen3
		}
	}
	return g.cfg.strLen
}

const (
	verifOptNop = iota
	verifOptOne
	verifOptNum
	verifOptStr
	verifOptArr
	verifOptObj
)

type verifOpt struct {
	kind int
	size int
}

// value generates one value of exactly `size` words of the given option kind.
func (g *verifGen) value(o verifOpt, depth int) *verifNode {
	switch o.kind {
	case verifOptOne:
		tag := g.cfg.oneTag
		if tag == 0 {
			tag = nondetU8("onetag")
			verifAssume(tag == 'n' || tag == 't' || tag == 'f')
		}
		nd := &verifNode{kind: tag, size: 1}
		nd.pos = g.emit(uint64(tag) << 56)
		return nd
	case verifOptNum:
		tag := g.cfg.numTag
		if tag == 0 {
			tag = nondetU8("numtag")
			verifAssume(tag == 'l' || tag == 'u' || tag == 'd')
		}
		nd := &verifNode{kind: tag, size: 2}
		if tag == 'd' {
			nd.flags = uint64(nondetU8("fflags") & 1)
		}
		nd.val = nondetU64("numval")
		nd.pos = g.emit(uint64(tag)<<56 | nd.flags)
		g.emit(nd.val)
		return nd
	case verifOptStr:
		return g.genString(g.strLenChoice())
	case verifOptArr, verifOptObj:
		open, close := byte('['), byte(']')
		if o.kind == verifOptObj {
			open, close = '{', '}'
		}
		nd := &verifNode{kind: open, size: o.size}
		nd.pos = g.emit(uint64(open)<<56 | uint64(len(g.tape)+o.size))
		nd.kids = g.list(o.size-2, depth+1, o.kind == verifOptObj)
		g.emit(uint64(close)<<56 | uint64(nd.pos))
		return nd
	}
	panic("bad option")
}

func (g *verifGen) valueOpts(rem int, depth int) []verifOpt {
	var opts []verifOpt
	if g.cfg.ones && rem >= 1 {
		opts = append(opts, verifOpt{verifOptOne, 1})
	}
	if g.cfg.nums && rem >= 2 {
		opts = append(opts, verifOpt{verifOptNum, 2})
	}
	if g.cfg.strs && rem >= 2 {
		opts = append(opts, verifOpt{verifOptStr, 2})
	}
	if depth < g.cfg.maxDepth {
		for s := 2; s <= rem; s++ {
			if g.cfg.arrays {
				opts = append(opts, verifOpt{verifOptArr, s})
			}
			if g.cfg.objects && (s == 2 || s >= 5 || (g.cfg.nops && s >= 3)) {
				opts = append(opts, verifOpt{verifOptObj, s})
			}
		}
	}
	return opts
}

// list fills exactly rem words with values (or key/value members) and NOP runs.
func (g *verifGen) list(rem int, depth int, obj bool) []*verifNode {
	var nodes []*verifNode
	for rem > 0 {
		var opts []verifOpt
		if g.cfg.nops {
			for r := 1; r <= rem && (g.cfg.maxNop == 0 || r <= g.cfg.maxNop); r++ {
				opts = append(opts, verifOpt{verifOptNop, r})
			}
		}
		if obj {
			kl := g.cfg.keyLen
			for _, o := range g.valueOpts(rem-2, depth) {
				_ = kl
				opts = append(opts, verifOpt{o.kind, o.size})
			}
		} else {
			opts = append(opts, g.valueOpts(rem, depth)...)
		}
		if len(opts) == 0 {
			verifAssume(false)
		}
		o := opts[verifChoice("item", len(opts))]
		if o.kind == verifOptNop {
			for k := o.size; k >= 1; k-- {
				g.emit(uint64('N')<<56 | uint64(k))
			}
			rem -= o.size
			continue
		}
		if obj {
			kl := g.cfg.keyLen
			if kl < 0 {
				kl = g.strLenChoice()
			}
			nodes = append(nodes, g.genString(kl))
			rem -= 2
		}
		nodes = append(nodes, g.value(o, depth))
		rem -= o.size
	}
	return nodes
}

// verifGenDoc builds a single-root tape of exactly T words (T >= 4) and its abstract document.
func verifGenDoc(cfg verifGenCfg, T int) (*ParsedJson, *verifNode) {
	g := &verifGen{cfg: cfg}
	if !cfg.inMsg {
		// copied-strings mode: nothing may depend on the input buffer, so its contents are arbitrary
		g.msg = nondetBytes("stale.message", 2)
	}
	g.emit(uint64('r')<<56 | uint64(T))
	var opts []verifOpt
	if cfg.arrays {
		opts = append(opts, verifOpt{verifOptArr, T - 2})
	}
	if cfg.objects {
		opts = append(opts, verifOpt{verifOptObj, T - 2})
	}
	o := opts[verifChoice("root", len(opts))]
	root := g.value(o, 0)
	g.emit(uint64('r')<<56 | 0)
	pj := &ParsedJson{Tape: g.tape, Strings: &TStrings{B: g.sb}, Message: g.msg}
	return pj, root
}

// ---------------------------------------------------------------------------------------
// comparison helpers (reference side)

func verifBytesEq(a, b []byte) bool {
	if len(a) != len(b) {
		return false
	}
	for i := range a {
		if a[i] != b[i] {
			return false
		}
	}
	return true
}

func verifTypeOf(kind byte) Type {
	switch kind {
	case '"':
		return TypeString
	case 'l':
		return TypeInt
	case 'u':
		return TypeUint
	case 'd':
		return TypeFloat
	case 'n':
		return TypeNull
	case 't', 'f':
		return TypeBool
	case '{':
		return TypeObject
	case '[':
		return TypeArray
	}
	return TypeNone
}

// verifCheckScalar asserts that the iterator's queued value is the scalar nd.
func verifCheckScalar(it *Iter, nd *verifNode) {
	verifAssert(it.Type() == verifTypeOf(nd.kind), "iterator type equals the document's value type")
	switch nd.kind {
	case '"':
		b, err := it.StringBytes()
		verifAssert(err == nil && verifBytesEq(b, nd.str), "StringBytes returns the string's bytes")
	case 'l':
		v, err := it.Int()
		verifAssert(err == nil && uint64(v) == nd.val, "Int returns the int64 payload")
	case 'u':
		v, err := it.Uint()
		verifAssert(err == nil && v == nd.val, "Uint returns the uint64 payload")
	case 'd':
		v, fl, err := it.FloatFlags()
		verifAssert(err == nil && verifF64bits(v) == nd.val && uint64(fl) == nd.flags, "FloatFlags returns payload and flags")
	case 't':
		v, err := it.Bool()
		verifAssert(err == nil && v, "Bool returns true")
	case 'f':
		v, err := it.Bool()
		verifAssert(err == nil && !v, "Bool returns false")
	case 'n':
		verifAssert(it.Type() == TypeNull, "null has TypeNull")
	}
}

// verifGenDocs builds a tape with two roots (as ParseND produces for two lines) of exactly T1 and T2 words.
func verifGenDocs(cfg verifGenCfg, T1, T2 int) (*ParsedJson, []*verifNode) {
	g := &verifGen{cfg: cfg}
	if !cfg.inMsg {
		g.msg = nondetBytes("stale.message", 2)
	}
	var roots []*verifNode
	for _, T := range []int{T1, T2} {
		start := len(g.tape)
		g.emit(uint64('r')<<56 | uint64(start+T))
		var opts []verifOpt
		if cfg.arrays {
			opts = append(opts, verifOpt{verifOptArr, T - 2})
		}
		if cfg.objects {
			opts = append(opts, verifOpt{verifOptObj, T - 2})
		}
		o := opts[verifChoice("root", len(opts))]
		roots = append(roots, g.value(o, 0))
		g.emit(uint64('r')<<56 | uint64(start))
	}
	pj := &ParsedJson{Tape: g.tape, Strings: &TStrings{B: g.sb}, Message: g.msg}
	return pj, roots
}
