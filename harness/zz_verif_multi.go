package simdjson

// T1.MultiRoot / T6.MultiRoot / Z1.MultiRoot: newline-delimited tapes (two roots): root-level iteration, marshalling
// (roots separated by a newline) and the serialize round trip (C02, C08, C10, C11).
func verifHarness_Multi_Roots() {
	T1 := 4 + verifChoice("T1", 4)
	T2 := 4 + verifChoice("T2", 4)
	cfg := verifCfgT6()
	pj, roots := verifGenDocs(cfg, T1, T2)
	verifAssert(verifWFTape(pj, false, false), "generated multi-root tape is well-formed")
	// root-level iteration through ParsedJson.ForEach
	n := 0
	err := pj.ForEach(func(i Iter) error {
		verifAssert(n < len(roots), "ForEach calls back at most once per root")
		verifCheckValue(&i, roots[n], verifModeAdvance)
		n++
		return nil
	})
	verifAssert(err == nil && n == len(roots), "ParsedJson.ForEach visits every root in order")
	verifCheckRootsGen(pj, roots)
	// marshal: roots joined by a newline
	var want []byte
	finite := true
	for i, r := range roots {
		if i > 0 {
			want = append(want, '\n')
		}
		var ok bool
		want, ok = verifRender(want, r)
		finite = finite && ok
	}
	it := pj.Iter()
	got, merr := it.MarshalJSONBuffer(nil)
	verifReach("Multi.marshal")
	if finite {
		verifAssert(merr == nil && verifBytesEq(got, want), "MarshalJSON of a newline-delimited tape = the roots' renderings joined by newlines")
	} else {
		verifAssert(merr != nil, "a non-finite float makes MarshalJSON fail")
	}
	// Interface: list of roots
	for _, o := range roots {
		for _, c := range verifObjectNodes(o) {
			verifAssume(verifKeysDistinct(c))
		}
	}
	it2 := pj.Iter()
	v, ierr := it2.Interface()
	rs, isList := v.([]interface{})
	verifAssert(ierr == nil && isList && len(rs) == len(roots), "Interface on a fresh iterator returns one value per root")
	for i, r := range roots {
		verifCheckIface(rs[i], r)
	}
	// serialize round trip
	s := verifNewSerializer()
	res, derr := s.Deserialize(s.Serialize(nil, *pj), nil)
	verifAssert(derr == nil && verifWFTape(res, true, false), "round trip of a newline-delimited tape succeeds and is well-formed")
	verifCheckRootsGen(res, roots)
	verifReach("Multi.done")
}

// verifCheckRootsGen: Advance/Root walk over all roots + flat AdvanceInto walk (as verifCheckRoots, for generated documents)
func verifCheckRootsGen(pj *ParsedJson, roots []*verifNode) {
	it := pj.Iter()
	for _, root := range roots {
		verifAssert(it.Advance() == TypeRoot, "one root element per document")
		var tmp Iter
		typ, rit, err := it.Root(&tmp)
		verifAssert(err == nil && typ == verifTypeOf(root.kind), "Root() yields the document's top-level container")
		verifCheckValue(rit, root, verifModeAdvanceIter)
	}
	verifAssert(it.Advance() == TypeNone, "nothing after the last root")
	fl := pj.Iter()
	for _, root := range roots {
		verifAssert(fl.AdvanceInto() == TagRoot, "root open")
		for _, ev := range verifFlatten(root, nil) {
			verifAssert(fl.AdvanceInto() == Tag(ev.tag), "tape entries follow document order")
		}
		verifAssert(fl.AdvanceInto() == TagRoot, "root close")
	}
	verifAssert(fl.AdvanceInto() == TagEnd, "end of tape")
}
