package simdjson

// T4 (in-place replacement, C13) and T5 (deletion, C14): run the real editors on generated
// well-formed tapes, update the abstract document by the specification, then let every reader
// of T1 walk the result, check the documented tape format and the frame condition.

func verifValueNodes(nd *verifNode, out []*verifNode) []*verifNode {
	out = append(out, nd)
	switch nd.kind {
	case '[':
		for _, k := range nd.kids {
			out = verifValueNodes(k, out)
		}
	case '{':
		for i := 1; i < len(nd.kids); i += 2 {
			out = verifValueNodes(nd.kids[i], out)
		}
	}
	return out
}

func verifContainerNodes(nd *verifNode, out []*verifNode) []*verifNode {
	if nd.kind == '[' || nd.kind == '{' {
		out = append(out, nd)
		step, first := 1, 0
		if nd.kind == '{' {
			step, first = 2, 1
		}
		for i := first; i < len(nd.kids); i += step {
			out = verifContainerNodes(nd.kids[i], out)
		}
	}
	return out
}

// verifSeek positions an iterator on nd using only AdvanceInto from the start of the tape.
func verifSeek(pj *ParsedJson, nd *verifNode) Iter {
	it := pj.Iter()
	for {
		tag := it.AdvanceInto()
		verifAssume(tag != TagEnd)
		if it.off-1 == nd.pos {
			return it
		}
	}
}

// verifSeekVia reaches nd through its parent's element iteration (Advance / NextElementBytes),
// which hands out iterators over a restricted tape slice.
func verifSeekVia(pj *ParsedJson, parent, nd *verifNode) Iter {
	pit := verifSeek(pj, parent)
	if parent.kind == '[' {
		arr, err := pit.Array(nil)
		verifAssume(err == nil)
		ai := arr.Iter()
		for _, k := range parent.kids {
			ai.Advance()
			if k == nd {
				return ai
			}
		}
	} else {
		obj, err := pit.Object(nil)
		verifAssume(err == nil)
		var el Iter
		for i := 1; i < len(parent.kids); i += 2 {
			obj.NextElementBytes(&el)
			if parent.kids[i] == nd {
				return el
			}
		}
	}
	verifAssume(false)
	return Iter{}
}

func verifParentOf(root, nd *verifNode) *verifNode {
	for _, c := range verifContainerNodes(root, nil) {
		step, first := 1, 0
		if c.kind == '{' {
			step, first = 2, 1
		}
		for i := first; i < len(c.kids); i += step {
			if c.kids[i] == nd {
				return c
			}
		}
	}
	return nil
}

func verifSnapshot(pj *ParsedJson) ([]uint64, []byte) {
	t := make([]uint64, len(pj.Tape))
	copy(t, pj.Tape)
	s := make([]byte, len(pj.Strings.B))
	copy(s, pj.Strings.B)
	return t, s
}

// verifReadBack: every traversal API agrees on the document; the tape is well formed.
func verifReadBack(pj *ParsedJson, root *verifNode) {
	verifAssert(verifWFTape(pj, false, true), "tape obeys the documented format after the edit")
	for mode := verifModeAdvance; mode <= verifModeForEach; mode++ {
		it := pj.Iter()
		verifAssert(it.Advance() == TypeRoot, "tape starts with a root")
		_, rit, err := it.Root(nil)
		verifAssert(err == nil, "Root() succeeds")
		verifCheckValue(rit, root, mode)
	}
	evs := verifFlatten(root, nil)
	it := pj.Iter()
	verifAssert(it.AdvanceInto() == TagRoot, "AdvanceInto enters the root")
	for _, ev := range evs {
		tag := it.AdvanceInto()
		verifAssert(tag == Tag(ev.tag), "AdvanceInto yields the next live entry in document order")
		if ev.nd != nil && ev.nd.kind != '[' && ev.nd.kind != '{' {
			verifCheckScalar(&it, ev.nd)
		}
	}
	verifAssert(it.AdvanceInto() == TagRoot && it.AdvanceInto() == TagEnd, "closing root then end of tape")
}

func verifCfgEdit() verifGenCfg {
	return verifGenCfg{nops: true, objects: true, arrays: true, strs: true, nums: true, ones: true, maxDepth: 3,
		strLen: 1, strLen2: -1, keyLen: 1, maxNop: 2}
}

func verifIsNumOrStr(k byte) bool { return k == 'l' || k == 'u' || k == 'd' || k == '"' }

// one Set* call on a chosen value position
func verifSetStep(pj *ParsedJson, root *verifNode) {
	vals := verifValueNodes(root, nil)
	nd := vals[verifChoice("pos", len(vals))]
	var it Iter
	parent := verifParentOf(root, nd)
	if parent != nil && verifChoice("via", 2) == 1 {
		it = verifSeekVia(pj, parent, nd)
	} else {
		it = verifSeek(pj, nd)
	}
	before, sbefore := verifSnapshot(pj)
	op := verifChoice("op", 6)
	var err error
	allowed := false
	old := *nd
	switch op {
	case 0:
		err = it.SetNull()
		allowed = true
		if allowed {
			nd.kind, nd.kids = 'n', nil
		}
	case 1:
		v := nondetBool("setbool")
		err = it.SetBool(v)
		allowed = nd.kind == 't' || nd.kind == 'f' || nd.kind == 'n'
		if allowed {
			if v {
				nd.kind = 't'
			} else {
				nd.kind = 'f'
			}
		}
	case 2:
		v := nondetI64("setint")
		err = it.SetInt(v)
		allowed = verifIsNumOrStr(nd.kind)
		if allowed {
			nd.kind, nd.val, nd.flags = 'l', uint64(v), 0
		}
	case 3:
		v := nondetU64("setuint")
		err = it.SetUInt(v)
		allowed = verifIsNumOrStr(nd.kind)
		if allowed {
			nd.kind, nd.val, nd.flags = 'u', v, 0
		}
	case 4:
		v := nondetU64("setfloat")
		err = it.SetFloat(verifF64frombits(v))
		allowed = verifIsNumOrStr(nd.kind)
		if allowed {
			nd.kind, nd.val, nd.flags = 'd', v, 0
		}
	case 5:
		b := nondetBytes("setstr", verifChoice("setstrlen", 2))
		if verifChoice("strapi", 2) == 1 {
			err = it.SetString(string(b))
		} else {
			err = it.SetStringBytes(b)
		}
		allowed = verifIsNumOrStr(nd.kind)
		if allowed {
			nd.kind, nd.str = '"', b
		}
	}
	verifReach("T4.set")
	if !allowed {
		verifAssert(err != nil, "a Set call the documentation disallows for this type returns an error")
		same := len(pj.Tape) == len(before) && len(pj.Strings.B) == len(sbefore)
		for j := 0; same && j < len(before); j++ {
			same = pj.Tape[j] == before[j]
		}
		for j := 0; same && j < len(sbefore); j++ {
			same = pj.Strings.B[j] == sbefore[j]
		}
		verifAssert(same, "a rejected Set call changes nothing")
		return
	}
	verifAssert(err == nil, "a Set call the documentation allows succeeds")
	// frame: nothing outside the addressed value's words changes
	frame := len(pj.Tape) == len(before)
	for j := 0; frame && j < len(before); j++ {
		if j < old.pos || j >= old.pos+old.size {
			frame = pj.Tape[j] == before[j]
		}
	}
	verifAssert(frame, "tape words outside the addressed value are untouched")
	// the iterator that made the call sees the new value
	if nd.kind != '[' && nd.kind != '{' {
		verifCheckScalar(&it, nd)
	}
}

func verifHarness_T4_Set() {
	T := nondetSize("T")
	pj, root := verifGenDoc(verifCfgEdit(), T)
	steps := 1 + verifChoice("steps", 3)
	for s := 0; s < steps; s++ {
		verifSetStep(pj, root)
		verifReadBack(pj, root)
	}
	verifReach("T4.done")
}

// ---------------------------------------------------------------------------------------
// T5 deletion

func verifKeysDistinct(c *verifNode) bool {
	ok := true
	for i := 0; i < len(c.kids); i += 2 {
		for j := i + 2; j < len(c.kids); j += 2 {
			if verifBytesEq(c.kids[i].str, c.kids[j].str) {
				ok = false
			}
		}
	}
	return ok
}

func verifDeleteStep(pj *ParsedJson, root *verifNode) {
	cs := verifContainerNodes(root, nil)
	c := cs[verifChoice("cont", len(cs))]
	it := verifSeek(pj, c)
	before, _ := verifSnapshot(pj)
	var keep []*verifNode
	if c.kind == '[' {
		arr, err := it.Array(nil)
		verifAssert(err == nil, "Array() succeeds")
		idx := 0
		arr.DeleteElems(func(e Iter) bool {
			verifAssert(idx < len(c.kids), "DeleteElems visits at most once per element")
			verifCheckValue(&e, c.kids[idx], verifModeAdvance)
			del := verifChoice("del", 2) == 1
			if !del {
				keep = append(keep, c.kids[idx])
			}
			idx++
			return del
		})
		verifAssert(idx == len(c.kids), "DeleteElems visits every element once, in order")
	} else {
		obj, err := it.Object(nil)
		verifAssert(err == nil, "Object() succeeds")
		variant := verifChoice("objvariant", 4) // 0: fn only, 1: filter only, 2: both, 3: neither (delete all)
		var filter map[string]struct{}
		var fkeys [][]byte
		if variant == 1 || variant == 2 {
			verifAssume(verifKeysDistinct(c))
			filter = map[string]struct{}{}
			nf := 1 + verifChoice("nfilter", 2)
			for f := 0; f < nf; f++ {
				k := nondetBytes("fkey", 1)
				for _, o := range fkeys {
					verifAssume(!verifBytesEq(o, k))
				}
				fkeys = append(fkeys, k)
				filter[string(k)] = struct{}{}
			}
		}
		inFilter := func(k []byte) bool {
			if filter == nil {
				return true
			}
			for _, f := range fkeys {
				if verifBytesEq(f, k) {
					return true
				}
			}
			return false
		}
		// expected visiting order: members whose key passes the filter
		var expect []int
		for i := 0; i < len(c.kids); i += 2 {
			if inFilter(c.kids[i].str) {
				expect = append(expect, i)
			}
		}
		vis := 0
		deleted := map[int]bool{}
		var fn func(key []byte, e Iter) bool
		if variant == 0 || variant == 2 {
			fn = func(key []byte, e Iter) bool {
				verifAssert(vis < len(expect), "Object.DeleteElems visits at most the selected members")
				i := expect[vis]
				verifAssert(verifBytesEq(key, c.kids[i].str), "Object.DeleteElems passes each member's own key, in order")
				verifCheckValue(&e, c.kids[i+1], verifModeAdvance)
				del := verifChoice("del", 2) == 1
				if del {
					deleted[i] = true
				}
				vis++
				return del
			}
		} else {
			for _, i := range expect {
				deleted[i] = true
			}
		}
		err = obj.DeleteElems(fn, filter)
		verifAssert(err == nil, "Object.DeleteElems succeeds on a well-formed object")
		if fn != nil {
			verifAssert(vis == len(expect), "Object.DeleteElems visits every selected member once")
		}
		for i := 0; i < len(c.kids); i += 2 {
			if !deleted[i] {
				keep = append(keep, c.kids[i], c.kids[i+1])
			}
		}
	}
	c.kids = keep
	verifReach("T5.delete")
	frame := len(pj.Tape) == len(before)
	for j := 0; frame && j < len(before); j++ {
		if j <= c.pos || j >= c.pos+c.size-1 {
			frame = pj.Tape[j] == before[j]
		}
	}
	verifAssert(frame, "tape words outside the container's content are untouched by DeleteElems")
}

func verifHarness_T5_Delete() {
	T := nondetSize("T")
	pj, root := verifGenDoc(verifCfgEdit(), T)
	steps := 1 + verifChoice("steps", 3)
	for s := 0; s < steps; s++ {
		if verifChoice("kind", 2) == 0 {
			verifDeleteStep(pj, root)
		} else {
			verifSetStep(pj, root)
		}
		verifReadBack(pj, root)
	}
	verifReach("T5.done")
}
