package simdjson

// E-esc: escapeBytes = REF-ESC (JSON string escaping per byte), and unescaping the result
// (REF-STR, the eight two-character escapes and \u00XX) gives back the input (C10).

const verifHex = "0123456789abcdef"

func verifRefEsc(dst []byte, src []byte) []byte {
	for _, c := range src {
		switch {
		case c == '"':
			dst = append(dst, '\\', '"')
		case c == '\\':
			dst = append(dst, '\\', '\\')
		case c == '\b':
			dst = append(dst, '\\', 'b')
		case c == '\f':
			dst = append(dst, '\\', 'f')
		case c == '\n':
			dst = append(dst, '\\', 'n')
		case c == '\r':
			dst = append(dst, '\\', 'r')
		case c == '\t':
			dst = append(dst, '\\', 't')
		case c < 0x20:
			dst = append(dst, '\\', 'u', '0', '0', verifHex[c>>4], verifHex[c&0xf])
		default:
			dst = append(dst, c)
		}
	}
	return dst
}

func verifHexVal(c byte) int {
	switch {
	case c >= '0' && c <= '9':
		return int(c - '0')
	case c >= 'a' && c <= 'f':
		return int(c-'a') + 10
	case c >= 'A' && c <= 'F':
		return int(c-'A') + 10
	}
	return -1
}

// verifRefUnesc decodes a JSON string body restricted to what an escaper may emit
// (two-character escapes and \u00XX); ok=false on anything a JSON parser would reject.
func verifRefUnesc(s []byte) ([]byte, bool) {
	var out []byte
	for i := 0; i < len(s); {
		c := s[i]
		if c < 0x20 || c == '"' {
			return nil, false
		}
		if c != '\\' {
			out = append(out, c)
			i++
			continue
		}
		if i+1 >= len(s) {
			return nil, false
		}
		switch s[i+1] {
		case '"', '\\', '/':
			out = append(out, s[i+1])
		case 'b':
			out = append(out, '\b')
		case 'f':
			out = append(out, '\f')
		case 'n':
			out = append(out, '\n')
		case 'r':
			out = append(out, '\r')
		case 't':
			out = append(out, '\t')
		case 'u':
			if i+5 >= len(s) || s[i+2] != '0' || s[i+3] != '0' {
				return nil, false
			}
			h, l := verifHexVal(s[i+4]), verifHexVal(s[i+5])
			if h < 0 || l < 0 || h > 7 {
				return nil, false
			}
			out = append(out, byte(h<<4|l))
			i += 4
		default:
			return nil, false
		}
		i += 2
	}
	return out, true
}

func verifHarness_Esc() {
	n := verifChoice("len", 5)
	src := nondetBytes("src", n)
	orig := make([]byte, n)
	copy(orig, src)
	var pre []byte
	if verifChoice("prefix", 2) == 1 {
		pre = []byte{'"'}
	}
	got := escapeBytes(pre, src)
	want := verifRefEsc(pre, orig)
	verifReach("Esc")
	verifAssert(verifBytesEq(got, want), "escapeBytes output = per-byte JSON escaping appended to dst")
	verifAssert(verifBytesEq(src, orig), "escapeBytes does not modify its source")
	back, ok := verifRefUnesc(got[len(pre):])
	verifAssert(ok && verifBytesEq(back, orig), "the escaped text is a valid JSON string body that decodes to the original bytes")
}
