package simdjson

// U3: the stage-1 driver findStructuralIndices on its own — 64-byte blocks, padded tail, early return of the kernel
// once the index buffer holds `limit` entries, strip/restore of a dangling non-markup index, position bookkeeping
// across buffers, the end-of-message verdict and the terminator — with the assembly kernel replaced by its contract
// (lemmas A1-A7 + the carry contract), driven by a free layout: token starts at arbitrary gaps, an optional tail
// of non-structural bytes after the last token start (an unfinished atom or string), message bytes fully symbolic.
// What stage 2 would read from the channel is reconstructed and compared with the layout.

func verifHarness_U3_Stage1Driver() {
	gaps := []int{1, 5, 64, 131}
	tails := []int{0, 1, 70, 140}
	K := 1 + verifChoice("K", 5)
	pos := make([]int, K)
	p := 0
	for i := 0; i < K; i++ {
		pos[i] = p
		if i < K-1 {
			p += gaps[verifChoice("g", len(gaps))]
		}
	}
	tail := tails[verifChoice("tail", len(tails))]
	N := pos[K-1] + 1 + tail
	msg := nondetBytes("msg", N)
	last := msg[pos[K-1]]
	if tail > 0 {
		// bytes after the last token start that are not structural belong to that token: it is an atom or a string, not markup
		verifAssume(!jsonMarkup(last))
	}
	want := make([]uint8, N)
	for _, q := range pos {
		want[q] = 1
	}
	verifWant = want
	if e := verifChoice("stage1err", 4); e >= 1 {
		verifStage1ErrAt = e - 1
	}
	verifEndInQuote = verifChoice("endq", 2) == 1
	pj := &internalParsedJson{}
	pj.buffersOffset = ^uint64(0)
	pj.Message = msg
	pj.indexChans = make(chan indexChan, indexSlots-2)
	if verifChoice("ndjson", 2) == 1 {
		pj.ndjson = 1
		verifWantNdjson = 1
	}
	ok := pj.findStructuralIndices()
	verifReach("U3.returned")
	idx := ^uint64(0)
	k := 0
	for {
		verifAssert(len(pj.indexChans) > 0, "findStructuralIndices ends the index stream with a terminator on every exit")
		ic := <-pj.indexChans
		if ic.index == -1 {
			break
		}
		verifAssert(ic.index == 0 && ic.length >= 1 && ic.length <= indexSize, "every buffer sent holds at least one index and starts at 0")
		for j := 0; j < ic.length; j++ {
			idx += uint64(ic.indexes[j])
			verifAssert(k < K && idx == uint64(pos[k]), "the index stream names exactly the structural positions of the message, in order, each once")
			k++
		}
	}
	verifAssert(len(pj.indexChans) == 0, "nothing follows the terminator")
	expect := !verifStage1ErrInjected && !verifEndInQuote && tail == 0 && (last == '}' || last == ']')
	verifAssert(ok == expect, "stage 1 succeeds exactly when no error bit was raised, the message does not end inside a string and its last structural is '}' or ']'")
	if ok {
		verifReach("U3.ok")
		verifAssert(k == K, "on success every structural position has been delivered")
	}
}

// Native twin of the kernel contract stub (vsym/e2/intr_stage2.py: kernel), used only when a U3 counterexample is
// replayed: the replay build routes find_structural_bits_in_slice[_avx512] here (replay patch "kernelcontract"), because
// U3 leaves the message bytes free, so the real kernel would not reproduce the layout the model chose. The driver under
// test stays the real one.
var verifS1Abs, verifS1Calls int
var verifS1Carry [3]uint64
var verifS1HaveCarry bool

func verifKernelContract(buf []byte, pOdd, pInq, pErr, pPP *uint64, indexes *[indexSize]uint32, index *int, carried, position *uint64, ndjson uint64) uint64 {
	n := len(buf)
	if n == 0 {
		return 0
	}
	exp := [3]uint64{0, 0, 1}
	if verifS1HaveCarry {
		exp = verifS1Carry
	}
	if *pOdd != exp[0] || *pInq != exp[1] || *pPP != exp[2] {
		panic("VERIF kernel contract: scanner carries not handed over from the previous kernel call")
	}
	want := verifWant
	idx := *index
	pos := *position
	car := *carried
	processed := 0
	for processed < n {
		blockend := processed + 64
		if blockend > n {
			blockend = n
		}
		last := -1
		for q := processed; q < blockend; q++ {
			a := verifS1Abs + q
			if a < len(want) && want[a] == 1 {
				var delta uint64
				if last < 0 {
					delta = uint64(q-processed+1) + car
				} else {
					delta = uint64(q - last)
				}
				indexes[idx] = uint32(delta)
				idx++
				pos += delta
				last = q
			}
		}
		if last < 0 {
			car += 64
		} else {
			car = uint64(63 - (last - processed))
		}
		processed = blockend
		if idx >= verifIndexLimit {
			break
		}
	}
	*index = idx
	*position = pos
	*carried = car
	atEnd := verifS1Abs+processed >= len(want)
	c := uint64(verifS1Calls)
	verifS1Carry = [3]uint64{0xA0000000 + c, 0xC0000000 + c, 0xB0000000 + c}
	if atEnd {
		verifS1Carry[1] = 0
		if verifEndInQuote {
			verifS1Carry[1] = ^uint64(0)
		}
	}
	verifS1HaveCarry = true
	*pOdd, *pInq, *pPP = verifS1Carry[0], verifS1Carry[1], verifS1Carry[2]
	if verifStage1ErrAt == verifS1Calls {
		*pErr |= 1
		verifStage1ErrInjected = true
	}
	verifS1Abs += processed
	verifS1Calls++
	return uint64(processed)
}
