package simdjson

// E3 (concurrency encoder) harness for C07: entry points and the nondeterministic stage-2 driver.
//
// Under vsym/e3 the goroutine bodies of parseMessage are executed from the SSA with channel
// operations, atomics, WaitGroup operations and ring accesses recorded as events. The call of
// (*internalParsedJson).unifiedMachine is redirected to verifE3Stage2 below, which drives the
// REAL updateChar/peekSize and may fail after any call. The functions in this file whose names
// start with verifE3 and that have "intercepted" in their comment are never executed natively
// (native replay runs the unmodified stage 2 on a crafted document instead).

// verifE3Message returns the n-byte message of the run (intercepted: first byte '{', last byte
// '}', everything else symbolic).
func verifE3Message(n int) []byte {
	b := make([]byte, n)
	for i := range b {
		b[i] = ','
	}
	if n > 0 {
		b[0] = '{'
		b[n-1] = '}'
	}
	return b
}

// verifE3Skip models zero or more further successful updateChar calls on the buffer currently
// held (intercepted): pj.indexesChan.index becomes any value in [index, max(index,length)]
// (toEnd: exactly max(index,length)); every skipped call is a read of the held ring slot
// (lemma Q1.step proves that shape on the real updateChar from an arbitrary state).
func verifE3Skip(pj *internalParsedJson, toEnd bool) {
	if pj.indexesChan.index < pj.indexesChan.length {
		pj.indexesChan.index = pj.indexesChan.length
	}
}

// verifE3Outcome records the result of the region (intercepted).
func verifE3Outcome(failed bool) {}

// verifE3Stage2 stands in for unifiedMachine: per index buffer it calls the real updateChar (which
// performs the channel receive), optionally consumes further indexes, calls the real peekSize, and
// may give up (return ok=false, done=false) right after the receive or at any later index. After the
// terminator it returns done=true with an arbitrary verdict (unifiedMachine's sanity check).
func verifE3Stage2(pj *internalParsedJson) (ok, done bool) {
	idx := ^uint64(0)
	for {
		if done, idx = updateChar(pj, idx); done {
			return nondetBool("e3.s2.okAtEnd"), true
		}
		if nondetBool("e3.s2.failAfterRecv") {
			return false, false
		}
		verifE3Skip(pj, false)
		_ = peekSize(pj)
		if nondetBool("e3.s2.failMid") {
			return false, false
		}
		verifE3Skip(pj, true)
	}
}

// verifE3Stage2Fail stands in for unifiedMachine in the sync-path lemma G2, where only the producer's sends matter:
// stage 2 gives up at once (so the real drain loop of the sync branch runs over everything stage 1 sent).
func verifE3Stage2Fail(pj *internalParsedJson) (ok, done bool) {
	return false, false
}

// verifE3_ParseAsync: one call of the real parseMessage on a message longer than the async
// threshold (length fixed by the encoder from the threshold literal found in the SSA).
func verifE3_ParseAsync() {
	n := verifChoice("e3.msglen", 1<<30)
	pj := &internalParsedJson{}
	msg := verifE3Message(n)
	err := pj.parseMessage(msg, nondetBool("e3.ndjson"))
	verifE3Outcome(err != nil)
}

// verifE3_UpdateCharStep: one updateChar call from an arbitrary consumer state with index < length
// (the inductive step behind verifE3Skip).
func verifE3_UpdateCharStep() {
	pj := &internalParsedJson{}
	pj.indexChans = make(chan indexChan, 1)
	slot := verifChoice("e3.step.slot", indexSlots)
	pj.indexesChan.indexes = &pj.buffers[slot]
	pj.indexesChan.index = nondetInt("e3.step.index")
	pj.indexesChan.length = nondetInt("e3.step.length")
	verifAssume(pj.indexesChan.index >= 0 && pj.indexesChan.index < pj.indexesChan.length && pj.indexesChan.length <= indexSize)
	before := pj.indexesChan.index
	done, _ := updateChar(pj, nondetU64("e3.step.idx"))
	verifReach("Q1.step")
	verifAssert(!done, "Q1.step: updateChar with index<length reported done")
	verifAssert(pj.indexesChan.index == before+1, "Q1.step: updateChar with index<length did not advance index by one")
	verifAssert(pj.indexesChan.indexes == &pj.buffers[slot], "Q1.step: updateChar changed the held buffer without a receive")
	_ = peekSize(pj)
	verifAssert(pj.indexesChan.index == before+1 && pj.indexesChan.indexes == &pj.buffers[slot], "Q1.step: peekSize changed the consumer state")
}
