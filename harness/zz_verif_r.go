package simdjson

import (
	"math"
	"strconv"
)

// R2: appendFloat = encoding/json's float encoder (format switch at 1e-6 / 1e21, exponent clean-up),
// with the digit generators ('e' and 'f' formatting of the shortest digits) as shared opaque chunks.
// This is a line-by-line transcription of encoding/json.floatEncoder.encode for 64-bit floats.
func verifRefJSONFloat(dst []byte, f float64) ([]byte, bool) {
	if math.IsInf(f, 0) || math.IsNaN(f) {
		return nil, false
	}
	b := dst
	abs := math.Abs(f)
	fmt := byte('f')
	if abs != 0 {
		if abs < 1e-6 || abs >= 1e21 {
			fmt = 'e'
		}
	}
	b = strconv.AppendFloat(b, f, fmt, -1, 64)
	if fmt == 'e' {
		// clean up e-09 to e-9
		n := len(b)
		if n >= 4 && b[n-4] == 'e' && b[n-3] == '-' && b[n-2] == '0' {
			b[n-2] = b[n-1]
			b = b[:n-1]
		}
	}
	return b, true
}

func verifHarness_R2_AppendFloat() {
	bits := nondetU64("f")
	f := verifF64frombits(bits)
	var pre []byte
	if verifChoice("prefix", 2) == 1 {
		pre = make([]byte, 1, 40)
		pre[0] = '['
	}
	got, err := appendFloat(pre, f)
	var pre2 []byte
	if pre != nil {
		pre2 = make([]byte, 1, 40)
		pre2[0] = '['
	}
	want, ok := verifRefJSONFloat(pre2, f)
	verifReach("R2.appendFloat")
	if !ok {
		verifAssert(err != nil, "a non-finite float yields an error, never output")
		return
	}
	verifAssert(err == nil, "a finite float is formatted")
	verifAssert(verifBytesEq(got, want), "appendFloat = encoding/json's float encoder (ECMAScript format switch and exponent clean-up)")
}

// Fixed point of MarshalJSON (C10): text printed for a float must re-parse to a value that prints the same text.
// Output with a fraction or exponent re-parses as the same float (shortest round trip, trusted) and prints
// identically; output WITHOUT '.'/'e' re-parses as an integer (int64 / uint64 / overflowed float), which prints
// its canonical decimal digits: the text must therefore already be a canonical integer literal.
func verifHarness_FP_FloatText() {
	bits := nondetU64("f")
	f := verifF64frombits(bits)
	abs := math.Abs(f)
	verifAssume((abs >= 1e-6 && abs < 1e21) || abs == 0) // the range appendFloat prints in 'f' format
	if verifKnownFinding("F10") {
		verifAssume(bits != 1<<63) // -0.0
	}
	s := appendFloatF(make([]byte, 0, 64), f)
	verifReach("FP.floattext")
	integral := true
	for _, c := range s {
		if c == '.' {
			integral = false
		}
	}
	if !integral {
		return
	}
	d := s
	if len(d) > 0 && d[0] == '-' {
		d = d[1:]
		verifAssert(len(d) > 0 && d[0] != '0', "a negative float printed without fraction is a canonical integer literal (not -0)")
	} else {
		verifAssert(len(d) > 0 && (d[0] != '0' || len(d) == 1), "a float printed without fraction is a canonical integer literal")
	}
}

// R1bc: appendFloatF = strconv.AppendFloat(dst, f, 'f', -1, 64), both executed from their real code with the
// shortest-digit generator ryuFtoaShortest replaced on both sides by the same opaque function of (mantissa, exponent).
func verifHarness_R1_FormatF() {
	bits := nondetU64("f")
	f := verifF64frombits(bits)
	verifAssume(!math.IsInf(f, 0) && !math.IsNaN(f))
	a := appendFloatF(make([]byte, 0, 64), f)
	b := strconv.AppendFloat(make([]byte, 0, 64), f, 'f', -1, 64)
	verifReach("R1.formatF")
	verifAssert(verifBytesEq(a, b), "appendFloatF = strconv.AppendFloat(...,'f',-1,64)")
}
