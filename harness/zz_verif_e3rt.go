package simdjson

// Native replay runtime for E3 counterexamples (only ever compiled into a `go test -overlay` run, together with
// copies of the repository files in which cmd/e3instr has put verifE3Pre/verifE3Post around the event sites).
// A schedule is a list of steps; each step names a logical thread, a source site and an occurrence, and a slot
// number. Steps are let through strictly in slot order (steps sharing a slot — the two halves of a rendezvous —
// together); everything else runs freely. If the schedule cannot be followed (a scheduled step would have to wait
// longer than the deadline) the run says so and the counterexample counts as not reproduced.

import (
	"bytes"
	"fmt"
	"runtime"
	"strconv"
	"sync"
	"time"
)

type verifE3Step struct {
	Tid  string
	Site string
	Seg  int // access steps: number of event-site executions of the thread before it; event steps: -1
	Occ  int // event steps: occurrence of the site in the thread (1-based); access steps: occurrence within the segment
}

type verifE3Cur struct {
	slot   int
	listed bool
}

var verifE3 struct {
	mu       sync.Mutex
	cond     *sync.Cond
	on       bool
	slotOf   map[verifE3Step]int
	need     map[int]int
	doneIn   map[int]int
	cursor   int
	nslots   int
	evSite   map[string]bool
	preOnly  map[int]bool
	alias    map[string]string // access sites that stand for the same step ("any of these statements")
	occ      map[[2]string]int
	segOcc   map[[3]string]int
	segs     map[string]int
	cur      map[int64][]verifE3Cur
	tids     map[int64]string
	nchild   map[string]int
	failed   string
	deadline time.Duration
	log      []string
}

func verifE3Goid() int64 {
	var buf [64]byte
	n := runtime.Stack(buf[:], false)
	f := bytes.Fields(buf[:n])
	id, _ := strconv.ParseInt(string(f[1]), 10, 64)
	return id
}

// verifE3Start arms the scheduler; the calling goroutine is logical thread "0".
func verifE3Start(steps []verifE3Step, slots []int, preOnly []int, eventSites []string, alias map[string]string, deadline time.Duration) {
	s := &verifE3
	s.mu.Lock()
	defer s.mu.Unlock()
	s.cond = sync.NewCond(&s.mu)
	s.slotOf = map[verifE3Step]int{}
	s.need = map[int]int{}
	s.doneIn = map[int]int{}
	s.nslots = 0
	for i, st := range steps {
		s.slotOf[st] = slots[i]
		s.need[slots[i]]++
		if slots[i]+1 > s.nslots {
			s.nslots = slots[i] + 1
		}
	}
	s.cursor = 0
	s.alias = alias
	s.preOnly = map[int]bool{}
	for _, p := range preOnly {
		s.preOnly[p] = true
	}
	s.evSite = map[string]bool{}
	for _, e := range eventSites {
		s.evSite[e] = true
	}
	s.occ = map[[2]string]int{}
	s.segOcc = map[[3]string]int{}
	s.segs = map[string]int{}
	s.cur = map[int64][]verifE3Cur{}
	s.tids = map[int64]string{verifE3Goid(): "0"}
	s.nchild = map[string]int{}
	s.failed = ""
	s.deadline = deadline
	s.log = nil
	s.on = true
	go func() { // wake waiters periodically so that they can notice the deadline
		for {
			time.Sleep(20 * time.Millisecond)
			s.mu.Lock()
			on := s.on
			s.cond.Broadcast()
			s.mu.Unlock()
			if !on {
				return
			}
		}
	}()
}

// verifE3Stop disarms the scheduler and reports (steps completed, total, failure text).
func verifE3Stop() (int, int, string) {
	s := &verifE3
	s.mu.Lock()
	defer s.mu.Unlock()
	s.on = false
	if s.cond != nil {
		s.cond.Broadcast()
	}
	return s.cursor, s.nslots, s.failed
}

func verifE3Tid() string {
	t, ok := verifE3.tids[verifE3Goid()]
	if !ok {
		return "?"
	}
	return t
}

func verifE3Spawn(site string) string {
	s := &verifE3
	s.mu.Lock()
	defer s.mu.Unlock()
	if !s.on {
		return ""
	}
	p := verifE3Tid()
	s.nchild[p]++
	return p + "." + strconv.Itoa(s.nchild[p])
}

func verifE3Enter(t string) {
	s := &verifE3
	s.mu.Lock()
	defer s.mu.Unlock()
	if s.on && t != "" {
		s.tids[verifE3Goid()] = t
	}
}

func verifE3Pre(site string) {
	s := &verifE3
	s.mu.Lock()
	defer s.mu.Unlock()
	if !s.on {
		return
	}
	g := verifE3Goid()
	tid := verifE3Tid()
	var st verifE3Step
	if a, ok := s.alias[site]; ok && !s.evSite[site] {
		site = a
	}
	if s.evSite[site] {
		k := [2]string{tid, site}
		s.occ[k]++
		st = verifE3Step{tid, site, -1, s.occ[k]}
		s.segs[tid]++
	} else {
		k := [3]string{tid, site, strconv.Itoa(s.segs[tid])}
		s.segOcc[k]++
		st = verifE3Step{tid, site, s.segs[tid], s.segOcc[k]}
	}
	slot, listed := s.slotOf[st]
	if listed {
		t0 := time.Now()
		for s.on && s.cursor < slot {
			if time.Since(t0) > s.deadline {
				if s.failed == "" {
					s.failed = fmt.Sprintf("step %v (slot %d) still waiting for slot %d after %v", st, slot, s.cursor, s.deadline)
				}
				break
			}
			s.cond.Wait()
		}
		if len(s.log) < 4000 {
			s.log = append(s.log, fmt.Sprintf("%d:%s@%s#%d", slot, tid, site, st.Occ))
		}
		if s.preOnly[slot] {
			// this step only has to be *reached* (the operation itself may block): it completes here
			listed = false
			s.doneIn[slot]++
			for s.cursor < s.nslots && s.doneIn[s.cursor] >= s.need[s.cursor] {
				s.cursor++
			}
			s.cond.Broadcast()
		}
	}
	s.cur[g] = append(s.cur[g], verifE3Cur{slot, listed})
}

func verifE3Post(site string) {
	s := &verifE3
	s.mu.Lock()
	defer s.mu.Unlock()
	if !s.on {
		return
	}
	g := verifE3Goid()
	st := s.cur[g]
	if len(st) == 0 {
		return
	}
	c := st[len(st)-1]
	s.cur[g] = st[:len(st)-1]
	if c.listed {
		s.doneIn[c.slot]++
		for s.cursor < s.nslots && s.doneIn[s.cursor] >= s.need[s.cursor] {
			s.cursor++
		}
		s.cond.Broadcast()
	}
}
