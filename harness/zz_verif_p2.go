package simdjson

import (
	"math"
	"strconv"
)

// P2: parseNumber against REF-NUM (RFC 8259 number grammar + the C03 typing rule). The reference
// is branch-free (table driven) so that it is a single symbolic path.

// reference-side contracts for the exact integer value and for the (trusted, correctly rounded)
// float value of a literal; natively they are computed with the standard library.
func verifRefExactInt(lit []byte) (ok, neg, fitsI64Pos, fitsI64Neg, fitsU64 bool, mag uint64) {
	s := string(lit)
	if len(s) > 0 && (s[0] == '-' || s[0] == '+') {
		neg = s[0] == '-'
		s = s[1:]
	}
	if len(s) == 0 {
		return false, neg, false, false, false, 0
	}
	for i := 0; i < len(s); i++ {
		if s[i] < '0' || s[i] > '9' {
			return false, neg, false, false, false, 0
		}
	}
	u, err := strconv.ParseUint(s, 10, 64)
	if err != nil {
		return true, neg, false, false, false, 0
	}
	return true, neg, u < 1<<63, u <= 1<<63, true, u
}

func verifRefPF(lit []byte) (bits uint64, overflow bool) {
	f, err := strconv.ParseFloat(string(lit), 64)
	if err != nil {
		return math.Float64bits(f), true
	}
	return math.Float64bits(f), false
}

const (
	verifNcDigit0 = iota
	verifNcDigit19
	verifNcMinus
	verifNcPlus
	verifNcDot
	verifNcExp
	verifNcEOV
	verifNcOther
)

var verifNumClass = func() (t [256]uint8) {
	for i := range t {
		t[i] = verifNcOther
	}
	t['0'] = verifNcDigit0
	for c := '1'; c <= '9'; c++ {
		t[c] = verifNcDigit19
	}
	t['-'], t['+'], t['.'], t['e'], t['E'] = verifNcMinus, verifNcPlus, verifNcDot, verifNcExp, verifNcExp
	for _, c := range []byte{',', '}', ']', ' ', '\t', '\r', '\n', ':'} {
		t[c] = verifNcEOV
	}
	return
}()

// states of the JSON number DFA
const (
	verifNsStart = iota
	verifNsMinus
	verifNsZero
	verifNsInt
	verifNsDot
	verifNsFrac
	verifNsE
	verifNsESign
	verifNsExp
	verifNsDead
	verifNsDoneInt   // terminated after an integer literal
	verifNsDoneFloat // terminated after a literal with fraction and/or exponent
	verifNsCount
)

var verifNumNext = func() (t [256]uint8) {
	for i := range t {
		t[i] = verifNsDead
	}
	set := func(s, c, n int) { t[s*8+c] = uint8(n) }
	set(verifNsStart, verifNcMinus, verifNsMinus)
	set(verifNsStart, verifNcDigit0, verifNsZero)
	set(verifNsStart, verifNcDigit19, verifNsInt)
	set(verifNsMinus, verifNcDigit0, verifNsZero)
	set(verifNsMinus, verifNcDigit19, verifNsInt)
	set(verifNsZero, verifNcDot, verifNsDot)
	set(verifNsZero, verifNcExp, verifNsE)
	set(verifNsZero, verifNcEOV, verifNsDoneInt)
	set(verifNsInt, verifNcDigit0, verifNsInt)
	set(verifNsInt, verifNcDigit19, verifNsInt)
	set(verifNsInt, verifNcDot, verifNsDot)
	set(verifNsInt, verifNcExp, verifNsE)
	set(verifNsInt, verifNcEOV, verifNsDoneInt)
	set(verifNsDot, verifNcDigit0, verifNsFrac)
	set(verifNsDot, verifNcDigit19, verifNsFrac)
	set(verifNsFrac, verifNcDigit0, verifNsFrac)
	set(verifNsFrac, verifNcDigit19, verifNsFrac)
	set(verifNsFrac, verifNcExp, verifNsE)
	set(verifNsFrac, verifNcEOV, verifNsDoneFloat)
	set(verifNsE, verifNcPlus, verifNsESign)
	set(verifNsE, verifNcMinus, verifNsESign)
	set(verifNsE, verifNcDigit0, verifNsExp)
	set(verifNsE, verifNcDigit19, verifNsExp)
	set(verifNsESign, verifNcDigit0, verifNsExp)
	set(verifNsESign, verifNcDigit19, verifNsExp)
	set(verifNsExp, verifNcDigit0, verifNsExp)
	set(verifNsExp, verifNcDigit19, verifNsExp)
	set(verifNsExp, verifNcEOV, verifNsDoneFloat)
	for c := 0; c < 8; c++ {
		set(verifNsDoneInt, c, verifNsDoneInt)
		set(verifNsDoneFloat, c, verifNsDoneFloat)
	}
	return
}()

// verifNumLive[state] = 1 while the DFA is still reading the literal
var verifNumLive = func() (t [256]uint8) {
	for s := 0; s < verifNsDead; s++ {
		t[s] = 1
	}
	return
}()

// verifRefNumber runs the DFA (branch-free: one symbolic path); returns the final state and the
// literal length (bytes before the terminator).
func verifRefNumber(buf []byte) (state uint8, litLen int) {
	state = verifNsStart
	for _, b := range buf {
		litLen += int(verifNumLive[state])
		state = verifNumNext[state<<3|verifNumClass[b]]
	}
	// litLen counted the terminator too when the DFA finished
	return state, litLen - 1
}

func verifHarness_P2_ParseNumber() {
	L := 2 + verifChoice("L", 70)
	buf := nondetBytes("lit", L)
	// precondition established by the two call sites and by stage 1: first byte '-' or a digit, and the
	// message ends in '}' or ']'
	switch verifChoice("first", 3) {
	case 0:
		verifAssume(buf[0] == '-')
	case 1:
		verifAssume(buf[0] == '0')
	default:
		verifAssume(buf[0] >= '1' && buf[0] <= '9')
	}
	if verifChoice("last", 2) == 0 {
		verifAssume(buf[L-1] == '}')
	} else {
		verifAssume(buf[L-1] == ']')
	}
	if verifKnownFinding("F2") {
		// excluded: '-' '0' digit ... (leading zero after a minus sign on the float / long-integer path)
		verifAssume(!(buf[0] == '-' && buf[1] == '0' && verifNumClass[buf[2]] <= verifNcDigit19))
	}
	if verifChoice("shape", 2) == 1 {
		// long literals: the middle of the buffer is a run of digits, the first two and the last four
		// bytes before the terminator stay free (sign, leading zero, '.', exponent spellings at either end)
		for i := 2; i < L-5; i++ {
			verifAssume(buf[i] >= '0' && buf[i] <= '9')
		}
	}
	// through the real call path: addNumber appends tag|flags and value to the tape
	pj := &ParsedJson{}
	var tag, val uint64
	if addNumber(buf, pj) {
		verifAssert(len(pj.Tape) == 2, "addNumber appends exactly two tape words")
		tag, val = pj.Tape[0], pj.Tape[1]
		verifAssert(tag != 0, "an accepted number has a tag")
	} else {
		verifAssert(len(pj.Tape) == 0, "a rejected number leaves the tape untouched")
	}
	verifReach("P2.returned")
	state, litLen := verifRefNumber(buf)
	if state != verifNsDoneInt && state != verifNsDoneFloat {
		verifAssert(tag == 0, "parseNumber rejects everything that is not a JSON number followed by a structural or white-space byte")
		return
	}
	verifAssume(litLen >= 1)
	// literal length is symbolic in general: pin it
	n := verifChoice("litlen", L)
	verifAssume(n == litLen)
	lit := buf[:n]
	pf, overflow := verifRefPF(lit)
	floatTag := uint64(TagFloat) << JSONTAGOFFSET
	if state == verifNsDoneFloat {
		if overflow {
			verifAssert(tag == 0, "a literal whose value is not finite is rejected")
		} else {
			verifAssert(tag == floatTag && val == pf, "fraction/exponent literal: float64, no flag, value = correctly rounded literal")
		}
		return
	}
	_, neg, fitsPos, fitsNeg, fitsU64, mag := verifRefExactInt(lit)
	switch {
	case !neg && fitsPos:
		verifAssert(tag == uint64(TagInteger)<<JSONTAGOFFSET && val == mag, "integer literal that fits int64: int64 with the exact value")
	case neg && fitsNeg:
		verifAssert(tag == uint64(TagInteger)<<JSONTAGOFFSET && val == -mag, "negative integer literal that fits int64: int64 with the exact value")
	case !neg && fitsU64:
		verifAssert(tag == uint64(TagUint)<<JSONTAGOFFSET && val == mag, "non-negative integer literal beyond int64 that fits uint64: uint64 with the exact value")
	default:
		if overflow {
			verifAssert(tag == 0, "an integer literal whose float value is not finite is rejected")
		} else {
			verifAssert(tag == floatTag|uint64(FloatOverflowedInteger) && val == pf, "integer literal beyond 64 bits: float64 with the overflowed-integer flag")
		}
	}
}

// P2.handoff: addNumber hands parseNumber the whole rest of the message (no truncation, no extension), whatever its
// length, and writes exactly parseNumber's tag and value. parseNumber is the oracle here (its own lemma is P2 above); the
// buffer is a long literal: digits, then an exponent beyond byte 64, then the terminator.
func verifHarness_P2_Handoff() {
	L := 66 + verifChoice("extra", 8)
	buf := nondetBytes("lit", L)
	for i := 0; i < L-3; i++ {
		verifAssume(buf[i] >= '0' && buf[i] <= '9')
	}
	verifAssume(buf[0] != '0')
	verifAssume(buf[L-3] == 'e' && buf[L-2] >= '1' && buf[L-2] <= '9' && buf[L-1] == ']')
	wantTag, wantVal := parseNumber(buf)
	pj := &ParsedJson{}
	ok := addNumber(buf, pj)
	verifReach("P2.handoff")
	if wantTag == 0 {
		verifAssert(!ok && len(pj.Tape) == 0, "addNumber rejects what parseNumber rejects")
		return
	}
	verifAssert(ok && len(pj.Tape) == 2 && pj.Tape[0] == wantTag && pj.Tape[1] == wantVal, "addNumber writes parseNumber's tag and value for the whole literal")
}
