package simdjson

import "strconv"

// T6: MarshalJSON at chunk level = REF-RENDER(abstract document) (C10). Number and string chunks
// are produced on both sides by the same callee (strconv.AppendInt/AppendUint, appendFloat,
// escapeBytes), which T6 treats as injective opaque chunks; those callees have their own lemmas
// (E-esc, R1, R2).

func verifRender(dst []byte, nd *verifNode) ([]byte, bool) {
	ok := true
	switch nd.kind {
	case '[':
		dst = append(dst, '[')
		for i, k := range nd.kids {
			if i > 0 {
				dst = append(dst, ',')
			}
			var o bool
			dst, o = verifRender(dst, k)
			ok = ok && o
		}
		dst = append(dst, ']')
	case '{':
		dst = append(dst, '{')
		for i := 0; i < len(nd.kids); i += 2 {
			if i > 0 {
				dst = append(dst, ',')
			}
			dst = append(dst, '"')
			dst = escapeBytes(dst, nd.kids[i].str)
			dst = append(dst, '"', ':')
			var o bool
			dst, o = verifRender(dst, nd.kids[i+1])
			ok = ok && o
		}
		dst = append(dst, '}')
	case '"':
		dst = append(dst, '"')
		dst = escapeBytes(dst, nd.str)
		dst = append(dst, '"')
	case 'l':
		dst = strconv.AppendInt(dst, int64(nd.val), 10)
	case 'u':
		dst = strconv.AppendUint(dst, nd.val, 10)
	case 'd':
		var err error
		dst, err = appendFloat(dst, verifF64frombits(nd.val))
		if err != nil {
			ok = false
		}
	case 'n':
		dst = append(dst, "null"...)
	case 't':
		dst = append(dst, "true"...)
	case 'f':
		dst = append(dst, "false"...)
	}
	return dst, ok
}

func verifCfgT6() verifGenCfg {
	return verifGenCfg{nops: true, objects: true, arrays: true, strs: true, nums: true, ones: true, maxDepth: 3,
		strLen: 1, strLen2: -1, keyLen: 1, maxNop: 2}
}

func verifHarness_T6_MarshalRoot() {
	pj, root := verifGenDoc(verifCfgT6(), nondetSize("T"))
	want, finite := verifRender(nil, root)
	it := pj.Iter()
	var pre []byte
	if verifChoice("prefix", 2) == 1 {
		pre = []byte{'#'}
	}
	got, err := it.MarshalJSONBuffer(pre)
	verifReach("T6.root")
	if !finite {
		verifAssert(err != nil, "a non-finite float anywhere in the document makes MarshalJSON fail")
		return
	}
	verifAssert(err == nil, "MarshalJSON succeeds on a well-formed tape with finite floats")
	verifAssert(verifBytesEq(got, append(pre, want...)), "MarshalJSON output = rendering of the abstract document (appended to the given buffer)")
}

// inner values through restricted iterators (AdvanceIter / NextElementBytes), Array and Elements
func verifHarness_T6_MarshalInner() {
	pj, root := verifGenDoc(verifCfgT6(), nondetSize("T"))
	cs := verifContainerNodes(root, nil)
	c := cs[verifChoice("cont", len(cs))]
	it := verifSeek(pj, c)
	verifReach("T6.inner")
	if c.kind == '[' {
		arr, err := it.Array(nil)
		verifAssert(err == nil, "Array() succeeds")
		if verifChoice("how", 2) == 0 {
			want, finite := verifRender(nil, c)
			got, err := arr.MarshalJSONBuffer(nil)
			if !finite {
				verifAssert(err != nil, "Array.MarshalJSON fails on a non-finite float")
				return
			}
			verifAssert(err == nil && verifBytesEq(got, want), "Array.MarshalJSON = rendering of the array")
			return
		}
		ai := arr.Iter()
		var el Iter
		for _, k := range c.kids {
			t, err := ai.AdvanceIter(&el)
			verifAssert(err == nil && t == verifTypeOf(k.kind), "AdvanceIter yields the element")
			want, finite := verifRender(nil, k)
			got, err := el.MarshalJSONBuffer(nil)
			if !finite {
				verifAssert(err != nil, "element MarshalJSON fails on a non-finite float")
				continue
			}
			verifAssert(err == nil && verifBytesEq(got, want), "MarshalJSON of an element iterator = rendering of that element only")
		}
		return
	}
	obj, err := it.Object(nil)
	verifAssert(err == nil, "Object() succeeds")
	if verifChoice("how", 2) == 0 {
		verifAssume(verifKeysDistinct(c))
		els, err := obj.Parse(nil)
		verifAssert(err == nil, "Parse succeeds")
		want, finite := verifRender(nil, c)
		got, err := els.MarshalJSONBuffer(nil)
		if !finite {
			verifAssert(err != nil, "Elements.MarshalJSON fails on a non-finite float")
			return
		}
		verifAssert(err == nil && verifBytesEq(got, want), "Elements.MarshalJSON = rendering of the object")
		return
	}
	var el Iter
	for i := 0; i < len(c.kids); i += 2 {
		_, _, err := obj.NextElementBytes(&el)
		verifAssert(err == nil, "NextElementBytes yields the member")
		want, finite := verifRender(nil, c.kids[i+1])
		got, err := el.MarshalJSONBuffer(nil)
		if !finite {
			verifAssert(err != nil, "member MarshalJSON fails on a non-finite float")
			continue
		}
		verifAssert(err == nil && verifBytesEq(got, want), "MarshalJSON of a member iterator = rendering of that value only")
	}
}
