package simdjson

// T2: numeric accessors on every 64-bit payload, per tag (DESIGN §4 T2, §5.12).

const verif2p63 = 9223372036854775808.0
const verif2p64 = 18446744073709551616.0

// verifScalarIter returns an Iter positioned (through the public API) on a 2-word number
// [tag|flags, payload] that is the single element of an array.
func verifScalarIter(tag byte, flags, payload uint64) Iter {
	tape := []uint64{
		uint64('r')<<56 | 6,
		uint64('[')<<56 | 5,
		uint64(tag)<<56 | flags,
		payload,
		uint64(']')<<56 | 1,
		uint64('r')<<56 | 0,
	}
	pj := ParsedJson{Tape: tape, Strings: &TStrings{}}
	it := pj.Iter()
	it.AdvanceInto() // root
	it.AdvanceInto() // [
	it.AdvanceInto() // the number
	return it
}

func verifNumTag() byte {
	switch verifChoice("numtag", 3) {
	case 0:
		return 'l'
	case 1:
		return 'u'
	}
	return 'd'
}

func verifHarness_T2_IterInt() {
	tag := verifNumTag()
	payload := nondetU64("payload")
	flags := uint64(0)
	if tag == 'd' {
		flags = uint64(nondetU8("flags") & 1)
	}
	it := verifScalarIter(tag, flags, payload)
	v, err := it.Int()
	verifReach("T2.Int")
	switch tag {
	case 'l':
		verifAssert(err == nil && v == int64(payload), "Int() of an int64 must return it")
	case 'u':
		if payload <= 1<<63-1 {
			verifAssert(err == nil && v == int64(payload), "Int() of a uint64 <= MaxInt64 must return it")
		} else {
			verifAssert(err != nil, "Int() of a uint64 > MaxInt64 must be an error")
		}
	case 'd':
		f := verifF64frombits(payload)
		if f >= -verif2p63 && f < verif2p63 {
			verifAssert(err == nil && v == int64(f), "Int() of an in-range float must truncate")
		} else {
			verifAssert(err != nil, "Int() of a float outside [-2^63,2^63) or NaN must be an error")
		}
	}
}

func verifHarness_T2_IterUint() {
	tag := verifNumTag()
	payload := nondetU64("payload")
	it := verifScalarIter(tag, 0, payload)
	v, err := it.Uint()
	verifReach("T2.Uint")
	switch tag {
	case 'u':
		verifAssert(err == nil && v == payload, "Uint() of a uint64 must return it")
	case 'l':
		if int64(payload) >= 0 {
			verifAssert(err == nil && v == payload, "Uint() of a non-negative int64 must return it")
		} else {
			verifAssert(err != nil, "Uint() of a negative int64 must be an error")
		}
	case 'd':
		f := verifF64frombits(payload)
		if f >= 0 && f < verif2p64 {
			verifAssert(err == nil && v == uint64(f), "Uint() of an in-range float must truncate")
		} else if f > -1 && f < 0 {
			// statement leaves (-1,0) open: error, or 0 by truncation
			verifAssert(err != nil || v == 0, "Uint() of a float in (-1,0): error or 0")
		} else {
			verifAssert(err != nil, "Uint() of a float outside [0,2^64) or NaN must be an error")
		}
	}
}

func verifHarness_T2_IterFloat() {
	tag := verifNumTag()
	payload := nondetU64("payload")
	flags := uint64(0)
	if tag == 'd' {
		flags = uint64(nondetU8("flags") & 1)
	}
	it := verifScalarIter(tag, flags, payload)
	v, err := it.Float()
	v2, fl, err2 := it.FloatFlags()
	verifReach("T2.Float")
	verifAssert(err == nil && err2 == nil, "Float() of any number succeeds")
	switch tag {
	case 'l':
		verifAssert(v == float64(int64(payload)) && v2 == v && fl == 0, "Float() of int64 is the rounded value")
	case 'u':
		verifAssert(v == float64(payload) && v2 == v && fl == 0, "Float() of uint64 is the rounded value")
	case 'd':
		verifAssert(verifF64bits(v) == payload && verifF64bits(v2) == payload && uint64(fl) == flags, "Float() of a float is the payload, flags preserved")
	}
}

// verifScalarArray returns an Array (through the public API) holding one 2-word number.
func verifScalarArray(tag byte, flags, payload uint64) *Array {
	tape := []uint64{
		uint64('r')<<56 | 6,
		uint64('[')<<56 | 5,
		uint64(tag)<<56 | flags,
		payload,
		uint64(']')<<56 | 1,
		uint64('r')<<56 | 0,
	}
	pj := ParsedJson{Tape: tape, Strings: &TStrings{}}
	it := pj.Iter()
	it.AdvanceInto() // root
	it.AdvanceInto() // [
	a, err := it.Array(nil)
	verifAssert(err == nil, "Array() on an array start succeeds")
	return a
}

func verifHarness_T2_ArrayAsInteger() {
	tag := verifNumTag()
	payload := nondetU64("payload")
	a := verifScalarArray(tag, 0, payload)
	vs, err := a.AsInteger()
	verifReach("T2.AsInteger")
	ok := false
	switch tag {
	case 'l':
		ok = true
	case 'u':
		ok = payload <= 1<<63-1
	case 'd':
		f := verifF64frombits(payload)
		ok = f >= -verif2p63 && f < verif2p63
	}
	if ok {
		verifAssert(err == nil && len(vs) == 1, "AsInteger of an in-range value succeeds with one element")
		want := int64(payload)
		if tag == 'd' {
			want = int64(verifF64frombits(payload))
		}
		verifAssert(vs[0] == want, "AsInteger returns the (truncated) value")
		vs2, err2 := a.AsInteger()
		verifAssert(err2 == nil && len(vs2) == 1 && vs2[0] == want, "a second AsInteger call on the same Array returns the same values (the accessor does not consume the array)")
	} else {
		verifAssert(err != nil, "AsInteger of an out-of-range value must be an error")
	}
}

func verifHarness_T2_ArrayAsUint64() {
	tag := verifNumTag()
	payload := nondetU64("payload")
	a := verifScalarArray(tag, 0, payload)
	vs, err := a.AsUint64()
	verifReach("T2.AsUint64")
	ok := false
	dontcare := false
	switch tag {
	case 'u':
		ok = true
	case 'l':
		ok = int64(payload) >= 0
	case 'd':
		f := verifF64frombits(payload)
		ok = f >= 0 && f < verif2p64
		dontcare = f > -1 && f < 0
	}
	if ok {
		verifAssert(err == nil && len(vs) == 1, "AsUint64 of an in-range value succeeds with one element")
		want := payload
		if tag == 'd' {
			want = uint64(verifF64frombits(payload))
		}
		verifAssert(vs[0] == want, "AsUint64 returns the (truncated) value")
		vs2, err2 := a.AsUint64()
		verifAssert(err2 == nil && len(vs2) == 1 && vs2[0] == want, "a second AsUint64 call on the same Array returns the same values (the accessor does not consume the array)")
	} else if dontcare {
		verifAssert(err != nil || (len(vs) == 1 && vs[0] == 0), "AsUint64 of a float in (-1,0): error or 0")
	} else {
		verifAssert(err != nil, "AsUint64 of an out-of-range value must be an error")
	}
}

func verifHarness_T2_ArrayAsFloat() {
	tag := verifNumTag()
	payload := nondetU64("payload")
	a := verifScalarArray(tag, 0, payload)
	vs, err := a.AsFloat()
	verifReach("T2.AsFloat")
	verifAssert(err == nil && len(vs) == 1, "AsFloat of any number succeeds with one element")
	switch tag {
	case 'l':
		verifAssert(vs[0] == float64(int64(payload)), "AsFloat of int64 is the rounded value")
	case 'u':
		verifAssert(vs[0] == float64(payload), "AsFloat of uint64 is the rounded value")
	case 'd':
		verifAssert(verifF64bits(vs[0]) == payload, "AsFloat of a float is the payload")
	}
	// the accessor must not consume the array: every later call on the same Array terminates without panic and returns the same values
	for k := 0; k < 3; k++ {
		vs2, err2 := a.AsFloat()
		verifAssert(err2 == nil && len(vs2) == 1 && verifF64bits(vs2[0]) == verifF64bits(vs[0]), "a later AsFloat call on the same Array returns the same values")
	}
}
