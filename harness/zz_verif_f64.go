package simdjson

import "math"

func verifF64frombits(b uint64) float64 { return math.Float64frombits(b) }

func verifF64bits(f float64) uint64 { return math.Float64bits(f) }
