package simdjson

// T3: lookups, filtered iteration and bulk accessors against the abstract document (C12).

func verifCfgT3() verifGenCfg {
	return verifGenCfg{nops: true, objects: true, arrays: true, strs: true, nums: true, ones: true, maxDepth: 3,
		strLen: 1, strLen2: 0, keyLen: -1, maxNop: 2}
}

// verifCfgKeys: objects (nested), 1- and 2-word scalar values, NOP runs; no arrays, so that objects
// with several members fit into small tapes.
func verifCfgKeys() verifGenCfg {
	return verifGenCfg{nops: true, objects: true, arrays: false, strs: false, nums: true, ones: true, maxDepth: 2,
		strLen: 1, strLen2: 0, keyLen: -1, maxNop: 3, numTag: 'l', oneTag: 't'}
}

func verifCfgPick() verifGenCfg {
	if verifChoice("cfg", 2) == 1 {
		return verifCfgKeys()
	}
	return verifCfgT3()
}

func verifObjectNodes(root *verifNode) []*verifNode {
	var out []*verifNode
	for _, c := range verifContainerNodes(root, nil) {
		if c.kind == '{' {
			out = append(out, c)
		}
	}
	return out
}

func verifPickObject(pj *ParsedJson, root *verifNode) (*Object, *verifNode) {
	os := verifObjectNodes(root)
	c := os[verifChoice("obj", len(os))]
	it := verifSeek(pj, c)
	obj, err := it.Object(nil)
	verifAssert(err == nil, "Object() succeeds on an object start")
	return obj, c
}

func verifQueryKey() []byte {
	return nondetBytes("qkey", verifChoice("qkeylen", 3))
}

// first member of c whose key equals key; -1 if none
func verifFirstMatch(c *verifNode, key []byte) int {
	for i := 0; i < len(c.kids); i += 2 {
		if verifBytesEq(c.kids[i].str, key) {
			return i
		}
	}
	return -1
}

func verifHarness_T3_FindKey() {
	pj, root := verifGenDoc(verifCfgPick(), nondetSize("T"))
	obj, c := verifPickObject(pj, root)
	key := verifQueryKey()
	want := verifFirstMatch(c, key)
	var dst *Element
	if verifChoice("dst", 2) == 1 {
		dst = &Element{Name: "stale", Type: TypeRoot}
	}
	e := obj.FindKey(string(key), dst)
	verifReach("T3.FindKey")
	if want < 0 {
		verifAssert(e == nil, "FindKey returns nil when no member has the key")
		return
	}
	verifAssert(e != nil, "FindKey finds a present key (first, last, after deleted members, equal-length neighbours)")
	verifAssert(verifBytesEq([]byte(e.Name), key), "FindKey sets the element name")
	verifAssert(e.Type == verifTypeOf(c.kids[want+1].kind), "FindKey returns the first matching member's type")
	verifCheckValue(&e.Iter, c.kids[want+1], verifModeAdvance)
}

func verifHarness_T3_FindPath() {
	pj, root := verifGenDoc(verifCfgPick(), nondetSize("T"))
	os := verifObjectNodes(root)
	for _, o := range os {
		verifAssume(verifKeysDistinct(o))
	}
	obj, c := verifPickObject(pj, root)
	npath := 1 + verifChoice("npath", 2)
	k0 := verifQueryKey()
	var k1 []byte
	path := []string{string(k0)}
	if npath == 2 {
		k1 = verifQueryKey()
		path = append(path, string(k1))
	}
	viaIter := false
	var e *Element
	var err error
	if c == root && verifChoice("viaiter", 2) == 1 {
		viaIter = true
		it := pj.Iter()
		e, err = it.FindElement(nil, path...)
	} else {
		e, err = obj.FindPath(nil, path...)
	}
	_ = viaIter
	verifReach("T3.FindPath")
	i0 := verifFirstMatch(c, k0)
	if i0 < 0 {
		verifAssert(err == ErrPathNotFound, "FindPath: absent first key gives ErrPathNotFound")
		return
	}
	v0 := c.kids[i0+1]
	if npath == 1 {
		verifAssert(err == nil && e != nil, "FindPath finds a present key")
		verifAssert(e.Type == verifTypeOf(v0.kind), "FindPath returns the member's type")
		verifCheckValue(&e.Iter, v0, verifModeAdvance)
		return
	}
	if v0.kind != '{' {
		verifAssert(err != nil && err != ErrPathNotFound, "FindPath through a non-object gives an error other than ErrPathNotFound")
		return
	}
	i1 := verifFirstMatch(v0, k1)
	if i1 < 0 {
		verifAssert(err == ErrPathNotFound, "FindPath: absent second key gives ErrPathNotFound")
		return
	}
	verifAssert(err == nil && e != nil, "FindPath finds a present nested key")
	verifAssert(e.Type == verifTypeOf(v0.kids[i1+1].kind), "FindPath returns the nested member's type")
	verifCheckValue(&e.Iter, v0.kids[i1+1], verifModeAdvance)
}

func verifHarness_T3_FindElementArrayRoot() {
	pj, root := verifGenDoc(verifCfgT3(), nondetSize("T"))
	verifAssume(root.kind == '[')
	it := pj.Iter()
	_, err := it.FindElement(nil, string(verifQueryKey()))
	verifReach("T3.FindElementArray")
	verifAssert(err != nil, "FindElement on a document whose top level is an array is an error")
}

func verifHarness_T3_ForEachFilter() {
	pj, root := verifGenDoc(verifCfgPick(), nondetSize("T"))
	obj, c := verifPickObject(pj, root)
	verifAssume(verifKeysDistinct(c))
	filter := map[string]struct{}{}
	var fkeys [][]byte
	nf := 1 + verifChoice("nfilter", 2)
	for f := 0; f < nf; f++ {
		k := verifQueryKey()
		for _, o := range fkeys {
			verifAssume(!verifBytesEq(o, k))
		}
		fkeys = append(fkeys, k)
		filter[string(k)] = struct{}{}
	}
	var expect []int
	for i := 0; i < len(c.kids); i += 2 {
		for _, f := range fkeys {
			if verifBytesEq(f, c.kids[i].str) {
				expect = append(expect, i)
			}
		}
	}
	vis := 0
	err := obj.ForEach(func(key []byte, e Iter) {
		verifAssert(vis < len(expect), "filtered ForEach calls back only for members whose key is in the filter")
		i := expect[vis]
		verifAssert(verifBytesEq(key, c.kids[i].str), "filtered ForEach passes the member's own key")
		verifCheckValue(&e, c.kids[i+1], verifModeAdvance)
		vis++
	}, filter)
	verifReach("T3.ForEachFilter")
	verifAssert(err == nil, "filtered ForEach succeeds on a well-formed object")
	verifAssert(vis == len(expect), "filtered ForEach calls back for every member whose key is in the filter")
}

func verifCheckElements(els *Elements, c *verifNode) {
	verifAssert(len(els.Elements) == len(c.kids)/2, "Parse returns every member")
	for i := 0; i < len(c.kids); i += 2 {
		e := &els.Elements[i/2]
		verifAssert(verifBytesEq([]byte(e.Name), c.kids[i].str), "Parse keeps member order and names")
		verifAssert(e.Type == verifTypeOf(c.kids[i+1].kind), "Parse records the member's type")
		verifCheckValue(&e.Iter, c.kids[i+1], verifModeAdvance)
	}
}

func verifHarness_T3_ParseLookup() {
	pj, root := verifGenDoc(verifCfgPick(), nondetSize("T"))
	os := verifObjectNodes(root)
	var dst *Elements
	if verifChoice("reuse", 2) == 1 {
		// destination used before on another (or the same) object of the document
		first := os[verifChoice("firstobj", len(os))]
		verifAssume(verifKeysDistinct(first))
		fit := verifSeek(pj, first)
		fobj, err := fit.Object(nil)
		verifAssert(err == nil, "Object() succeeds")
		dst, err = fobj.Parse(nil)
		verifAssert(err == nil, "Parse succeeds on a well-formed object")
	}
	obj, c := verifPickObject(pj, root)
	verifAssume(verifKeysDistinct(c))
	els, err := obj.Parse(dst)
	verifReach("T3.Parse")
	verifAssert(err == nil && els != nil, "Parse succeeds on a well-formed object")
	verifCheckElements(els, c)
	key := verifQueryKey()
	want := verifFirstMatch(c, key)
	e := els.Lookup(string(key))
	if want < 0 {
		verifAssert(e == nil, "Lookup of an absent key returns nil (also with a reused destination)")
	} else {
		verifAssert(e != nil && verifBytesEq([]byte(e.Name), key), "Lookup returns the member with that key")
		verifCheckValue(&e.Iter, c.kids[want+1], verifModeAdvance)
	}
}

// verifCheckIface compares a value returned by Interface()/Map() with the abstract document.
func verifCheckIface(v interface{}, nd *verifNode) {
	switch nd.kind {
	case 'n':
		verifAssert(v == nil, "null is returned as nil")
	case 't', 'f':
		b, ok := v.(bool)
		verifAssert(ok && b == (nd.kind == 't'), "booleans are returned as bool")
	case 'l':
		x, ok := v.(int64)
		verifAssert(ok && uint64(x) == nd.val, "int64 values are returned as int64")
	case 'u':
		x, ok := v.(uint64)
		verifAssert(ok && x == nd.val, "uint64 values are returned as uint64")
	case 'd':
		x, ok := v.(float64)
		verifAssert(ok && verifF64bits(x) == nd.val, "floats are returned as float64")
	case '"':
		s, ok := v.(string)
		verifAssert(ok && verifBytesEq([]byte(s), nd.str), "strings are returned as string")
	case '[':
		a, ok := v.([]interface{})
		verifAssert(ok && len(a) == len(nd.kids), "arrays are returned as []interface{} with every element")
		for i, k := range nd.kids {
			verifCheckIface(a[i], k)
		}
	case '{':
		m, ok := v.(map[string]interface{})
		verifAssert(ok && len(m) == len(nd.kids)/2, "objects are returned as map[string]interface{} with every member")
		for i := 0; i < len(nd.kids); i += 2 {
			x, present := m[string(nd.kids[i].str)]
			verifAssert(present, "every key is present in the map")
			verifCheckIface(x, nd.kids[i+1])
		}
	}
}

func verifHarness_T3_Interface() {
	pj, root := verifGenDoc(verifCfgPick(), nondetSize("T"))
	for _, o := range verifObjectNodes(root) {
		verifAssume(verifKeysDistinct(o))
	}
	it := pj.Iter()
	v, err := it.Interface()
	verifReach("T3.Interface")
	verifAssert(err == nil, "Interface succeeds on a well-formed tape")
	// a fresh iterator yields the root list: []interface{}{doc}
	rs, ok := v.([]interface{})
	verifAssert(ok && len(rs) == 1, "Interface on a fresh iterator returns the list of roots")
	verifCheckIface(rs[0], root)
}

func verifHarness_T3_ArrayAsString() {
	cfg := verifCfgT3()
	pj, root := verifGenDoc(cfg, nondetSize("T"))
	var arrs []*verifNode
	for _, c := range verifContainerNodes(root, nil) {
		if c.kind == '[' {
			arrs = append(arrs, c)
		}
	}
	c := arrs[verifChoice("arr", len(arrs))]
	it := verifSeek(pj, c)
	arr, err := it.Array(nil)
	verifAssert(err == nil, "Array() succeeds")
	allStr := true
	allScalar := true
	for _, k := range c.kids {
		if k.kind != '"' {
			allStr = false
		}
		if k.kind == '[' || k.kind == '{' {
			allScalar = false
		}
	}
	cvt := verifChoice("cvt", 2) == 1
	verifReach("T3.AsString")
	if !cvt {
		ss, err := arr.AsString()
		if !allStr {
			verifAssert(err != nil, "AsString on an array holding a non-string is an error")
			return
		}
		verifAssert(err == nil && len(ss) == len(c.kids), "AsString returns every element")
		for i, k := range c.kids {
			verifAssert(verifBytesEq([]byte(ss[i]), k.str), "AsString returns the strings in order")
		}
		return
	}
	ss, err := arr.AsStringCvt()
	if !allScalar {
		verifAssert(err != nil, "AsStringCvt on an array holding a container is an error")
		return
	}
	verifAssert(err == nil && len(ss) == len(c.kids), "AsStringCvt returns every element")
	// oracle: plain traversal + StringCvt on each element
	ai := arr.Iter()
	for i := range c.kids {
		ai.Advance()
		want, werr := ai.StringCvt()
		verifAssert(werr == nil && ss[i] == want, "AsStringCvt returns what plain traversal + StringCvt returns")
	}
}
