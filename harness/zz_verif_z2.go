package simdjson

// Z2 + T7: Deserialize on framed but otherwise arbitrary input never panics/hangs, and whatever it
// returns can be traversed and marshalled without panic (C19). The four sections are uncompressed
// (block type 0, or an unknown type); S2/zstd payload handling is third-party code out of reach.

func verifFrame(ver byte, comp byte, nTape byte, strDecl byte, strBlk []byte, msgDecl byte, msgTyp byte, msg []byte,
	tagDecl byte, tagTyp byte, tags []byte, valDecl byte, valTyp byte, vals []byte) []byte {
	var b []byte
	b = append(b, ver, comp, nTape)
	// strings section (always empty in blobs written by Serialize)
	b = append(b, strDecl, byte(len(strBlk)))
	b = append(b, strBlk...)
	b = append(b, msgDecl, byte(len(msg)+1), msgTyp)
	b = append(b, msg...)
	b = append(b, tagDecl, byte(len(tags)+1), tagTyp)
	b = append(b, tags...)
	b = append(b, valDecl, byte(len(vals)+1), valTyp)
	b = append(b, vals...)
	return b
}

func verifBlockType(name string) byte {
	t := nondetU8(name)
	verifAssume(t != blockTypeS2 && t != blockTypeZstd) // compressed payloads: third-party decoders, out of reach
	return t
}

// verifTraverseAll exercises every reader on an arbitrary (possibly ill-formed) tape: none may panic
// and every loop must terminate.
func verifTraverseAll(pj *ParsedJson) {
	n := len(pj.Tape)
	it := pj.Iter()
	ended := false
	for k := 0; k < n+2; k++ {
		tag := it.AdvanceInto()
		if tag == TagEnd {
			ended = true
			break
		}
		_ = it.Type()
		_, _ = it.StringBytes()
		_, _ = it.Bool()
		// (numeric accessors are total functions of (tag, word, off<len): T2 covers them for every payload)
		_ = it.PeekNext()
	}
	verifAssert(ended, "AdvanceInto reaches the end of any tape within len(tape)+2 steps")
	it2 := pj.Iter()
	ended = false
	for k := 0; k < n+2; k++ {
		if it2.Advance() == TypeNone {
			ended = true
			break
		}
	}
	verifAssert(ended, "Advance reaches the end of any tape within len(tape)+2 steps")
	it3 := pj.Iter()
	_, _ = it3.MarshalJSONBuffer(nil)
	it4 := pj.Iter()
	_, _ = it4.Interface()
	_ = pj.ForEach(func(i Iter) error {
		_, _ = i.MarshalJSONBuffer(nil)
		return nil
	})
	it5 := pj.Iter()
	_, _ = it5.FindElement(nil, "a")
}

func verifHarness_Z2_Corrupt() {
	nTags := verifChoice("ntags", 5)
	nVals := verifChoice("nvals", 4)
	nMsg := verifChoice("nmsg", 3)
	// one deviation from a consistent framing at a time
	variant := verifChoice("variant", 15)
	dTag, dVal, dMsg, odd, strMode, trunc := 0, 0, 0, 0, -1, false
	switch variant {
	case 1:
		dTag = -1
	case 2:
		dTag = 1
	case 3:
		dVal = -1
	case 4:
		dVal = 1
	case 5:
		dMsg = -1
	case 6:
		dMsg = 1
	case 7:
		odd = 4
	case 8, 9, 10:
		strMode = variant - 8
	case 11:
		trunc = true
	case 12:
		dVal = 8 // one whole value word more declared than present
	}
	// variants 13/14: the compressed size of the message / tags block is a full 10-byte varint (any 64-bit value)
	bigAt := -1
	if variant >= 13 {
		bigAt = variant - 13
	}
	tags := nondetBytes("tags", nTags)
	vals := nondetBytes("vals", 8*nVals+odd)
	msg := nondetBytes("msg", nMsg)
	nTape := nondetU8("ntape")
	verifAssume(nTape <= 6) // declared sizes small enough to allocate
	tagDecl := byte(nTags + dTag)
	valDecl := byte(len(vals) + dVal)
	msgDecl := byte(nMsg + dMsg)
	verifAssume(tagDecl < 0x80 && valDecl < 0x80 && msgDecl < 0x80)
	ver := nondetU8("ver")
	comp := nondetU8("comp")
	verifAssume(comp < 0x80)
	var strBlk []byte
	strDecl := byte(0)
	if strMode >= 0 {
		strBlk = []byte{verifBlockType("strtyp"), nondetU8("strbyte")}
		strDecl = byte(strMode)
	}
	blob := verifFrame(ver, comp, nTape, strDecl, strBlk, msgDecl, verifBlockType("msgtyp"), msg,
		tagDecl, verifBlockType("tagtyp"), tags, valDecl, verifBlockType("valtyp"), vals)
	if trunc {
		blob = blob[:verifChoice("cut", len(blob))]
	}
	if bigAt >= 0 {
		// locate the size byte of the chosen block and replace it by a 10-byte varint with symbolic payload bits
		at := 3 + 2 + len(strBlk) + 1 // ver comp ntape | strDecl strLen strBlk | msgDecl -> msg block size
		if bigAt == 1 {
			at += 1 + 1 + len(msg) + 1 // msg size, type, payload | tagDecl -> tags block size
		}
		v := nondetU64("bigsize")
		verifAssume(v >= 1<<32) // sizes below 128 are the single-byte cases; the point here is sizes that wrap when narrowed or negated
		var enc []byte
		for i := 0; i < 9; i++ {
			enc = append(enc, byte(v>>(7*uint(i)))|0x80)
		}
		enc = append(enc, byte(v>>63))
		nb := append([]byte{}, blob[:at]...)
		nb = append(nb, enc...)
		nb = append(nb, blob[at+1:]...)
		blob = nb
	}
	s := NewSerializer()
	var dst *ParsedJson
	if verifChoice("havoc", 2) == 1 {
		verifHavocSerializer(s)
		dst = verifHavocDst(4)
	}
	res, err := s.Deserialize(blob, dst)
	verifReach("Z2.returned")
	if err == nil {
		verifAssert(res != nil, "Deserialize returns a result or an error")
		verifReach("Z2.accepted")
		verifTraverseAll(res)
	}
}

// Z4: the outcome of Deserialize does not depend on what the reused destination or Serializer held before
// (two runs on the same bytes: fresh objects vs havoc'd ones), for well-formed and corrupt blobs alike (C11, C15).
func verifHarness_Z4_DstIndependence() {
	nTags := verifChoice("ntags", 4)
	nVals := verifChoice("nvals", 3)
	tags := nondetBytes("tags", nTags)
	vals := nondetBytes("vals", 8*nVals)
	msg := nondetBytes("msg", 1)
	nTape := nondetU8("ntape")
	verifAssume(nTape <= 5)
	// framing consistent, or a block one byte shorter than the size declared for it (whatever then fills the rest of the
	// buffer must not depend on what the reused objects held)
	msgDecl, tagDecl := byte(1), byte(nTags)
	switch verifChoice("short", 3) {
	case 1:
		msgDecl = 2
	case 2:
		tagDecl = byte(nTags) + 1
	}
	blob := verifFrame(nondetU8("ver"), 0, nTape, 0, nil, msgDecl, 0, msg, tagDecl, 0, tags, byte(8*nVals), 0, vals)
	s1 := NewSerializer()
	r1, e1 := s1.Deserialize(blob, nil)
	s2 := NewSerializer()
	verifHavocSerializer(s2)
	dst := verifHavocDst(4)
	r2, e2 := s2.Deserialize(blob, dst)
	verifReach("Z4.both")
	verifAssert((e1 == nil) == (e2 == nil), "Deserialize accepts the same bytes with a reused destination/Serializer as with fresh ones")
	if e1 != nil || e2 != nil {
		return
	}
	verifReach("Z4.accepted")
	same := len(r1.Tape) == len(r2.Tape) && verifBytesEq(r1.Message, r2.Message)
	for i := 0; same && i < len(r1.Tape); i++ {
		same = r1.Tape[i] == r2.Tape[i]
	}
	verifAssert(same, "and produces the same tape and string table")
}

// Z5 + T7: larger corrupt payloads than Z2's fully symbolic ones, reached from the well-formed side: the tag stream of
// every well-formed tape of T words with ONE tag byte free, ALL value words free and the number of value words off by
// -1..+2, through the real Deserialize; on whatever is accepted one family of readers is run (iterator walkers, the
// Array accessors, the Object accessors), none of which may panic or stop making progress (C19).
func verifTagStream(pj *ParsedJson) (tags []byte, nvals int) {
	for i := 0; i < len(pj.Tape); i++ {
		t := byte(pj.Tape[i] >> 56)
		tags = append(tags, t)
		switch Tag(t) {
		case TagString:
			nvals += 2
			i++
		case TagInteger, TagUint, TagFloat:
			nvals++
			i++
		case TagObjectStart, TagArrayStart, TagRoot:
			nvals++
		}
	}
	return
}

func verifArrayReaders(pj *ParsedJson, it *Iter) {
	arr, err := it.Array(nil)
	if err != nil {
		return
	}
	c := *arr
	_, _ = c.AsFloat()
	c = *arr
	_, _ = c.AsInteger()
	c = *arr
	_, _ = c.AsUint64()
	c = *arr
	_, _ = c.AsString()
	c = *arr
	_, _ = c.AsStringCvt()
	c = *arr
	_ = c.FirstType()
	c = *arr
	_, _ = c.Interface()
	c = *arr
	_, _ = c.MarshalJSON()
	c = *arr
	n := 0
	c.ForEach(func(i Iter) {
		n++
		verifAssert(n <= len(pj.Tape)+2, "Array.ForEach visits no more elements than the tape has entries")
	})
	c = *arr
	ai := c.Iter()
	ended := false
	for k := 0; k < len(pj.Tape)+2; k++ {
		if ai.Advance() == TypeNone {
			ended = true
			break
		}
	}
	verifAssert(ended, "Array.Iter().Advance reaches the end within len(tape)+2 steps")
}

func verifObjectReaders(pj *ParsedJson, it *Iter) {
	obj, err := it.Object(nil)
	if err != nil {
		return
	}
	c := *obj
	var tmp Iter
	ended := false
	for k := 0; k < len(pj.Tape)+2; k++ {
		_, typ, err := c.NextElement(&tmp)
		if err != nil || typ == TypeNone {
			ended = true
			break
		}
	}
	verifAssert(ended, "Object.NextElement reaches the end (or an error) within len(tape)+2 steps")
	c = *obj
	ended = false
	for k := 0; k < len(pj.Tape)+2; k++ {
		_, typ, err := c.NextElementBytes(&tmp)
		if err != nil || typ == TypeNone {
			ended = true
			break
		}
	}
	verifAssert(ended, "Object.NextElementBytes reaches the end (or an error) within len(tape)+2 steps")
	c = *obj
	_ = c.FindKey("k", nil)
	c = *obj
	_, _ = c.FindPath(nil, "k", "k")
	c = *obj
	n := 0
	_ = c.ForEach(func(key []byte, i Iter) {
		n++
		verifAssert(n <= len(pj.Tape)+2, "Object.ForEach visits no more members than the tape has entries")
	}, nil)
	c = *obj
	_, _ = c.Map(nil)
	c = *obj
	_, _ = c.Parse(nil)
}

func verifHarness_Z5_Deviation() {
	T := 4 + verifChoice("T", 6)
	cfg := verifGenCfg{nops: verifChoice("nops", 2) == 1, objects: true, arrays: true, strs: true, nums: true, ones: true, maxDepth: 2,
		strLen: 1, strLen2: -1, keyLen: 1, maxNop: 1, inMsg: true, numTag: 'l', oneTag: 'n'}
	wf, _ := verifGenDoc(cfg, T)
	tags, nv := verifTagStream(wf)
	at := verifChoice("at", len(tags))
	tags[at] = nondetU8("tag")
	nv += verifChoice("dvals", 4) - 1
	verifAssume(nv >= 0)
	vals := nondetBytes("vals", 8*nv)
	msg := nondetBytes("msg", 2)
	verifAssume(len(tags) < 0x80 && len(vals) < 0x7f)
	blob := verifFrame(nondetU8("ver"), 0, byte(T), 0, nil, byte(len(msg)), 0, msg, byte(len(tags)), 0, tags, byte(len(vals)), 0, vals)
	s := NewSerializer()
	res, err := s.Deserialize(blob, nil)
	verifReach("Z5.returned")
	if err != nil {
		return
	}
	verifAssert(res != nil, "Deserialize returns a result or an error")
	verifReach("Z5.accepted")
	api := verifChoice("api", 3)
	switch api {
	case 0:
		verifTraverseAll(res)
	case 1, 2:
		// every container the walk reaches, whatever encloses it
		it := res.Iter()
		for k := 0; k < len(res.Tape)+2; k++ {
			tag := it.AdvanceInto()
			if tag == TagEnd {
				break
			}
			if tag == TagArrayStart && api == 1 {
				verifArrayReaders(res, &it)
			}
			if tag == TagObjectStart && api == 2 {
				verifObjectReaders(res, &it)
			}
		}
	}
}
