package simdjson

// Z2 + T7: Deserialize on framed but otherwise arbitrary input never panics/hangs, and whatever it
// returns can be traversed and marshalled without panic (C19). The four sections are uncompressed
// (block type 0, or an unknown type); S2/zstd payload handling is third-party code out of reach.

func verifFrame(ver byte, comp byte, nTape byte, strDecl byte, strBlk []byte, msgDecl byte, msgTyp byte, msg []byte,
	tagDecl byte, tagTyp byte, tags []byte, valDecl byte, valTyp byte, vals []byte) []byte {
	var b []byte
	b = append(b, ver, comp, nTape)
	// strings section (always empty in blobs written by Serialize)
	b = append(b, strDecl, byte(len(strBlk)))
	b = append(b, strBlk...)
	b = append(b, msgDecl, byte(len(msg)+1), msgTyp)
	b = append(b, msg...)
	b = append(b, tagDecl, byte(len(tags)+1), tagTyp)
	b = append(b, tags...)
	b = append(b, valDecl, byte(len(vals)+1), valTyp)
	b = append(b, vals...)
	return b
}

func verifBlockType(name string) byte {
	t := nondetU8(name)
	verifAssume(t != blockTypeS2 && t != blockTypeZstd) // compressed payloads: third-party decoders, out of reach
	return t
}

// verifTraverseAll exercises every reader on an arbitrary (possibly ill-formed) tape: none may panic
// and every loop must terminate.
func verifTraverseAll(pj *ParsedJson) {
	n := len(pj.Tape)
	it := pj.Iter()
	ended := false
	for k := 0; k < n+2; k++ {
		tag := it.AdvanceInto()
		if tag == TagEnd {
			ended = true
			break
		}
		_ = it.Type()
		_, _ = it.StringBytes()
		_, _ = it.Bool()
		// (numeric accessors are total functions of (tag, word, off<len): T2 covers them for every payload)
		_ = it.PeekNext()
	}
	verifAssert(ended, "AdvanceInto reaches the end of any tape within len(tape)+2 steps")
	it2 := pj.Iter()
	ended = false
	for k := 0; k < n+2; k++ {
		if it2.Advance() == TypeNone {
			ended = true
			break
		}
	}
	verifAssert(ended, "Advance reaches the end of any tape within len(tape)+2 steps")
	it3 := pj.Iter()
	_, _ = it3.MarshalJSONBuffer(nil)
	it4 := pj.Iter()
	_, _ = it4.Interface()
	_ = pj.ForEach(func(i Iter) error {
		_, _ = i.MarshalJSONBuffer(nil)
		return nil
	})
	it5 := pj.Iter()
	_, _ = it5.FindElement(nil, "a")
}

func verifHarness_Z2_Corrupt() {
	nTags := verifChoice("ntags", 5)
	nVals := verifChoice("nvals", 4)
	nMsg := verifChoice("nmsg", 3)
	// one deviation from a consistent framing at a time
	variant := verifChoice("variant", 13)
	dTag, dVal, dMsg, odd, strMode, trunc := 0, 0, 0, 0, -1, false
	switch variant {
	case 1:
		dTag = -1
	case 2:
		dTag = 1
	case 3:
		dVal = -1
	case 4:
		dVal = 1
	case 5:
		dMsg = -1
	case 6:
		dMsg = 1
	case 7:
		odd = 4
	case 8, 9, 10:
		strMode = variant - 8
	case 11:
		trunc = true
	case 12:
		dVal = 8 // one whole value word more declared than present
	}
	tags := nondetBytes("tags", nTags)
	vals := nondetBytes("vals", 8*nVals+odd)
	msg := nondetBytes("msg", nMsg)
	nTape := nondetU8("ntape")
	verifAssume(nTape <= 6) // declared sizes small enough to allocate
	tagDecl := byte(nTags + dTag)
	valDecl := byte(len(vals) + dVal)
	msgDecl := byte(nMsg + dMsg)
	verifAssume(tagDecl < 0x80 && valDecl < 0x80 && msgDecl < 0x80)
	ver := nondetU8("ver")
	comp := nondetU8("comp")
	verifAssume(comp < 0x80)
	var strBlk []byte
	strDecl := byte(0)
	if strMode >= 0 {
		strBlk = []byte{verifBlockType("strtyp"), nondetU8("strbyte")}
		strDecl = byte(strMode)
	}
	blob := verifFrame(ver, comp, nTape, strDecl, strBlk, msgDecl, verifBlockType("msgtyp"), msg,
		tagDecl, verifBlockType("tagtyp"), tags, valDecl, verifBlockType("valtyp"), vals)
	if trunc {
		blob = blob[:verifChoice("cut", len(blob))]
	}
	s := NewSerializer()
	var dst *ParsedJson
	if verifChoice("havoc", 2) == 1 {
		verifHavocSerializer(s)
		dst = verifHavocDst(4)
	}
	res, err := s.Deserialize(blob, dst)
	verifReach("Z2.returned")
	if err == nil {
		verifAssert(res != nil, "Deserialize returns a result or an error")
		verifReach("Z2.accepted")
		verifTraverseAll(res)
	}
}
