package simdjson

// K1: Clone yields an independent object: equal contents, and any later edit sequence on the
// original and on the clone (interleaved) leaves each denoting its own document (C16).

func verifCopyTree(nd *verifNode) *verifNode {
	c := *nd
	c.kids = nil
	for _, k := range nd.kids {
		c.kids = append(c.kids, verifCopyTree(k))
	}
	return &c
}

func verifHarness_K1_Clone() {
	T := nondetSize("T")
	cfg := verifCfgEdit()
	cfg.inMsg = verifChoice("inmsg", 2) == 1
	pj, root := verifGenDoc(cfg, T)
	if cfg.inMsg && verifChoice("sbextra", 2) == 1 {
		// no-copy mode with a non-empty string buffer (an escaped string elsewhere in the document, or an earlier SetString
		// since replaced): the strings of this tape still live in Message
		pj.Strings.B = append(pj.Strings.B, nondetU8("sb.extra"))
	}
	// spare capacity behind the string buffer, as a parser leaves it
	sb := make([]byte, len(pj.Strings.B), len(pj.Strings.B)+4)
	copy(sb, pj.Strings.B)
	pj.Strings.B = sb
	var dst *ParsedJson
	switch verifChoice("dst", 3) {
	case 1:
		dst = &ParsedJson{} // zero value: nil Strings
	case 2:
		dst = verifHavocDst(T) // used before: stale contents, capacities either side of what is needed
	}
	cl := pj.Clone(dst)
	verifReach("K1.cloned")
	verifAssert(cl != nil && cl != pj, "Clone returns another object")
	verifAssert(len(cl.Tape) == len(pj.Tape) && verifBytesEq(cl.Message, pj.Message) && verifBytesEq(cl.Strings.B, pj.Strings.B), "Clone copies tape, message and strings")
	same := true
	for i := range pj.Tape {
		same = same && cl.Tape[i] == pj.Tape[i]
	}
	verifAssert(same, "Clone copies every tape word")
	croot := verifCopyTree(root)
	verifReadBack(cl, croot)
	// interleaved edits on both sides
	steps := 1 + verifChoice("steps", 3)
	for s := 0; s < steps; s++ {
		if verifChoice("side", 2) == 0 {
			verifSetStep(pj, root)
		} else {
			verifSetStep(cl, croot)
		}
		verifReadBack(pj, root)
		verifReadBack(cl, croot)
	}
	// overwriting the original's buffers wholesale does not reach the clone
	for i := range pj.Message {
		pj.Message[i] = nondetU8("scribble.msg")
	}
	for i := range pj.Strings.B {
		pj.Strings.B[i] = nondetU8("scribble.str")
	}
	for i := range pj.Tape {
		pj.Tape[i] = nondetU64("scribble.tape")
	}
	verifReadBack(cl, croot)
	verifReach("K1.done")
}
