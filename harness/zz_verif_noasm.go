package simdjson

// anchor for Z3: makes Deserialize reachable in both the default and the noasm build
func verifHarness_NoasmAnchor() {
	s := NewSerializer()
	_, _ = s.Deserialize(nondetBytes("src", 1), nil)
}
