package simdjson

// P3: stage 2 (unifiedMachine with the real updateChar/peekSize, atom checkers, addNumber,
// parseString wrapper) on a message whose structural positions are a concrete layout and whose
// bytes are symbolic, constrained only by "REF-SCAN(message) = this layout". Verdict and tape are
// compared with a general token-level reference parser (REF-JSON / REF-ND) run on the same path.

// ---- REF-SCAN, branch-free ------------------------------------------------------------------

const (
	verifScOther = iota
	verifScWS
	verifScStruct
	verifScQuote
	verifScBackslash
	verifScCtrl
	verifScLF
)

var verifScanClass = func() (t [256]uint8) {
	for i := 0; i < 0x20; i++ {
		t[i] = verifScCtrl
	}
	t[' '], t['\t'], t['\r'] = verifScWS, verifScWS, verifScWS
	t['\n'] = verifScLF
	for _, c := range []byte("{}[]:,") {
		t[c] = verifScStruct
	}
	t['"'] = verifScQuote
	t['\\'] = verifScBackslash
	return
}()

var verifLT20 = func() (t [256]uint8) {
	for i := 0; i < 0x20; i++ {
		t[i] = 1
	}
	return
}()

func verifIs(cls uint8, want uint8) uint8 {
	// 1 if cls == want else 0, without a branch
	x := uint16(cls ^ want)
	return uint8((x - 1) >> 15)
}

// verifScanOK reports (as 0/1) whether REF-SCAN of msg marks exactly the positions with
// want[i] == 1 as structural / pseudo-structural, with no control character inside a string,
// and ends outside any string. ndjson: an unquoted LF is structural (else it is white space).
func verifScanOK(msg []byte, want []uint8, ndjson uint8) uint8 {
	ok := uint8(1)
	esc, inq, pp := uint8(0), uint8(0), uint8(1)
	for i, b := range msg {
		c := verifScanClass[b]
		isBS := verifIs(c, verifScBackslash)
		isQ := verifIs(c, verifScQuote)
		isLF := verifIs(c, verifScLF)
		isWS := verifIs(c, verifScWS) | isLF
		isST := verifIs(c, verifScStruct)
		isCtl := verifLT20[b]
		q := isQ & (esc ^ 1)
		in := inq ^ q
		ok &= (isCtl & in) ^ 1 // raw control character inside a string: stage 1 rejects
		s := (isST & (in ^ 1)) | q
		out := (s | (pp & (isWS ^ 1) & (in ^ 1))) & ((q & (in ^ 1)) ^ 1)
		out |= isLF & (in ^ 1) & ndjson
		ok &= (out ^ want[i]) ^ 1
		pp = s | isWS
		esc = isBS & (esc ^ 1)
		inq = in
	}
	ok &= inq ^ 1
	return ok
}

// ---- reference parser ------------------------------------------------------------------------

type verifRefP struct {
	buf    []byte
	pos    []int // structural positions
	copyS  bool
	ndjson bool
	sb     []byte
}

func verifFollowOK(b byte) bool {
	c := verifScanClass[b]
	return c == verifScWS || c == verifScLF || c == verifScStruct
}

// scalar parses the scalar token starting at structural index i; ok=false if ill-formed.
func (r *verifRefP) scalar(i int) (*verifNode, bool) {
	p := r.pos[i]
	b := r.buf[p:]
	switch {
	case b[0] == '"':
		// the string ends at the first unescaped quote; two-character escapes are decoded (\u escapes are the
		// string lemmas' business and are excluded by the harnesses that allow backslashes at all)
		var dec []byte
		plain := true
		for j := 1; j < len(b); j++ {
			if b[j] == '"' {
				nd := &verifNode{kind: '"', str: b[1:j], size: 2}
				if !plain {
					nd.str = dec
				}
				return nd, true
			}
			c := b[j]
			if c == '\\' {
				if plain {
					dec = append(dec, b[1:j]...)
					plain = false
				}
				if j+1 >= len(b) {
					return nil, false
				}
				j++
				switch b[j] {
				case '"', '\\', '/':
					c = b[j]
				case 'b':
					c = '\b'
				case 'f':
					c = '\f'
				case 'n':
					c = '\n'
				case 'r':
					c = '\r'
				case 't':
					c = '\t'
				default:
					return nil, false
				}
			}
			if !plain {
				dec = append(dec, c)
			}
		}
		return nil, false
	case b[0] == 't':
		if len(b) >= 5 && b[1] == 'r' && b[2] == 'u' && b[3] == 'e' && verifFollowOK(b[4]) {
			return &verifNode{kind: 't', size: 1}, true
		}
		return nil, false
	case b[0] == 'n':
		if len(b) >= 5 && b[1] == 'u' && b[2] == 'l' && b[3] == 'l' && verifFollowOK(b[4]) {
			return &verifNode{kind: 'n', size: 1}, true
		}
		return nil, false
	case b[0] == 'f':
		if len(b) >= 6 && b[1] == 'a' && b[2] == 'l' && b[3] == 's' && b[4] == 'e' && verifFollowOK(b[5]) {
			return &verifNode{kind: 'f', size: 1}, true
		}
		return nil, false
	case b[0] == '-' || (b[0] >= '0' && b[0] <= '9'):
		tag, val := parseNumber(b) // number oracle: lemma P2 proves parseNumber = REF-NUM
		if tag == 0 {
			return nil, false
		}
		return &verifNode{kind: byte(tag >> 56), flags: tag & JSONVALUEMASK, val: val, size: 2}, true
	}
	return nil, false
}

// value parses one JSON value whose first token is structural index i; returns the index after it.
func (r *verifRefP) value(i int, depth int) (int, *verifNode, bool) {
	if i >= len(r.pos) {
		return i, nil, false
	}
	c := r.buf[r.pos[i]]
	if c == '[' {
		nd := &verifNode{kind: '['}
		i++
		if i < len(r.pos) && r.buf[r.pos[i]] == ']' {
			return i + 1, nd, true
		}
		for {
			var k *verifNode
			var ok bool
			i, k, ok = r.value(i, depth+1)
			if !ok || i >= len(r.pos) {
				return i, nil, false
			}
			nd.kids = append(nd.kids, k)
			s := r.buf[r.pos[i]]
			i++
			if s == ']' {
				return i, nd, true
			}
			if s != ',' {
				return i, nil, false
			}
		}
	}
	if c == '{' {
		nd := &verifNode{kind: '{'}
		i++
		if i < len(r.pos) && r.buf[r.pos[i]] == '}' {
			return i + 1, nd, true
		}
		for {
			if i >= len(r.pos) || r.buf[r.pos[i]] != '"' {
				return i, nil, false
			}
			key, ok := r.scalar(i)
			if !ok {
				return i, nil, false
			}
			i++
			if i >= len(r.pos) || r.buf[r.pos[i]] != ':' {
				return i, nil, false
			}
			i++
			var v *verifNode
			i, v, ok = r.value(i, depth+1)
			if !ok || i >= len(r.pos) {
				return i, nil, false
			}
			nd.kids = append(nd.kids, key, v)
			s := r.buf[r.pos[i]]
			i++
			if s == '}' {
				return i, nd, true
			}
			if s != ',' {
				return i, nil, false
			}
		}
	}
	if c == ']' || c == '}' || c == ',' || c == ':' || c == '\n' {
		return i, nil, false
	}
	nd, ok := r.scalar(i)
	return i + 1, nd, ok
}

// document(s): Parse: one object/array then end; ParseND: roots separated by (runs of) LF tokens.
func (r *verifRefP) parse() ([]*verifNode, bool) {
	var roots []*verifNode
	i := 0
	for {
		if i >= len(r.pos) {
			return nil, false
		}
		c := r.buf[r.pos[i]]
		if c != '{' && c != '[' {
			return nil, false
		}
		var nd *verifNode
		var ok bool
		i, nd, ok = r.value(i, 0)
		if !ok {
			return nil, false
		}
		roots = append(roots, nd)
		if i == len(r.pos) {
			return roots, true
		}
		if !r.ndjson || r.buf[r.pos[i]] != '\n' {
			return nil, false
		}
		for i < len(r.pos) && r.buf[r.pos[i]] == '\n' {
			i++
		}
		if i == len(r.pos) {
			return roots, true
		}
	}
}

// ---- tape comparison ---------------------------------------------------------------------------

// verifCheckRoots: the tape holds exactly these roots, in order, each read back through the
// traversal APIs as the reference document; tape format checked separately.
func verifCheckRoots(pj *ParsedJson, roots []*verifNode) {
	it := pj.Iter()
	for _, root := range roots {
		verifAssert(it.Advance() == TypeRoot, "one root element per document")
		var tmp Iter
		typ, rit, err := it.Root(&tmp)
		verifAssert(err == nil && typ == verifTypeOf(root.kind), "Root() yields the document's top-level container")
		verifCheckValue(rit, root, verifModeAdvance)
	}
	verifAssert(it.Advance() == TypeNone, "nothing after the last root")
	// flat order check incl. end tags
	fl := pj.Iter()
	for _, root := range roots {
		verifAssert(fl.AdvanceInto() == TagRoot, "root open")
		for _, ev := range verifFlatten(root, nil) {
			verifAssert(fl.AdvanceInto() == Tag(ev.tag), "tape entries follow document order")
		}
		verifAssert(fl.AdvanceInto() == TagRoot, "root close")
	}
	verifAssert(fl.AdvanceInto() == TagEnd, "end of tape")
}

// ---- the harness ----------------------------------------------------------------------------------

var verifWidths = []int{1, 2, 4, 5, 8}

// narrower gap set for layouts with more tokens: 1 (adjacent), 4 ("true", "null", "ab" quoted, token + white space), 5 ("false", ...)
var verifWidthsNarrow = []int{1, 4, 5}

func verifLayout(maxK int) []int {
	K := 2 + verifChoice("K", maxK-1)
	wset := verifChoice("wset", 3)
	ws := verifWidths
	if wset == 1 {
		ws = verifWidthsNarrow
	}
	pos := make([]int, K)
	p := 0
	for i := 0; i < K; i++ {
		pos[i] = p
		if i < K-1 {
			if wset == 2 {
				// alternating layout: a 1-byte token (punctuation) followed by a 4- or 5-byte token (key, atom, number, ...)
				if i%2 == 0 {
					p++
				} else {
					p += 4 + verifChoice("w45", 2)
				}
			} else {
				p += ws[verifChoice("w", len(ws))]
			}
		}
	}
	return pos
}

func verifFillChannel(pj *internalParsedJson, pos []int) {
	// split the index stream into buffers at the points stage 1 can produce: a non-markup last index is stripped (once) and
	// re-sent with the next buffer, so either the buffer ends on markup or the next buffer starts with a non-markup token
	// (then the buffer may end on anything, e.g. on the first of two newlines); the reference never sees the split
	pj.indexChans = make(chan indexChan, indexSlots-2)
	slot := 0
	start := 0
	prev := -1
	cut := len(pos)
	if len(pos) > 1 && verifChoice("split", 2) == 1 {
		// one hand-over point (more than one adds nothing: the consumer state carried across a hand-over is the same)
		cut = 1 + verifChoice("splitat", len(pos)-1)
		verifAssume(jsonMarkup(pj.Message[pos[cut-1]]) || (cut < len(pos) && !jsonMarkup(pj.Message[pos[cut]])))
	}
	for start < len(pos) {
		end := len(pos)
		if start < cut {
			end = cut
		}
		ic := indexChan{indexes: &pj.buffers[slot]}
		for i := start; i < end; i++ {
			ic.indexes[ic.length] = uint32(pos[i] - prev)
			prev = pos[i]
			ic.length++
		}
		pj.indexChans <- ic
		slot++
		start = end
	}
	pj.indexChans <- indexChan{index: -1}
}

// verifSplitTokenKinds case-splits the first byte of every token (the six punctuation marks, a quote, or
// anything else) by verifChoice, so that the work can be distributed over worker processes; it adds no constraint.
func verifSplitTokenKinds(msg []byte, pos []int) {
	marks := []byte("{}[]:,\"")
	for _, p := range pos {
		k := verifChoice("kind", len(marks)+1)
		if k < len(marks) {
			verifAssume(msg[p] == marks[k])
		} else {
			for _, m := range marks {
				verifAssume(msg[p] != m)
			}
		}
	}
}

func verifHarness_P3_Machine() {
	pos := verifLayout(8)
	K := len(pos)
	N := pos[K-1] + 1
	msg := nondetBytes("msg", N)
	nd := verifChoice("ndjson", 2)
	want := make([]uint8, N)
	for _, p := range pos {
		want[p] = 1
	}
	verifAssume(verifScanOK(msg, want, uint8(nd)) == 1)
	// end-of-message verdict of stage 1 (lemma G1): the last structural is '}' or ']'
	verifAssume(msg[N-1] == '}' || msg[N-1] == ']')
	// escapes inside strings are the string lemmas' business (S1-S6)
	for _, b := range msg {
		verifAssume(b != '\\')
	}
	pj := &internalParsedJson{}
	pj.Message = msg
	pj.initialize(len(msg))
	pj.ndjson = uint64(nd)
	pj.copyStrings = verifChoice("copy", 2) == 1
	verifFillChannel(pj, pos)
	ok, _ := pj.unifiedMachine()
	verifReach("P3.returned")
	ref := &verifRefP{buf: msg, pos: pos, copyS: pj.copyStrings, ndjson: nd == 1}
	roots, refOK := ref.parse()
	verifAssert(ok == refOK, "stage 2 accepts exactly the token sequences of the JSON grammar (object/array roots; ndjson: roots separated by newlines)")
	if !ok {
		return
	}
	verifReach("P3.accepted")
	verifAssert(verifWFTape(&pj.ParsedJson, true, false), "the produced tape obeys the documented format")
	verifCheckRoots(&pj.ParsedJson, roots)
	// string mode: with copying every string carries the buffer flag (then nothing refers to Message)
	if pj.copyStrings {
		for i := 0; i < len(pj.Tape); i++ {
			switch byte(pj.Tape[i] >> 56) {
			case '"':
				verifAssert(pj.Tape[i]&STRINGBUFBIT != 0, "copy mode: every string entry points into the string buffer")
				i++
			case 'l', 'u', 'd':
				i++ // value word
			}
		}
	}
}

// ---- tier (ii): valid skeletons with one free token ---------------------------------------------------

// token kinds: punctuation marks stand for themselves, s = any scalar token (string, number, atom: bytes
// free), k = object key (a string), n = newline token (ndjson only)
var verifSkeletons = []string{
	"[s,s]", "{k:s}", "[[s]]", "[s,s,s]", "{k:[s]}", "[{k:s}]", "{k:s,k:s}", "[{k:s},s]", "{k:{k:s}}", "[[],{}]", "[[s],[s]]",
}
var verifSkeletonsND = []string{
	"[]n[]", "[s]n{k:s}", "{}nn[s]", "[s]n[s]n[s]",
}
var verifScalarWidths = []int{4, 5, 8}

func verifHarness_P3_Skeleton() {
	nd := verifChoice("ndjson", 2)
	sks := verifSkeletons
	if nd == 1 {
		sks = verifSkeletonsND
	}
	idx := verifChoice("skeleton", 12)
	verifAssume(idx < len(sks))
	sk := sks[idx]
	K := len(sk)
	free := verifChoice("free", 16) // K and above: no free token (the skeleton itself)
	verifAssume(free <= K)
	sw := verifScalarWidths[verifChoice("sw", len(verifScalarWidths))]
	pos := make([]int, K)
	p := 0
	for i := 0; i < K; i++ {
		pos[i] = p
		if sk[i] == 's' || sk[i] == 'k' || i == free {
			p += sw
		} else {
			p++
		}
	}
	N := pos[K-1] + 1
	msg := nondetBytes("msg", N)
	want := make([]uint8, N)
	for _, q := range pos {
		want[q] = 1
	}
	verifAssume(verifScanOK(msg, want, uint8(nd)) == 1)
	verifAssume(msg[N-1] == '}' || msg[N-1] == ']')
	for _, b := range msg {
		verifAssume(b != '\\')
	}
	for i := 0; i < K; i++ {
		if i == free {
			continue
		}
		c := msg[pos[i]]
		switch sk[i] {
		case 's':
			// a fixed representative scalar (the free token is where the kinds vary): null, then white space
			verifAssume(c == 'n' && msg[pos[i]+1] == 'u' && msg[pos[i]+2] == 'l' && msg[pos[i]+3] == 'l')
			for j := 4; j < sw; j++ {
				verifAssume(msg[pos[i]+j] == ' ')
			}
		case 'k':
			// a key filling its slot: quote, sw-2 free bytes, quote
			verifAssume(c == '"' && msg[pos[i]+sw-1] == '"')
			for j := 1; j < sw-1; j++ {
				verifAssume(msg[pos[i]+j] != '"')
			}
		case 'n':
			verifAssume(c == '\n')
		default:
			verifAssume(c == sk[i])
		}
	}
	pj := &internalParsedJson{}
	pj.Message = msg
	pj.initialize(len(msg))
	pj.ndjson = uint64(nd)
	pj.copyStrings = verifChoice("copy", 2) == 1
	verifFillChannel(pj, pos)
	ok, _ := pj.unifiedMachine()
	verifReach("P3s.returned")
	ref := &verifRefP{buf: msg, pos: pos, copyS: pj.copyStrings, ndjson: nd == 1}
	roots, refOK := ref.parse()
	verifAssert(ok == refOK, "stage 2 accepts exactly the token sequences of the JSON grammar")
	if !ok {
		return
	}
	verifReach("P3s.accepted")
	verifAssert(verifWFTape(&pj.ParsedJson, true, false), "the produced tape obeys the documented format")
	verifCheckRoots(&pj.ParsedJson, roots)
}


// P3.escapes: strings with two-character escapes through stage 2: the Go wrapper of the validating decoder runs for
// real (it decides from the decoder's two lengths whether the string must be copied), the assembly below it is its
// reference relation restricted to two-character escapes.
func verifHarness_P3_Escapes() {
	w := 4 + verifChoice("w", 4) // quote + 2..5 body bytes + quote
	obj := verifChoice("obj", 2) == 1
	var pos []int
	if obj {
		pos = []int{0, 1, 1 + w, 2 + w, 2 + 2*w}
	} else {
		pos = []int{0, 1, 1 + w}
	}
	K := len(pos)
	N := pos[K-1] + 1
	msg := nondetBytes("msg", N)
	want := make([]uint8, N)
	for _, q := range pos {
		want[q] = 1
	}
	verifAssume(verifScanOK(msg, want, 0) == 1)
	if obj {
		verifAssume(msg[0] == '{' && msg[1] == '"' && msg[1+w] == ':' && msg[2+w] == '"' && msg[N-1] == '}')
	} else {
		verifAssume(msg[0] == '[' && msg[1] == '"' && msg[N-1] == ']')
	}
	for i := 0; i+1 < N; i++ {
		if verifKnownFinding("never") {
			break
		}
		// \u escapes: lemmas S1-S4
		verifAssume(!(msg[i] == '\\' && msg[i+1] == 'u'))
	}
	pj := &internalParsedJson{}
	pj.Message = msg
	pj.initialize(len(msg))
	pj.copyStrings = verifChoice("copy", 2) == 1
	verifFillChannel(pj, pos)
	ok, _ := pj.unifiedMachine()
	verifReach("P3e.returned")
	ref := &verifRefP{buf: msg, pos: pos, copyS: pj.copyStrings}
	roots, refOK := ref.parse()
	verifAssert(ok == refOK, "stage 2 accepts a string exactly when its escapes are well-formed")
	if !ok {
		return
	}
	verifReach("P3e.accepted")
	verifAssert(verifWFTape(&pj.ParsedJson, true, false), "the produced tape obeys the documented format")
	verifCheckRoots(&pj.ParsedJson, roots)
}

// S6: parseString (the Go wrapper around the two decoder routines) establishes what they need: at least 44 readable
// bytes beyond any cursor position up to the closing quote (the decoder loads 32-byte windows and looks 12 bytes
// ahead for surrogate pairs) and 32 bytes of slack behind the copied string; and it writes offset / flag / length.
func verifHarness_S6_ParseString() {
	tail := 4 + verifChoice("tail", 80) // bytes from the opening quote to the end of the message
	slen := verifChoice("slen", 4)      // string body length
	verifAssume(slen+2 <= tail)
	msg := nondetBytes("msg", tail)
	verifAssume(msg[0] == '"' && msg[slen+1] == '"')
	for i := 1; i <= slen; i++ {
		verifAssume(msg[i] != '"' && msg[i] != '\\')
	}
	l0 := verifChoice("sblen", 42)
	pj := &ParsedJson{Message: msg, Strings: &TStrings{B: make([]byte, l0, 41)}}
	for i := range pj.Strings.B {
		pj.Strings.B[i] = nondetU8("stale.sb")
	}
	copyMode := verifChoice("copy", 2) == 1
	ok := parseString(pj, 0, uint64(verifChoice("maxsize", 2)*(slen+2)), copyMode)
	verifReach("S6.parseString")
	verifAssert(ok, "an escape-free, terminated string is accepted")
	verifAssert(len(pj.Tape) == 2 && pj.Tape[1] == uint64(slen) && byte(pj.Tape[0]>>56) == '"', "tape gets the string entry and its length")
	off := pj.Tape[0] & JSONVALUEMASK
	if copyMode {
		verifAssert(off&STRINGBUFBIT != 0, "copy mode: the entry points into the string buffer")
		b, err := pj.stringByteAt(off, pj.Tape[1])
		verifAssert(err == nil && verifBytesEq(b, msg[1:1+slen]), "the copied bytes are the string's bytes")
		verifAssert(len(pj.Strings.B) == l0+slen, "the string buffer grows by the string's length")
	} else {
		verifAssert(off == 1, "no-copy mode: the entry points at the byte after the opening quote")
	}
}
