package simdjson

// refWF: the documented tape format (README "Tape format", DESIGN Appendix A.3), written
// independently of the code under test.

// verifWFList checks that tape[lo:hi) is a value list (obj: key/value members). strictNop: a NOP
// run's count must land on a live entry or the list end (what Deserialize must produce); otherwise
// a run may be followed by another run (what successive in-place deletions produce).
func verifWFList(pj *ParsedJson, lo, hi int, obj bool, strictNop bool) bool {
	t := pj.Tape
	p := lo
	expectKey := obj
	prevNop := false
	for p < hi {
		w := t[p]
		tag := byte(w >> 56)
		pay := w & JSONVALUEMASK
		if tag == 'N' {
			if obj && !expectKey {
				return false // no gap between a key and its value
			}
			if strictNop && prevNop {
				return false
			}
			k := int(pay)
			if pay == 0 || pay > uint64(hi-p) {
				return false
			}
			for j := 1; j < k; j++ {
				if t[p+j] != uint64('N')<<56|uint64(k-j) {
					return false
				}
			}
			p += k
			prevNop = true
			continue
		}
		prevNop = false
		if obj && expectKey && tag != '"' {
			return false
		}
		switch tag {
		case 'n', 't', 'f':
			if pay != 0 {
				return false
			}
			p++
		case 'l', 'u':
			if pay != 0 || p+1 >= hi {
				return false
			}
			p += 2
		case 'd':
			if pay > 1 || p+1 >= hi {
				return false
			}
			p += 2
		case '"':
			if p+1 >= hi {
				return false
			}
			ln := t[p+1]
			if pay&STRINGBUFBIT != 0 {
				off := pay & STRINGBUFMASK
				if pj.Strings == nil || off > uint64(len(pj.Strings.B)) || ln > uint64(len(pj.Strings.B))-off {
					return false
				}
			} else {
				if pay > uint64(len(pj.Message)) || ln > uint64(len(pj.Message))-pay {
					return false
				}
			}
			p += 2
		case '{', '[':
			if obj && expectKey {
				return false
			}
			e := int(pay)
			if pay > uint64(hi) || e < p+2 {
				return false
			}
			cl := byte(']')
			if tag == '{' {
				cl = '}'
			}
			if t[e-1] != uint64(cl)<<56|uint64(p) {
				return false
			}
			if !verifWFList(pj, p+1, e-1, tag == '{', strictNop) {
				return false
			}
			p = e
		default:
			return false
		}
		if obj {
			expectKey = !expectKey
		}
	}
	return p == hi && (!obj || expectKey)
}

// verifWFTape checks the whole tape: a sequence of root pairs, each holding exactly one live
// top-level value: an object or array as Parse produces, or (topAny) any value, as after SetNull on it.
func verifWFTape(pj *ParsedJson, strictNop bool, topAny bool) bool {
	t := pj.Tape
	n := len(t)
	o := 0
	if n == 0 {
		return false
	}
	for o < n {
		w := t[o]
		if byte(w>>56) != 'r' {
			return false
		}
		e := int(w & JSONVALUEMASK)
		if w&JSONVALUEMASK > uint64(n) || e < o+2 {
			return false
		}
		if t[e-1] != uint64('r')<<56|uint64(o) {
			return false
		}
		// exactly one live value, a container
		live := 0
		p := o + 1
		for p < e-1 {
			tag := byte(t[p] >> 56)
			if tag == 'N' {
				k := int(t[p] & JSONVALUEMASK)
				if k < 1 {
					return false
				}
				p += k
				continue
			}
			live++
			switch tag {
			case '{', '[':
				p = int(t[p] & JSONVALUEMASK)
			case 'n', 't', 'f':
				if !topAny {
					return false
				}
				p++
			default:
				if !topAny {
					return false
				}
				p += 2
			}
		}
		if live != 1 {
			return false
		}
		if !verifWFList(pj, o+1, e-1, false, strictNop) {
			return false
		}
		o = e
	}
	return true
}
