package simdjson

import "io"

// E3 harness for C09 (ParseNDStream). The region is entered through the real ParseNDStream; its two goroutine
// closures and the per-chunk worker closure are the repository's. Intercepted under vsym/e3 (see vsym/e3/ndstream.py):
// bufio.NewReaderSize / (*bufio.Reader).Read / ReadBytes over an abstract stream (symbolic bytes, every fragmentation,
// fault at any offset), sync.Pool, runtime.GOMAXPROCS, parseMessage(chunk) = uninterpreted, the environment ends of the
// `res` and `reuse` channels.

// verifE3Reader is the stream handed to ParseNDStream (intercepted; never read natively).
func verifE3Reader() io.Reader { return nil }

// verifE3EnvChans tells the encoder which channels are owned by the environment (intercepted).
func verifE3EnvChans(res chan Stream, reuse chan *ParsedJson) {}

func verifE3_NDStream() {
	r := verifE3Reader()
	res := make(chan Stream, 1)
	reuse := make(chan *ParsedJson, 1)
	verifE3EnvChans(res, reuse)
	ParseNDStream(r, res, reuse)
}
