package simdjson

// T1: every traversal API exposes exactly the abstract document the tape denotes (DESIGN §4 T1).

const (
	verifModeAdvance = iota
	verifModeAdvanceIter
	verifModeForEach
)

func verifCheckValue(it *Iter, nd *verifNode, mode int) {
	switch nd.kind {
	case '[':
		verifAssert(it.Type() == TypeArray, "array value has TypeArray")
		arr, err := it.Array(verifStaleArray())
		verifAssert(err == nil, "Array() on an array value succeeds")
		verifCheckArray(arr, nd, mode)
	case '{':
		verifAssert(it.Type() == TypeObject, "object value has TypeObject")
		obj, err := it.Object(verifStaleObject())
		verifAssert(err == nil, "Object() on an object value succeeds")
		verifCheckObject(obj, nd, mode)
	default:
		verifCheckScalar(it, nd)
	}
}

func verifCheckArray(arr *Array, nd *verifNode, mode int) {
	switch mode {
	case verifModeAdvance:
		ai := arr.Iter()
		for _, k := range nd.kids {
			t := ai.Advance()
			verifAssert(t == verifTypeOf(k.kind), "Advance yields the next element's type (none skipped, none resurrected)")
			verifCheckValue(&ai, k, mode)
		}
		verifAssert(ai.Advance() == TypeNone, "Advance yields TypeNone after the last element")
	case verifModeAdvanceIter:
		ai := arr.Iter()
		var el Iter
		for _, k := range nd.kids {
			t, err := ai.AdvanceIter(&el)
			verifAssert(err == nil && t == verifTypeOf(k.kind), "AdvanceIter yields the next element's type")
			verifCheckValue(&el, k, mode)
		}
		t, err := ai.AdvanceIter(&el)
		verifAssert(err == nil && t == TypeNone, "AdvanceIter yields TypeNone after the last element")
	case verifModeForEach:
		i := 0
		arr.ForEach(func(it Iter) {
			verifAssert(i < len(nd.kids), "ForEach calls back at most once per element")
			verifCheckValue(&it, nd.kids[i], mode)
			i++
		})
		verifAssert(i == len(nd.kids), "ForEach calls back for every element")
	}
}

func verifCheckObject(obj *Object, nd *verifNode, mode int) {
	switch mode {
	case verifModeAdvance, verifModeAdvanceIter:
		var el Iter
		for i := 0; i < len(nd.kids); i += 2 {
			name, t, err := obj.NextElementBytes(&el)
			verifAssert(err == nil && t == verifTypeOf(nd.kids[i+1].kind), "NextElementBytes yields the next member's type")
			verifAssert(verifBytesEq(name, nd.kids[i].str), "NextElementBytes yields the next member's key")
			verifCheckValue(&el, nd.kids[i+1], mode)
		}
		_, t, err := obj.NextElementBytes(&el)
		verifAssert(err == nil && t == TypeNone, "NextElementBytes yields TypeNone after the last member")
	case verifModeForEach:
		i := 0
		err := obj.ForEach(func(key []byte, it Iter) {
			verifAssert(i < len(nd.kids), "Object.ForEach calls back at most once per member")
			verifAssert(verifBytesEq(key, nd.kids[i].str), "Object.ForEach passes the member's own key")
			verifCheckValue(&it, nd.kids[i+1], mode)
			i += 2
		}, nil)
		verifAssert(err == nil && i == len(nd.kids), "Object.ForEach calls back for every member")
	}
}

func verifCfgT1(nops bool) verifGenCfg {
	return verifGenCfg{nops: nops, objects: true, arrays: true, strs: true, nums: true, ones: true, maxDepth: 3,
		strLen: 1, strLen2: 0, keyLen: 1} // string values of length 1 or 0 (an empty string stored last has offset == len(buffer))
}

// destinations handed to Root/Object/Array: nil, or (staledst) objects last used on some other document (another ParsedJson, e.g.
// the original of a clone): what they held must not show through (C16: results are independent of earlier objects)
var verifStaleDst bool

func verifStalePJ() ParsedJson {
	return ParsedJson{Tape: []uint64{nondetU64("stale.dst.tape0"), nondetU64("stale.dst.tape1")}, Message: nondetBytes("stale.dst.message", 2),
		Strings: &TStrings{B: nondetBytes("stale.dst.strings", 3)}}
}

func verifStaleObject() *Object {
	if !verifStaleDst {
		return nil
	}
	return &Object{tape: verifStalePJ(), off: 1}
}

func verifStaleArray() *Array {
	if !verifStaleDst {
		return nil
	}
	return &Array{tape: verifStalePJ(), off: 1}
}

func verifStaleIter() *Iter {
	if !verifStaleDst {
		return nil
	}
	return &Iter{tape: verifStalePJ(), off: 1, addNext: 1, cur: nondetU64("stale.dst.cur"), t: TagString}
}

func verifWalkDoc(T int, nops bool, mode int) {
	pj, root := verifGenDoc(verifCfgT1(nops), T)
	it := pj.Iter()
	verifAssert(it.Advance() == TypeRoot, "tape starts with a root")
	verifStaleDst = verifChoice("staledst", 2) == 1
	typ, rit, err := it.Root(verifStaleIter())
	verifAssert(err == nil && typ == verifTypeOf(root.kind), "Root() yields the top-level container")
	verifCheckValue(rit, root, mode)
	verifAssert(it.Advance() == TypeNone, "single root: nothing after it")
	verifReach("T1.walk")
}

func verifHarness_T1_Advance()     { verifWalkDoc(nondetSize("T"), verifChoice("nops", 2) == 1, verifModeAdvance) }
func verifHarness_T1_AdvanceIter() { verifWalkDoc(nondetSize("T"), verifChoice("nops", 2) == 1, verifModeAdvanceIter) }
func verifHarness_T1_ForEach()     { verifWalkDoc(nondetSize("T"), verifChoice("nops", 2) == 1, verifModeForEach) }

// nondetSize is a case split over the tape sizes of the current bound (fixed per job by the driver).
func nondetSize(name string) int { return 4 + verifChoice(name, 13) }

// flat pre-order walk with AdvanceInto / PeekNextTag
type verifEvent struct {
	tag byte
	nd  *verifNode
}

func verifFlatten(nd *verifNode, out []verifEvent) []verifEvent {
	switch nd.kind {
	case '[', '{':
		out = append(out, verifEvent{nd.kind, nd})
		for _, k := range nd.kids {
			out = verifFlatten(k, out)
		}
		cl := byte(']')
		if nd.kind == '{' {
			cl = '}'
		}
		out = append(out, verifEvent{cl, nil})
	default:
		out = append(out, verifEvent{nd.kind, nd})
	}
	return out
}

func verifHarness_T1_AdvanceInto() {
	T := nondetSize("T")
	pj, root := verifGenDoc(verifCfgT1(verifChoice("nops", 2) == 1), T)
	evs := verifFlatten(root, nil)
	it := pj.Iter()
	verifAssert(it.PeekNextTag() == TagRoot, "PeekNextTag sees the root")
	verifAssert(it.AdvanceInto() == TagRoot, "AdvanceInto enters the root")
	for _, ev := range evs {
		verifAssert(it.PeekNextTag() == Tag(ev.tag), "PeekNextTag sees the next live entry")
		tag := it.AdvanceInto()
		verifAssert(tag == Tag(ev.tag), "AdvanceInto yields the next live entry in document order")
		if ev.nd != nil && ev.nd.kind != '[' && ev.nd.kind != '{' {
			verifCheckScalar(&it, ev.nd)
		}
	}
	verifAssert(it.AdvanceInto() == TagRoot, "closing root follows the document")
	verifAssert(it.PeekNextTag() == TagEnd && it.AdvanceInto() == TagEnd, "end of tape after the closing root")
	verifReach("T1.flat")
}

// T8: totality of the read API on well-formed tapes (C05 "on any returned result, every traversal, lookup and marshalling call
// terminates without panic"): the iterator is moved with AdvanceInto to EVERY position of the tape (opening and closing root
// tags, container starts and ends, keys, values, the end of the tape) and at the chosen position every reader is called on its
// own copy of the iterator. Nothing is compared (T1-T6 do that): the obligations are the implicit ones (index, slice, nil,
// unwinding) plus progress of the walkers.
func verifHarness_T8_TotalAtEveryPosition() {
	T := nondetSize("T")
	cfg := verifCfgT1(verifChoice("nops", 2) == 1)
	cfg.numTag, cfg.oneTag = 'l', 'n'
	var pj *ParsedJson
	if verifChoice("roots", 2) == 1 {
		pj, _ = verifGenDocs(cfg, 4, T)
	} else {
		pj, _ = verifGenDoc(cfg, T)
	}
	at := verifChoice("at", len(pj.Tape)+2)
	it := pj.Iter()
	for k := 0; k < at; k++ {
		if it.AdvanceInto() == TagEnd {
			break
		}
	}
	verifReach("T8.positioned")
	n := len(pj.Tape)
	c := it
	_ = c.Type()
	c = it
	_, _, _ = c.Root(nil)
	c = it
	_, _ = c.Object(nil)
	c = it
	_, _ = c.Array(nil)
	c = it
	_, _ = c.Interface()
	c = it
	_, _ = c.FindElement(nil, "a")
	c = it
	_, _ = c.FindElement(nil, "a", "b")
	c = it
	_, _ = c.MarshalJSON()
	c = it
	_, _ = c.String()
	c = it
	_, _ = c.StringBytes()
	c = it
	_, _ = c.StringCvt()
	c = it
	_, _ = c.Int()
	c = it
	_, _ = c.Uint()
	c = it
	_, _, _ = c.FloatFlags()
	c = it
	_, _ = c.Bool()
	c = it
	_ = c.PeekNext()
	_ = c.PeekNextTag()
	c = it
	ended := false
	for k := 0; k < n+2; k++ {
		if c.Advance() == TypeNone {
			ended = true
			break
		}
	}
	verifAssert(ended, "Advance from any position reaches the end within len(tape)+2 steps")
	c = it
	ended = false
	var el Iter
	for k := 0; k < n+2; k++ {
		t, err := c.AdvanceIter(&el)
		if t == TypeNone || err != nil {
			ended = true
			break
		}
		_, _ = el.Interface()
	}
	verifAssert(ended, "AdvanceIter from any position reaches the end within len(tape)+2 steps")
	c = it
	ended = false
	for k := 0; k < n+2; k++ {
		if c.AdvanceInto() == TagEnd {
			ended = true
			break
		}
	}
	verifAssert(ended, "AdvanceInto from any position reaches the end within len(tape)+2 steps")
	verifReach("T8.done")
}
